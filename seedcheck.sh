#!/bin/bash
# seedcheck.sh <Cxx> <k> [check ids...] : validate a seeded change (suite passes, demo fails/passes) and run checks on it
id=$1; k=$2; shift 2
checks=${@:-$id}
src=/verif/seeded/${id}_$k
[ -d "$src" ] || src=/tmp/seedout_$id/$k
wt=/tmp/sv_${id}_$k
mkdir -p /tmp/seedres
out=/tmp/seedres/${id}_$k.txt
{
git -C /repo worktree remove --force $wt 2>/dev/null
git -C /repo worktree add -q $wt HEAD || exit 1
cd $wt
if ! git apply $src/patch.diff; then echo "RESULT apply=FAIL"; git -C /repo worktree remove --force $wt; exit 0; fi
suite=$(PYTHONPATH=$wt timeout 900 /venv/bin/python -m pytest -q -p no:cacheprovider --timeout=900 2>&1 | tail -1)
echo "suite(changed): $suite"
PYTHONPATH=$wt timeout 600 /venv/bin/python $src/demo.py > /tmp/seedres/${id}_$k.demo_changed 2>&1; dc=$?
PYTHONPATH=/repo timeout 600 /venv/bin/python $src/demo.py > /tmp/seedres/${id}_$k.demo_clean 2>&1; dk=$?
echo "demo changed exit=$dc : $(tail -1 /tmp/seedres/${id}_$k.demo_changed | cut -c1-300)"
echo "demo clean   exit=$dk : $(tail -1 /tmp/seedres/${id}_$k.demo_clean | cut -c1-200)"
# the checks run from a private copy of /verif so that regenerated models of the changed tree never touch /verif's build
vc=/tmp/verif_seed_${id}_$k
mkdir -p $vc && rsync -a --delete --exclude .git --exclude replays --exclude .run --exclude evidence /verif/ $vc/
for c in $checks; do
  s=$(date +%s)
  r=$(cd $vc && VERIF_REPO=$wt timeout 3000 ./check $c quick 2>&1)
  rc=$?
  echo "check $c rc=$rc $(( $(date +%s)-s ))s violations=$(echo "$r" | grep -c '^VIOLATION') nofail=$(echo "$r" | grep -c 'no-failing-input-found') | $(echo "$r" | tail -1)"
  echo "$r" | grep '^VIOLATION' | head -3
  f=$(echo "$r" | grep '^VIOLATION' | head -1 | sed 's/.*replay=\([^ ]*\).*/\1/')
  [ -n "$f" ] && [ -f "$f" ] && python3 -c "
import json,sys; d=json.load(open('$f')); print('   first:', d.get('what') or [b.get('obligation') for b in d.get('broken',[])][:3])"
done
cd /; git -C /repo worktree remove --force $wt
mkdir -p /tmp/seedres/replays; cp $vc/replays/* /tmp/seedres/replays/ 2>/dev/null; rm -rf $vc
echo "RESULT suite_ok=$([[ "$suite" == *passed* && "$suite" != *failed* ]] && echo 1 || echo 0) demo_changed=$dc demo_clean=$dk"
} > $out 2>&1
cat $out
