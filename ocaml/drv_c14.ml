(* C14 driver: batched commands for Model.Id3Util.  Each command takes fixed parameters followed by any
   number of inputs and replies with one result per input, space separated:
   bytes `x<hex>`, integers hex, booleans 1/0, exceptions `!<PythonExceptionName>`. *)
open Common
open Py

let res f = function Ok a -> f a | Raise e -> "!" ^ exc_name e
let join f l = String.concat " " (Stdlib.List.map f l)

let init () =
  (* c14_to_str bits be width minwidth v... *)
  register "c14_to_str" (fun (bits :: be :: width :: minwidth :: vs) ->
    let b = z_of_string bits and e = bool_of_string be and w = z_of_string width and m = z_of_string minwidth in
    join (fun v -> res hex_of_bytes (Id3Util.to_str (z_of_string v) b e w m)) vs);
  (* c14_bpi_int bits v... *)
  register "c14_bpi_int" (fun (bits :: vs) ->
    let b = z_of_string bits in
    join (fun v -> res string_of_z (Id3Util.bpi_of_int b (z_of_string v))) vs);
  (* c14_bpi_bytes bits be x... *)
  register "c14_bpi_bytes" (fun (bits :: be :: xs) ->
    let b = z_of_string bits and e = bool_of_string be in
    join (fun x -> res string_of_z (Id3Util.bpi_of_bytes b e (bytes_of_hex x))) xs);
  register "c14_hvp_bytes" (fun (bits :: xs) ->
    let b = z_of_string bits in
    join (fun x -> res string_of_bool (Id3Util.has_valid_padding_bytes b (bytes_of_hex x))) xs);
  register "c14_hvp_int" (fun (bits :: vs) ->
    let b = z_of_string bits in
    join (fun v -> res string_of_bool (Id3Util.has_valid_padding_int b (z_of_string v))) vs);
  register "c14_unsynch_encode" (fun xs ->
    join (fun x -> hex_of_bytes (Id3Util.unsynch_encode (bytes_of_hex x))) xs);
  register "c14_unsynch_decode" (fun xs ->
    join (fun x -> res hex_of_bytes (Id3Util.unsynch_decode (bytes_of_hex x))) xs)
