(* C04 (DSF): c04_load_dsf DSF x<hex>  ->  ok [ints]  |  raise <PythonExceptionName>  |  fuel *)
open Common
open Py

let reply to_list r =
  match r with
  | Ok a -> "ok " ^ zlist_to_string (to_list a)
  | Raise EOutOfFuel -> "fuel"
  | Raise e -> "raise " ^ exc_name e

let init () =
  register "c04_load_dsf" (fun [k; data] ->
    let d = bytes_of_hex data in
    match k with
    | "DSF" -> reply Parse_dsf.dsf_id (Parse_dsf.dsf_load d)
    | _ -> "error unknown-loader " ^ k)
