(* line-protocol commands of the FLAC family model (Model.Fam_flac)
   tokens:  bytes  x<hex>            blocks  code/ovf/x<hex>,...  ("-" = empty list)
            comments  x<key>=x<val>,...  ("-" = none)      padding mode  none | default | keep | c<hex>
            tags      <vendor-bytes> <comments>  or  none -           *)
open Common
open Py
open Fam_flac

let split c s = if s = "-" || s = "" then [] else String.split_on_char c s

let comments_of s =
  Stdlib.List.map (fun kv -> match String.split_on_char '=' kv with
    | [k; v] -> (bytes_of_hex k, bytes_of_hex v) | _ -> failwith "comment") (split ',' s)
let string_of_comments cs =
  if cs = [] then "-" else
  String.concat "," (Stdlib.List.map (fun (k, v) -> hex_of_bytes k ^ "=" ^ hex_of_bytes v) cs)

let blocks_of s =
  Stdlib.List.map (fun b -> match String.split_on_char '/' b with
    | [c; o; d] -> { bcode = z_of_string c; bdata = bytes_of_hex d; bovf = z_of_string o }
    | _ -> failwith "block") (split ',' s)
let string_of_blocks bs =
  if bs = [] then "-" else
  String.concat "," (Stdlib.List.map (fun b ->
    string_of_z b.bcode ^ "/" ^ string_of_z b.bovf ^ "/" ^ hex_of_bytes b.bdata) bs)

let cb_of mode =
  if mode = "default" then cb_default
  else if mode = "keep" then cb_keep
  else if String.length mode > 1 && mode.[0] = 'c' then cb_const (z_of_string (String.sub mode 1 (String.length mode - 1)))
  else failwith "padding mode"

(* the callback is wrapped so that the reply can report what it was called with (info.padding, info.size) *)
let seen : (BinNums.coq_Z * BinNums.coq_Z) option ref = ref None
let opts_of mode did3 =
  seen := None;
  if mode = "none" then { o_cb = None; o_deleteid3 = bool_of_string did3 } else
  let cb = cb_of mode in
  { o_cb = Some (fun p s -> seen := Some (p, s); cb p s); o_deleteid3 = bool_of_string did3 }
let seen_string () = match !seen with None -> "- -" | Some (p, s) -> string_of_z p ^ " " ^ string_of_z s
let tags_of vendor cs = if vendor = "none" then None else Some { vendor = bytes_of_hex vendor; comments = comments_of cs }

let bytes_result = function Ok d -> "ok " ^ hex_of_bytes d | Raise e -> "raise " ^ exc_name e
let save_result r = match r with Ok d -> "ok " ^ hex_of_bytes d ^ " " ^ seen_string () | Raise e -> "raise " ^ exc_name e
let rec zlength = function [] -> 0 | _ :: r -> 1 + zlength r

let init () =
  register "flac_save" (fun [f; vendor; cs; mode; did3] ->
    let o = opts_of mode did3 in
    save_result (flac_save (bytes_of_hex f) { vendor = bytes_of_hex vendor; comments = comments_of cs } o));
  register "flac_save_obj" (fun [f; bs; vendor; cs; mode; did3] ->
    let o = opts_of mode did3 in
    save_result (flac_save_obj (bytes_of_hex f) (blocks_of bs) (tags_of vendor cs) o));
  (* flac_sess_step <file> <obj blocks | none> <reload|addtags|save|delete|moddelete> <vendor|none> <comments> <mode> *)
  register "flac_sess_step" (fun [f; ob; op; vendor; cs; mode] ->
    let s = { ss_file = bytes_of_hex f; ss_obj = (if ob = "none" then None else Some (blocks_of ob)) } in
    let o = match op with
      | "reload" -> SReload
      | "addtags" -> SAddTags (bytes_of_hex vendor)
      | "save" -> SSave (tags_of vendor cs, (opts_of mode "0").o_cb)
      | "delete" -> SDelete
      | "moddelete" -> SModDelete
      | _ -> failwith "session op" in
    let s' = sess_step s o in
    "ok " ^ hex_of_bytes s'.ss_file ^ " " ^ (match s'.ss_obj with None -> "none" | Some bs -> string_of_blocks bs));
  register "flac_delete" (fun [f] -> bytes_result (flac_delete (bytes_of_hex f)));
  register "flac_delete_obj" (fun [f; bs] -> bytes_result (flac_delete_obj (bytes_of_hex f) (blocks_of bs)));
  register "flac_load" (fun [f] ->
    match flac_load (bytes_of_hex f) with
    | Ok None -> "ok none"
    | Ok (Some t) -> "ok " ^ hex_of_bytes t.vendor ^ " " ^ string_of_comments t.comments
    | Raise e -> "raise " ^ exc_name e);
  register "flac_wf" (fun [f] -> "ok " ^ string_of_bool (flac_wf (bytes_of_hex f)));
  register "flac_parse" (fun [f] ->
    match flac_parse (bytes_of_hex f) with
    | Ok s -> Printf.sprintf "ok %x %s %x %s" (Stdlib.List.length s.fprefix) (string_of_blocks s.fblocks)
                (Stdlib.List.length s.faudio) (string_of_z (flac_padding s))
    | Raise e -> "raise " ^ exc_name e);
  register "flac_open" (fun [f] ->
    match flac_open (bytes_of_hex f) with
    | Ok bs -> "ok " ^ string_of_blocks bs
    | Raise e -> "raise " ^ exc_name e);
  register "flac_build" (fun [id3; bs; audio] ->
    let bl = Stdlib.List.map (fun b -> (b.bcode, b.bdata)) (blocks_of bs) in
    "ok " ^ hex_of_bytes (flac_build (if id3 = "none" then None else Some (bytes_of_hex id3)) bl (bytes_of_hex audio)));
  register "vc_render" (fun [vendor; cs] ->
    "ok " ^ hex_of_bytes (vc_render { vendor = bytes_of_hex vendor; comments = comments_of cs }));
  register "vc_write" (fun [vendor; cs] ->
    bytes_result (vc_write { vendor = bytes_of_hex vendor; comments = comments_of cs }));
  register "vc_parse" (fun [d] ->
    match vc_parse (bytes_of_hex d) with
    | Ok (t, rest) -> "ok " ^ hex_of_bytes t.vendor ^ " " ^ string_of_comments t.comments ^ " " ^ hex_of_bytes rest
    | Raise e -> "raise " ^ exc_name e)
