(* C04 (AAC): c04_load_aac AAC x<hex>  ->  ok [ints]  |  raise <PythonExceptionName>  |  fuel *)
open Common
open Py

let reply to_list r =
  match r with
  | Ok a -> "ok " ^ zlist_to_string (to_list a)
  | Raise EOutOfFuel -> "fuel"
  | Raise e -> "raise " ^ exc_name e

let init () =
  register "c04_load_aac" (fun [k; data] ->
    let d = bytes_of_hex data in
    match k with
    | "AAC" -> reply Parse_aac.aac_id (Parse_aac.aac_load d)
    | _ -> "error unknown-loader " ^ k)
