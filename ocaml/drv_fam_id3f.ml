(* line-protocol commands of the ID3v2-at-start + ID3v1-at-end family model (Model.Fam_id3f)
   tokens:  bytes x<hex>   integers hex   padding mode  default | keep | c<hex>
            known   x<hex>: concatenation of the 4-byte keys of mutagen.id3.Frames
            tag description for id3f_build:  none | <ver>/<flags>/x<frames>/<pad>       v1: none | x<hex>      *)
open Common
open Py
open Fam_id3f

let cb_of mode =
  if mode = "default" then id3f_cb_default
  else if mode = "keep" then id3f_cb_keep
  else if String.length mode > 1 && mode.[0] = 'c' then id3f_cb_const (z_of_string (String.sub mode 1 (String.length mode - 1)))
  else failwith "padding mode"

let rec chunks4 = function
  | a :: b :: c :: d :: r -> [a; b; c; d] :: chunks4 r
  | _ -> []

(* the callback is wrapped so that the reply can report what it was called with (info.padding, info.size) *)
let seen : (BinNums.coq_Z * BinNums.coq_Z) option ref = ref None
let opts_of v2 v1 v1b mode known =
  let cb = cb_of mode in
  seen := None;
  { o_v2 = z_of_string v2; o_v1 = z_of_string v1; o_v1bytes = bytes_of_hex v1b;
    o_cb = (fun p s -> seen := Some (p, s); cb p s); o_known = chunks4 (bytes_of_hex known) }
let seen_string () = match !seen with None -> "- -" | Some (p, s) -> string_of_z p ^ " " ^ string_of_z s

let bytes_result = function Ok d -> "ok " ^ hex_of_bytes d | Raise e -> "raise " ^ exc_name e
let save_result = function Ok d -> "ok " ^ hex_of_bytes d ^ " " ^ seen_string () | Raise e -> "raise " ^ exc_name e ^ " " ^ seen_string ()
let opt_z = function None -> "none" | Some n -> string_of_z n

let init () =
  register "id3f_save" (fun [f; fr; v2; v1; v1b; mode; known] ->
    let o = opts_of v2 v1 v1b mode known in
    save_result (id3f_save (bytes_of_hex f) (bytes_of_hex fr) o));
  register "id3f_save_v2" (fun [f; fr; v2; mode; known] ->
    let o = opts_of v2 "0" "x" mode known in
    save_result (match id3f_save_v2 (bytes_of_hex f) (bytes_of_hex fr) o with Ok (g, _) -> Ok g | Raise e -> Raise e));
  register "id3f_delete" (fun [f] -> bytes_result (id3f_delete (bytes_of_hex f)));
  register "id3f_load" (fun [f] ->
    match id3f_load (bytes_of_hex f) with
    | Ok None -> "ok none"
    | Ok (Some fr) -> "ok " ^ hex_of_bytes fr
    | Raise e -> "raise " ^ exc_name e);
  register "id3f_wf" (fun [f] -> "ok " ^ string_of_bool (id3f_wf (bytes_of_hex f)));
  (* ok <ver|none> <tag size> <frame bytes> <padding> <payload length> <v1 present> *)
  register "id3f_parse" (fun [f] ->
    match id3f_parse (bytes_of_hex f) with
    | Raise e -> "raise " ^ exc_name e
    | Ok s ->
      let v1 = (match s.i_v1 with Some _ -> "1" | None -> "0") in
      (match s.i_tag with
       | None -> Printf.sprintf "ok none 0 0 0 %x %s" (Stdlib.List.length s.i_mid) v1
       | Some t -> Printf.sprintf "ok %s %s %x %s %x %s" (string_of_z t.t_ver) (string_of_z t.t_size)
                     (Stdlib.List.length t.t_frames) (string_of_z t.t_pad) (Stdlib.List.length s.i_mid) v1));
  register "id3f_find_v1" (fun [start; f] -> "ok " ^ opt_z (find_id3v1 (z_of_string start) (bytes_of_hex f)));
  register "id3f_header" (fun [known; f] ->
    match mut_header (chunks4 (bytes_of_hex known)) (bytes_of_hex f) with
    | Ok h -> "ok " ^ opt_z h
    | Raise e -> "raise " ^ exc_name e);
  register "id3f_frames_ok" (fun [ver; fr] -> "ok " ^ string_of_bool (frames_ok (z_of_string ver) (bytes_of_hex fr)));
  register "id3f_v1_fits" (fun [mid; v] -> "ok " ^ string_of_bool (v1_fits (bytes_of_hex mid) (bytes_of_hex v)));
  register "id3f_build" (fun [t; audio; v1] ->
    let tag = if t = "none" then None else
      (match String.split_on_char '/' t with
       | [ver; fl; fr; pad] -> Some (((z_of_string ver, z_of_string fl), bytes_of_hex fr), z_of_string pad)
       | _ -> failwith "tag") in
    "ok " ^ hex_of_bytes (id3f_build tag (bytes_of_hex audio) (if v1 = "none" then None else Some (bytes_of_hex v1))))
