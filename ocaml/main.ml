let () =
  Drv_all.init ();
  try
    while true do
      let line = input_line stdin in
      let parts = Stdlib.List.filter (fun s -> s <> "") (String.split_on_char ' ' line) in
      (match parts with
       | [] -> print_string "error empty\n"
       | cmd :: args ->
         let reply =
           match Hashtbl.find_opt Common.cmds cmd with
           | None -> "error unknown-command " ^ cmd
           | Some f -> (try f args with
                        | Stack_overflow -> "error stack-overflow"
                        | Failure m -> "error failure " ^ m
                        | Match_failure _ -> "error bad-arguments"
                        | Invalid_argument m -> "error invalid " ^ m
                        | Not_found -> "error not-found") in
         print_string reply; print_char '\n');
      flush stdout
    done
  with End_of_file -> ()
