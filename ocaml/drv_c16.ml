(* C16 driver: run an operation sequence on a Model.Dict instance, print every step's output.
   dict_run <kind> <init> <op> ...      kind: vc fvc ape fape id3 fid3
   str    u<hex>.<hex>...  (code points; "u" = empty)
   vval   o<str> | m<str>,<str>...            aval  s<str> | l<item>,.. (item: <str> | n) | b<str> | x | v<kind>/<str>
   ival   f<str>/<hex> | n<hex>
   op     g:K s:K:V d:K c:K K V I L C G:K:V D:K:V p:K P:K:V i U:K=V;K=V
   init   "-" empty, "N" no tags (file kinds), else K=V;K=V (vc: V is a <str>; ape: V is an aval, set in order)
   reply  one token per op: N | B0 | B1 | V<val> | K<key>;.. | W<val>;.. | I<key>=<val>;.. | L<hex> | T<key>=<val> | E<Exc> *)
open Common
open Py
open Dict

let split c s = if s = "" then [] else String.split_on_char c s

let str_of_tok s =
  if String.length s = 0 || s.[0] <> 'u' then failwith ("str:" ^ s) else
  Stdlib.List.map z_of_string (split '.' (String.sub s 1 (String.length s - 1)))
let tok_of_str l = "u" ^ String.concat "." (Stdlib.List.map string_of_z l)
let rest s = String.sub s 1 (String.length s - 1)
let cut2 c s = match String.index_opt s c with
  | None -> failwith ("cut:" ^ s)
  | Some i -> (String.sub s 0 i, String.sub s (i + 1) (String.length s - i - 1))

let vval_of_tok s = match s.[0] with
  | 'o' -> VOne (str_of_tok (rest s))
  | 'm' -> VMany (Stdlib.List.map str_of_tok (split ',' (rest s)))
  | _ -> failwith ("vval:" ^ s)
let tok_of_vval = function
  | VOne x -> "o" ^ tok_of_str x
  | VMany l -> "m" ^ String.concat "," (Stdlib.List.map tok_of_str l)

let aval_of_tok s = match s.[0] with
  | 's' -> AStr (str_of_tok (rest s))
  | 'l' -> AList (Stdlib.List.map (fun t -> if t = "n" then None else Some (str_of_tok t)) (split ',' (rest s)))
  | 'b' -> ABytes (str_of_tok (rest s))
  | 'x' -> AOther
  | 'v' -> let (k, p) = cut2 '/' (rest s) in AValue (z_of_string k, str_of_tok p)
  | _ -> failwith ("aval:" ^ s)
let tok_of_aval = function
  | AStr x -> "s" ^ tok_of_str x
  | AList l -> "l" ^ String.concat "," (Stdlib.List.map (function None -> "n" | Some x -> tok_of_str x) l)
  | ABytes b -> "b" ^ tok_of_str b
  | AOther -> "x"
  | AValue (k, p) -> "v" ^ string_of_z k ^ "/" ^ tok_of_str p

let ival_of_tok s = match s.[0] with
  | 'f' -> let (k, p) = cut2 '/' (rest s) in IFrame (str_of_tok k, z_of_string p)
  | 'n' -> INotFrame (z_of_string (rest s))
  | _ -> failwith ("ival:" ^ s)
let tok_of_ival = function
  | IFrame (k, p) -> "f" ^ tok_of_str k ^ "/" ^ string_of_z p
  | INotFrame x -> "n" ^ string_of_z x

let op_of_tok vof s =
  match String.split_on_char ':' s with
  | ["g"; k] -> OpGet (str_of_tok k)
  | ["s"; k; v] -> OpSet (str_of_tok k, vof v)
  | ["d"; k] -> OpDel (str_of_tok k)
  | ["c"; k] -> OpContains (str_of_tok k)
  | ["K"] -> OpKeys | ["V"] -> OpValues | ["I"] -> OpItems | ["L"] -> OpLen | ["C"] -> OpClear
  | ["G"; k; v] -> OpGetD (str_of_tok k, vof v)
  | ["D"; k; v] -> OpSetDefault (str_of_tok k, vof v)
  | ["p"; k] -> OpPop (str_of_tok k)
  | ["P"; k; v] -> OpPopD (str_of_tok k, vof v)
  | ["i"] -> OpPopItem
  | ["U"; l] -> OpUpdate (Stdlib.List.map (fun kv -> let (k, v) = cut2 '=' kv in (str_of_tok k, vof v)) (split ';' l))
  | _ -> failwith ("op:" ^ s)

let tok_of_out tov = function
  | Raise e -> "E" ^ exc_name e
  | Ok ONone -> "N"
  | Ok (OBool b) -> if b then "B1" else "B0"
  | Ok (OVal v) -> "V" ^ tov v
  | Ok (OKeys l) -> "K" ^ String.concat ";" (Stdlib.List.map tok_of_str l)
  | Ok (OVals l) -> "W" ^ String.concat ";" (Stdlib.List.map tov l)
  | Ok (OItems l) -> "I" ^ String.concat ";" (Stdlib.List.map (fun (k, v) -> tok_of_str k ^ "=" ^ tov v) l)
  | Ok (OLen n) -> "L" ^ string_of_z n
  | Ok (OPair (k, v)) -> "T" ^ tok_of_str k ^ "=" ^ tov v

let pairs s = if s = "-" then [] else Stdlib.List.map (cut2 '=') (split ';' s)

let reply tov outs = String.concat " " (Stdlib.List.map (tok_of_out tov) outs)

let vc_init s = Stdlib.List.map (fun (k, v) -> (str_of_tok k, str_of_tok v)) (pairs s)
let ape_init s =
  Stdlib.List.fold_left (fun st (k, v) -> snd (ape_set st (str_of_tok k) (aval_of_tok v))) ape_empty (pairs s)
let id3_init s =
  Stdlib.List.fold_left (fun st (k, v) -> pd_set (str_of_tok k) (ival_of_tok v) st) [] (pairs s)
let opt f s = if s = "N" then None else Some (f s)

let init () =
  register "dict_run" (fun (kind :: init :: ops) ->
    match kind with
    | "vc" -> reply tok_of_vval (fst (vc_run (vc_init init) (Stdlib.List.map (op_of_tok vval_of_tok) ops)))
    | "fvc" -> reply tok_of_vval (fst (fvc_run (opt vc_init init) (Stdlib.List.map (op_of_tok vval_of_tok) ops)))
    | "ape" -> reply tok_of_aval (fst (ape_run (ape_init init) (Stdlib.List.map (op_of_tok aval_of_tok) ops)))
    | "fape" -> reply tok_of_aval (fst (fape_run (opt ape_init init) (Stdlib.List.map (op_of_tok aval_of_tok) ops)))
    | "id3" -> reply tok_of_ival (fst (id3_run (id3_init init) (Stdlib.List.map (op_of_tok ival_of_tok) ops)))
    | "fid3" -> reply tok_of_ival (fst (fid3_run (opt id3_init init) (Stdlib.List.map (op_of_tok ival_of_tok) ops)))
    | _ -> failwith "dict_run: kind")
