open Common

let init () =
  register "default_padding" (fun [p; s] ->
    string_of_z (Gen_tags.get_default_padding (z_of_string p) (z_of_string s)));
  (* get_padding <mode> p s : mode "none" = no callback, "const:<n>", "keep", "default" *)
  register "get_padding" (fun [mode; p; s] ->
    let pz = z_of_string p and sz = z_of_string s in
    let cb =
      if mode = "none" then None
      else if mode = "default" then Some Gen_tags.get_default_padding
      else if mode = "keep" then Some (fun p _ -> if BinInt.Z.ltb p BinNums.Z0 then BinNums.Z0 else p)
      else Some (fun _ _ -> z_of_string (Stdlib.String.sub mode 6 (Stdlib.String.length mode - 6))) in
    string_of_z (Gen_tags._get_padding cb pz sz))
