(* C12 driver: ID3 frame model.  Value syntax (no spaces): i<hex> int | t<hex>.<hex>... text (code points,
   "t" = empty) | x<hex> bytes | l(v;v;...) list. *)
open Common
open Py
open Id3Spec
open Id3Frame

let scan s i = let j = ref i in
  while !j < String.length s && s.[!j] <> ';' && s.[!j] <> ')' do incr j done; !j
let rec parse s i =
  match s.[i] with
  | 'i' -> let j = scan s (i + 1) in (VInt (z_of_string (String.sub s (i + 1) (j - i - 1))), j)
  | 'x' -> let j = scan s i in (VBytes (bytes_of_hex (String.sub s i (j - i))), j)
  | 't' -> let j = scan s (i + 1) in
    let body = String.sub s (i + 1) (j - i - 1) in
    (VText (if body = "" then [] else Stdlib.List.map z_of_string (String.split_on_char '.' body)), j)
  | 'l' ->
    if s.[i + 2] = ')' then (VList [], i + 3) else begin
      let items = ref [] and k = ref (i + 2) and fin = ref false in
      while not !fin do
        let (v, j) = parse s !k in
        items := v :: !items;
        if s.[j] = ')' then (fin := true; k := j + 1) else k := j + 1
      done;
      (VList (Stdlib.List.rev !items), !k) end
  | _ -> failwith "value syntax"
let value_of s = fst (parse s 0)
let rec show = function
  | VInt z -> "i" ^ string_of_z z
  | VText t -> "t" ^ String.concat "." (Stdlib.List.map string_of_z t)
  | VBytes b -> hex_of_bytes b
  | VList l -> "l(" ^ String.concat ";" (Stdlib.List.map show l) ^ ")"
let values_of s = match value_of s with VList l -> l | _ -> failwith "expected a list of values"

let rec nat_of_int n = if n <= 0 then Datatypes.O else Datatypes.S (nat_of_int (n - 1))
(* the implementation's own bound on CHAP/CTOC nesting: a frame read on its own may open nesting_limit levels of
   sub-frames (sub_of nesting_limit), the reader of a whole tag is tag_read (S nesting_limit) *)
let depth = nesting_limit
let t22 = Gen_frames.frames_2_2
let t34 = Gen_frames.all_frames
let ascii s = Stdlib.List.init (String.length s) (fun i -> z_of_int (Char.code s.[i]))
let frame id = match frame_lookup (t34 @ t22) (ascii id) with Some fr -> fr | None -> failwith ("unknown frame " ^ id)
let res f = function Ok a -> "ok " ^ f a | Raise e -> "raise " ^ exc_name e
let show_loaded (id, vs) = show (VList [VBytes id; VList vs])
let show_parsed p =
  Printf.sprintf "l(%s) l(%s) %s" (String.concat ";" (Stdlib.List.map show_loaded p.p_frames))
    (String.concat ";" (Stdlib.List.map hex_of_bytes p.p_unknown)) (hex_of_bytes p.p_rest)

let init () =
  register "c12_fw" (fun [ver; id; vs] ->
    res hex_of_bytes (frame_write_d t22 t34 (z_of_string ver) depth (frame id) (values_of vs)));
  register "c12_save" (fun [ver; id; vs] ->
    res hex_of_bytes (save_frame_d t22 t34 (z_of_string ver) depth (frame id) (values_of vs)));
  register "c12_valid" (fun [ver; id; vs] ->
    string_of_bool (frame_valid_d t22 t34 (z_of_string ver) depth (frame id) (values_of vs)));
  register "c12_fr" (fun [ver; id; data] ->
    res (fun (vs, rest) -> show (VList vs) ^ " " ^ hex_of_bytes rest)
      (frame_read_d t22 t34 (z_of_string ver) depth false (frame id) (bytes_of_hex data)));
  register "c12_fromdata" (fun [ver; gu; id; flags; data] ->
    res (fun (vs, rest) -> show (VList vs) ^ " " ^ hex_of_bytes rest)
      (from_data_d t22 t34 (z_of_string ver) depth (bool_of_string gu) (frame id) (z_of_string flags) (bytes_of_hex data)));
  register "c12_tag" (fun [ver; gu; data] ->
    res show_parsed (tag_read t22 t34 (z_of_string ver) (Datatypes.S depth) (bool_of_string gu) (bytes_of_hex data)));
  register "c12_upgrade" (fun [id; vs] ->
    res (function Some x -> show_loaded x | None -> "none") (upgrade_frame t34 (frame id) (values_of vs)));
  register "c12_peak" (fun [data] ->
    res (fun (p, rest) -> string_of_z p ^ " " ^ string_of_z (peak_wire p) ^ " " ^ hex_of_bytes rest) (vp_read (bytes_of_hex data)));
  register "c12_inflate" (fun [data] -> res hex_of_bytes (inflate_stored (bytes_of_hex data)));
  register "c12_zstore" (fun [data] -> hex_of_bytes (zlib_store (bytes_of_hex data)));
  register "c12_unsynch_dec" (fun [data] -> res hex_of_bytes (fr_unsynch_decode (bytes_of_hex data)));
  register "c12_unsynch_enc" (fun [data] -> hex_of_bytes (fr_unsynch_encode (bytes_of_hex data)));
  register "c12_bpi" (fun [data] -> string_of_bool (determine_bpi t34 (bytes_of_hex data)));
  register "c12_text_read" (fun [ver; enc; data] ->
    res (fun (t, rest) -> show (VText t) ^ " " ^ hex_of_bytes rest) (enc_text_read (z_of_string ver) (z_of_string enc) (bytes_of_hex data)));
  register "c12_notok" (fun [] ->
    String.concat "," (Stdlib.List.map (fun fr -> show (VBytes fr.fr_id))
      (Stdlib.List.filter (fun fr -> not (spec_list_ok fr)) (t34 @ t22))) ^ ".")
