(* line-protocol commands of the MP4 family model (Model.Fam_mp4)
   tokens:  bytes x<hex>     padding mode  default | keep | c<hex>
            meta items   h | i | f<hex> | o<hex>  comma separated ("-" = none)
            traks        <s|c><a|v>:<rel>/<rel>/...   comma separated ("-" = none; rel hex, may be negative)
            moofs        <tf_flags hex>:<rel>:<tail>           comma separated ("-" = none)                          *)
open Common
open Py
open Fam_mp4

let split c s = if s = "-" || s = "" then [] else String.split_on_char c s

let cb_of mode =
  if mode = "default" then mp4_cb_default
  else if mode = "keep" then mp4_cb_keep
  else if String.length mode > 1 && mode.[0] = 'c' then mp4_cb_const (z_of_string (String.sub mode 1 (String.length mode - 1)))
  else failwith "padding mode"

let seen : (BinNums.coq_Z * BinNums.coq_Z) option ref = ref None
let logged mode = let cb = cb_of mode in seen := None; (fun p s -> seen := Some (p, s); cb p s)
let seen_string () = match !seen with None -> "- -" | Some (p, s) -> string_of_z p ^ " " ^ string_of_z s

let bytes_result = function Ok d -> "ok " ^ hex_of_bytes d | Raise e -> "raise " ^ exc_name e

let name_string n = hex_of_bytes n
let rec tree_string (a : mp4_atom) =
  match a with
  | MAtom (n, o, l, h, k) ->
    Printf.sprintf "%s@%s+%s/%s%s" (name_string n) (string_of_z o) (string_of_z l) (string_of_z h)
      (match k with None -> "" | Some ks -> "(" ^ String.concat "," (Stdlib.List.map tree_string ks) ^ ")")

let mitem_of s =
  match s.[0] with
  | 'h' -> MHdlr | 'i' -> MIlst
  | 'f' -> MFree (z_of_string (String.sub s 1 (String.length s - 1)))
  | 'o' -> MOther (z_of_string (String.sub s 1 (String.length s - 1)))
  | _ -> failwith "meta item"
let trak_of s =
  match String.split_on_char ':' s with
  | [k; es] -> { tk_co64 = (k.[0] = 'c'); tk_soun = (k.[1] = 'a');
                 tk_entries = Stdlib.List.map z_of_string (split '/' es) }
  | _ -> failwith "trak"
let moof_of s =
  match String.split_on_char ':' s with
  | [fl; rel; tail] -> { mf_flags = z_of_string fl; mf_rel = z_of_string rel; mf_tail = z_of_string tail }
  | _ -> failwith "moof"

let layout_of [mf; udta; uf; ux; meta; ilst; traks; moofs; mdat; big; topfree; size0; mdat2] =
  { ly_moov_first = bool_of_string mf; ly_udta = z_of_string udta; ly_udta_first = bool_of_string uf;
    ly_udta_extra = z_of_string ux; ly_meta = Stdlib.List.map mitem_of (split ',' meta);
    ly_ilst = bytes_of_hex ilst; ly_traks = Stdlib.List.map trak_of (split ',' traks);
    ly_moofs = Stdlib.List.map moof_of (split ',' moofs); ly_mdat = bytes_of_hex mdat;
    ly_big = z_of_string big; ly_topfree = z_of_string topfree; ly_size0 = bool_of_string size0; ly_mdat2 = bytes_of_hex mdat2 }

let entry_string (((k, a), i), v) =
  string_of_z k ^ ":" ^ string_of_z a ^ ":" ^ string_of_z i ^ ":" ^ string_of_z v

let init () =
  register "mp4_build" (fun args ->
    let l = layout_of args in
    "ok " ^ hex_of_bytes (mp4_build l) ^ " " ^ string_of_z (mp4_mdat_base l));
  register "mp4_save" (fun [f; ilst; mode] ->
    let cb = logged mode in
    match mp4_save (bytes_of_hex f) (bytes_of_hex ilst) cb with
    | Ok d -> "ok " ^ hex_of_bytes d ^ " " ^ seen_string ()
    | Raise e -> "raise " ^ exc_name e ^ " " ^ seen_string ());
  register "mp4_delete" (fun [f] -> bytes_result (mp4_delete (bytes_of_hex f)));
  register "mp4_wf" (fun [f] -> "ok " ^ string_of_bool (mp4_wf (bytes_of_hex f)));
  register "mp4_walk" (fun [f] ->
    match mp4_walk_file (bytes_of_hex f) with
    | Ok n -> "ok " ^ string_of_z n | Raise e -> "raise " ^ exc_name e);
  register "mp4_offsets" (fun [f] ->
    match mp4_offsets (bytes_of_hex f) with
    | Ok es -> "ok " ^ (if es = [] then "-" else String.concat "," (Stdlib.List.map entry_string es))
    | Raise e -> "raise " ^ exc_name e);
  register "mp4_tree" (fun [f] ->
    match mp4_atoms (bytes_of_hex f) with
    | Ok ks -> "ok " ^ (if ks = [] then "-" else String.concat "," (Stdlib.List.map tree_string ks))
    | Raise e -> "raise " ^ exc_name e);
  register "mp4_padding" (fun [f] ->
    match mp4_padding (bytes_of_hex f) with
    | Ok None -> "ok -" | Ok (Some n) -> "ok " ^ string_of_z n | Raise e -> "raise " ^ exc_name e);
  register "mp4_info" (fun [f; ilst] ->
    match mp4_padding_info (bytes_of_hex f) (bytes_of_hex ilst) with
    | Ok (p, s) -> "ok " ^ string_of_z p ^ " " ^ string_of_z s | Raise e -> "raise " ^ exc_name e);
  register "mp4_render" (fun [n; d] -> "ok " ^ hex_of_bytes (mp4_render (bytes_of_hex n) (bytes_of_hex d)))
