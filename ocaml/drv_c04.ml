(* C04: c04_load <K> x<hex>  ->  ok [ints]  |  raise <PythonExceptionName>  |  fuel *)
open Common
open Py

let reply to_list r =
  match r with
  | Ok a -> "ok " ^ zlist_to_string (to_list a)
  | Raise EOutOfFuel -> "fuel"
  | Raise e -> "raise " ^ exc_name e

let init () =
  register "c04_load" (fun [k; data] ->
    let d = bytes_of_hex data in
    match k with
    | "Musepack" -> reply Parse_musepack.mpc_info_list (Parse_musepack.musepack_load d)
    | "WavPack" -> reply Parse_wavpack.wv_info_list (Parse_wavpack.wavpack_load d)
    | "SMF" -> reply Parse_smf.smf_info_list (Parse_smf.smf_load d)
    | "VComment" -> reply Parse_vcomment.vc_info_list (Parse_vcomment.vcomment_load d)
    | "OggVorbisInfo" -> reply Parse_ogg.ogv_info_list (Parse_ogg.oggvorbis_info_load d)
    | "OggVorbis" -> reply Parse_ogg.ogv_info_list (Parse_ogg.oggvorbis_load d)
    | "APEv2Data" -> reply Parse_apev2.ape_data_list (Parse_apev2.apev2data_load d)
    | _ -> "error unknown-loader " ^ k)
