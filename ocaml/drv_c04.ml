(* C04: c04_load <K> x<hex>  ->  ok [ints]  |  raise <PythonExceptionName>  |  fuel *)
open Common
open Py

let reply to_list r =
  match r with
  | Ok a -> "ok " ^ zlist_to_string (to_list a)
  | Raise EOutOfFuel -> "fuel"
  | Raise e -> "raise " ^ exc_name e

let init () =
  register "c04_load" (fun [k; data] ->
    let d = bytes_of_hex data in
    match k with
    | "Musepack" -> reply Parse_musepack.mpc_info_list (Parse_musepack.musepack_load d)
    | _ -> "error unknown-loader " ^ k)
