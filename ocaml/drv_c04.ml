(* C04: c04_load <K> x<hex>  ->  ok [ints]  |  raise <PythonExceptionName>  |  fuel *)
open Common
open Py

let reply to_list r =
  match r with
  | Ok a -> "ok " ^ zlist_to_string (to_list a)
  | Raise EOutOfFuel -> "fuel"
  | Raise e -> "raise " ^ exc_name e

let init () =
  register "c04_load" (fun [k; data] ->
    let d = bytes_of_hex data in
    match k with
    | "Musepack" -> reply Parse_musepack.mpc_info_list (Parse_musepack.musepack_load d)
    | "WavPack" -> reply Parse_wavpack.wv_info_list (Parse_wavpack.wavpack_load d)
    | "SMF" -> reply Parse_smf.smf_info_list (Parse_smf.smf_load d)
    | "VComment" -> reply Parse_vcomment.vc_info_list (Parse_vcomment.vcomment_load d)
    | "OggVorbisInfo" -> reply Parse_ogg.ogv_info_list (Parse_ogg.oggvorbis_info_load d)
    | "OggVorbis" -> reply Parse_ogg.ogv_info_list (Parse_ogg.oggvorbis_load d)
    | "OggOpusInfo" -> reply Parse_ogg.ogg_id (Parse_ogg.oggopus_info_load d)
    | "OggSpeexInfo" -> reply Parse_ogg.ogg_id (Parse_ogg.oggspeex_info_load d)
    | "OggTheoraInfo" -> reply Parse_ogg.ogg_id (Parse_ogg.oggtheora_info_load d)
    | "OggOpus" -> reply Parse_ogg.ogg_id (Parse_ogg.oggopus_load d)
    | "OggSpeex" -> reply Parse_ogg.ogg_id (Parse_ogg.oggspeex_load d)
    | "OggTheora" -> reply Parse_ogg.ogg_id (Parse_ogg.oggtheora_load d)
    | "APEv2Data" -> reply Parse_apev2.ape_data_list (Parse_apev2.apev2data_load d)
    | "MP4Atoms" -> reply Parse_mp4.mp4_flat_list (Parse_mp4.mp4_atoms_raw d)
    | "MP4" -> reply Parse_mp4.mp4_flat_list (Parse_mp4.mp4_atoms_load d)
    | "TrueAudio" -> reply Parse_headers.hdr_id (Parse_headers.trueaudio_load d)
    | "MonkeysAudio" -> reply Parse_headers.hdr_id (Parse_headers.monkeysaudio_load d)
    | "OptimFROG" -> reply Parse_headers.hdr_id (Parse_headers.optimfrog_load d)
    | "ID3determine_bpi" -> reply Parse_id3.id3_bpi_list (Parse_id3.id3_determine_bpi d)
    | "ID3Header" -> reply Parse_id3.id3h_id (Parse_id3.id3header_load d)
    | _ -> "error unknown-loader " ^ k)
