open Common
open Py
open FileModel

let outcome (r, st) =
  let res = match r with Ok _ -> "ok" | Raise e -> "raise " ^ exc_name e in
  Printf.sprintf "%s pos=%s data=%s" res (string_of_z st.fpos) (hex_of_bytes st.fdata)

let init () =
  (* util <fn> real cap partial fault short BUF pos <data> args... *)
  register "util" (fun (fn :: real :: cap :: partial :: fault :: short :: buf :: pos :: data :: args) ->
    let c = cfg_of real cap partial fault short in
    let st = { fdata = bytes_of_hex data; fpos = z_of_string pos; fcfg_of = c } in
    let b = z_of_string buf in
    let a = Stdlib.List.map z_of_string args in
    let r = match fn, a with
      | "resize_file", [d] -> Gen_util.resize_file b d st
      | "move_bytes", [d; s; c] -> Gen_util.move_bytes b d s c st
      | "insert_bytes", [s; o] -> Gen_util.insert_bytes b s o st
      | "delete_bytes", [s; o] -> Gen_util.delete_bytes b s o st
      | "resize_bytes", [o; n; off] -> Gen_util.resize_bytes b o n off st
      | _ -> failwith "util: bad function" in
    outcome r)
