(* Hand-written driver support (trusted): conversions between the line protocol and extracted values. *)
open BinNums
open Py

let rec pos_of_int n = if n = 1 then Coq_xH else if n land 1 = 0 then Coq_xO (pos_of_int (n lsr 1)) else Coq_xI (pos_of_int (n lsr 1))
let z_of_int n = if n = 0 then Z0 else if n > 0 then Zpos (pos_of_int n) else Zneg (pos_of_int (-n))
let rec int_of_pos = function Coq_xH -> 1 | Coq_xO p -> 2 * int_of_pos p | Coq_xI p -> 2 * int_of_pos p + 1
let int_of_z = function Z0 -> 0 | Zpos p -> int_of_pos p | Zneg p -> - (int_of_pos p)

(* integers travel as (optionally negative) hexadecimal without prefix, any size *)
let rec bits_of_pos = function Coq_xH -> [1] | Coq_xO p -> 0 :: bits_of_pos p | Coq_xI p -> 1 :: bits_of_pos p
let hex_of_pos p =
  let bits = Array.of_list (bits_of_pos p) in
  let n = Array.length bits in
  let nd = (n + 3) / 4 in
  let b = Bytes.make nd '0' in
  for d = 0 to nd - 1 do
    let v = ref 0 in
    for k = 3 downto 0 do
      let i = d * 4 + k in
      v := !v * 2 + (if i < n then bits.(i) else 0)
    done;
    Bytes.set b (nd - 1 - d) "0123456789abcdef".[!v]
  done;
  Bytes.to_string b
let string_of_z = function Z0 -> "0" | Zpos p -> hex_of_pos p | Zneg p -> "-" ^ hex_of_pos p
let hexval c = match c with '0'..'9' -> Char.code c - 48 | 'a'..'f' -> Char.code c - 87 | 'A'..'F' -> Char.code c - 55 | _ -> failwith "hex"
let pos_of_hex s =
  (* s: hex digits, most significant first, value > 0 *)
  let bits = ref [] in   (* LSB first *)
  String.iter (fun c -> let v = hexval c in bits := !bits @ []; ignore v) "";
  let n = String.length s in
  let lst = ref [] in    (* will hold bits MSB first *)
  for i = 0 to n - 1 do
    let v = hexval s.[i] in
    lst := (v land 1) :: ((v lsr 1) land 1) :: ((v lsr 2) land 1) :: ((v lsr 3) land 1) :: !lst
  done;
  (* !lst is LSB first now (we consed most significant digits first, so the last digit's bits are at the head) *)
  let rec strip_top l = l in
  ignore strip_top;
  (* build positive from LSB-first bit list, dropping leading zeros at the top *)
  let arr = Array.of_list !lst in
  let top = ref (Array.length arr - 1) in
  while !top >= 0 && arr.(!top) = 0 do decr top done;
  if !top < 0 then failwith "zero" else begin
    let p = ref Coq_xH in
    for i = !top - 1 downto 0 do
      p := if arr.(i) = 1 then Coq_xI !p else Coq_xO !p
    done; !p end
let z_of_string s =
  let neg = String.length s > 0 && s.[0] = '-' in
  let body = if neg then String.sub s 1 (String.length s - 1) else s in
  let allzero = ref true in String.iter (fun c -> if c <> '0' then allzero := false) body;
  if !allzero then Z0 else if neg then Zneg (pos_of_hex body) else Zpos (pos_of_hex body)

let byte_tab = Array.init 256 z_of_int
(* bytes travel as "x" followed by hex pairs ("x" alone = empty) *)
let bytes_of_hex s =
  let n = (String.length s - 1) / 2 in
  let rec go i acc = if i < 0 then acc else go (i - 1) (byte_tab.(hexval s.[1 + 2 * i] * 16 + hexval s.[2 + 2 * i]) :: acc) in
  go (n - 1) []
let hex_of_bytes l =
  let b = Buffer.create 64 in
  Buffer.add_char b 'x';
  Stdlib.List.iter (fun z -> let v = int_of_z z in
    if v < 0 || v > 255 then Buffer.add_string b (Printf.sprintf "[%d]" v)
    else Buffer.add_string b (Printf.sprintf "%02x" v)) l;
  Buffer.contents b

let exc_name = function
  | EValue -> "ValueError" | EKey -> "KeyError" | EType -> "TypeError" | EIndex -> "IndexError"
  | EStruct -> "struct.error" | EUnicode -> "UnicodeError" | EOverflow -> "OverflowError"
  | EZeroDiv -> "ZeroDivisionError" | EAttr -> "AttributeError"
  | EIO e -> "OSError:" ^ string_of_int (int_of_z e) | EEOF -> "EOFError" | EAssert -> "AssertionError"
  | ENotImpl -> "NotImplementedError" | EMutagen -> "MutagenError" | EOutOfFuel -> "FUEL"

let bool_of_string s = (s = "1" || s = "true")
let string_of_bool b = if b then "1" else "0"
let zlist_to_string l = "[" ^ String.concat "," (Stdlib.List.map string_of_z l) ^ "]"

let cmds : (string, string list -> string) Hashtbl.t = Hashtbl.create 64
let register name f = Hashtbl.replace cmds name f

(* a file configuration: real cap partial fault short ; cap/fault/short use "-" for None *)
let opt_z s = if s = "-" then None else Some (z_of_string s)
let cfg_of real cap partial fault short =
  FileModel.({ c_real = bool_of_string real; c_cap = opt_z cap; c_partial = z_of_string partial;
               c_fault = opt_z fault; c_short = opt_z short })
