(* C04 (FLAC): c04_load_flac FLAC x<hex>  ->  ok [ints]  |  raise <PythonExceptionName>  |  fuel *)
open Common
open Py

let reply to_list r =
  match r with
  | Ok a -> "ok " ^ zlist_to_string (to_list a)
  | Raise EOutOfFuel -> "fuel"
  | Raise e -> "raise " ^ exc_name e

let init () =
  register "c04_load_flac" (fun [k; data] ->
    let d = bytes_of_hex data in
    match k with
    | "FLAC" -> reply Parse_flac.flac_id (Parse_flac.flac_load d)
    | _ -> "error unknown-loader " ^ k)
