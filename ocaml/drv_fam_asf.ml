(* line-protocol commands of the ASF family model (Model.Fam_asf)
   tokens:  bytes  x<hex>          text (names, UNICODE values)  x<hex of the UTF-16-LE bytes>
            attribute  name/lang/stream/type/value   lang, stream: "-" (None) or hex; type 0..6;
                       value: x<hex> (types 0 1 6), 0|1 (type 2), hex integer (types 3 4 5)
            attribute list  a,a,...  ("-" = empty)
            loaded tag  cls/name/lang/stream/type/value   (cls 0 CD 1 ECD 2 Metadata 3 MetadataLibrary)
            tree  obj,obj,...  ("-" = empty);  obj = L/xGUID/xPAYLOAD | E/xFIXED/child;child;...  child = xGUID:xPAYLOAD ("-" none)
            padding mode  default | keep | c<hex>                                                     *)
open Common
open Py
open Fam_asf

let split c s = if s = "-" || s = "" then [] else String.split_on_char c s
let units_of_hex s = match units_of_bytes (bytes_of_hex s) with Some u -> u | None -> failwith "odd text"
let hex_of_units u = hex_of_bytes (bytes_of_units u)
let optz s = if s = "-" then None else Some (z_of_string s)
let string_of_optz = function None -> "-" | Some z -> string_of_z z

let val_of ty v = match ty with
  | "0" -> VText (units_of_hex v) | "1" -> VBytes (bytes_of_hex v) | "2" -> VBool (v = "1")
  | "3" -> VDword (z_of_string v) | "4" -> VQword (z_of_string v) | "5" -> VWord (z_of_string v)
  | "6" -> VGuid (bytes_of_hex v) | _ -> failwith "value type"
let string_of_val = function
  | VText u -> "0/" ^ hex_of_units u | VBytes b -> "1/" ^ hex_of_bytes b | VBool b -> "2/" ^ (if b then "1" else "0")
  | VDword n -> "3/" ^ string_of_z n | VQword n -> "4/" ^ string_of_z n | VWord n -> "5/" ^ string_of_z n
  | VGuid b -> "6/" ^ hex_of_bytes b

let attr_of s = match String.split_on_char '/' s with
  | [n; l; st; ty; v] -> { a_name = units_of_hex n; a_val = val_of ty v; a_lang = optz l; a_stream = optz st }
  | _ -> failwith "attribute"
let attrs_of s = Stdlib.List.map attr_of (split ',' s)
let string_of_attr a =
  hex_of_units a.a_name ^ "/" ^ string_of_optz a.a_lang ^ "/" ^ string_of_optz a.a_stream ^ "/" ^ string_of_val a.a_val
let string_of_attrs l = if l = [] then "-" else String.concat "," (Stdlib.List.map string_of_attr l)
let string_of_ltag t =
  string_of_z t.t_cls ^ "/" ^ hex_of_units t.t_name ^ "/" ^ string_of_z t.t_lang ^ "/" ^ string_of_z t.t_stream ^ "/" ^ string_of_val t.t_val
let string_of_ltags l = if l = [] then "-" else String.concat "," (Stdlib.List.map string_of_ltag l)

let raw_of s = match String.split_on_char ':' s with
  | [g; d] -> (bytes_of_hex g, bytes_of_hex d) | _ -> failwith "child"
let string_of_raw (g, d) = hex_of_bytes g ^ ":" ^ hex_of_bytes d
let obj_of s = match String.split_on_char '/' s with
  | ["L"; g; d] -> OLeaf (bytes_of_hex g, bytes_of_hex d)
  | ["E"; fx; ch] -> OExt (bytes_of_hex fx, Stdlib.List.map raw_of (split ';' ch))
  | _ -> failwith "object"
let string_of_obj = function
  | OLeaf (g, d) -> "L/" ^ hex_of_bytes g ^ "/" ^ hex_of_bytes d
  | OExt (fx, ch) -> "E/" ^ hex_of_bytes fx ^ "/" ^ (if ch = [] then "-" else String.concat ";" (Stdlib.List.map string_of_raw ch))
let tree_of s = Stdlib.List.map obj_of (split ',' s)
let string_of_tree l = if l = [] then "-" else String.concat "," (Stdlib.List.map string_of_obj l)

let cb_of mode =
  if mode = "default" then cb_default
  else if mode = "keep" then cb_keep
  else if String.length mode > 1 && mode.[0] = 'c' then cb_const (z_of_string (String.sub mode 1 (String.length mode - 1)))
  else failwith "padding mode"
(* the callback is wrapped so that the reply can report what it was called with (info.padding, info.size) *)
let seen : (BinNums.coq_Z * BinNums.coq_Z) option ref = ref None
let wrap mode = let cb = cb_of mode in seen := None; (fun p s -> seen := Some (p, s); cb p s)
let seen_string () = match !seen with None -> "- -" | Some (p, s) -> string_of_z p ^ " " ^ string_of_z s
let bytes_result = function Ok d -> "ok " ^ hex_of_bytes d | Raise e -> "raise " ^ exc_name e
let rec ilen = function [] -> 0 | _ :: r -> 1 + ilen r

let init () =
  register "asf_save" (fun [f; tags; mode] ->
    let cb = wrap mode in
    match asf_save (bytes_of_hex f) (attrs_of tags) cb with
    | Ok d -> "ok " ^ hex_of_bytes d ^ " " ^ seen_string ()
    | Raise e -> "raise " ^ exc_name e);
  register "asf_delete" (fun [f] -> bytes_result (asf_delete (bytes_of_hex f)));
  register "asf_info" (fun [f; tags] ->
    match asf_info (bytes_of_hex f) (attrs_of tags) with
    | Ok (p, s) -> "ok " ^ string_of_z p ^ " " ^ string_of_z s
    | Raise e -> "raise " ^ exc_name e);
  register "asf_load" (fun [f] ->
    match asf_load (bytes_of_hex f) with
    | Ok l -> "ok " ^ string_of_ltags l
    | Raise e -> "raise " ^ exc_name e);
  register "asf_wf" (fun [f] -> "ok " ^ string_of_bool (asf_wf (bytes_of_hex f)));
  register "asf_canon" (fun [f] -> "ok " ^ string_of_bool (asf_canon (bytes_of_hex f)));
  register "asf_parse" (fun [f] ->
    match asf_parse (bytes_of_hex f) with
    | Ok s -> Printf.sprintf "ok %s %x %s" (string_of_tree s.sobjs) (ilen s.sdata) (string_of_z (asf_padding s))
    | Raise e -> "raise " ^ exc_name e);
  register "asf_open" (fun [f] ->
    match asf_open (bytes_of_hex f) with
    | Ok (objs, tags) -> "ok " ^ string_of_tree objs ^ " " ^ string_of_attrs tags
    | Raise e -> "raise " ^ exc_name e);
  register "asf_build" (fun [tree; data] -> "ok " ^ hex_of_bytes (asf_build (tree_of tree) (bytes_of_hex data)));
  register "asf_place" (fun [tags] ->
    let p = place (attrs_of tags) in
    "ok " ^ string_of_attrs (cd_sorted p) ^ " " ^ string_of_attrs p.p_ecd ^ " " ^ string_of_attrs p.p_m ^ " " ^ string_of_attrs p.p_ml);
  register "asf_reload_attrs" (fun [tags] -> "ok " ^ string_of_attrs (reload_attrs (place (attrs_of tags))))
