(* line-protocol commands of the DSF family model (Model.Fam_dsf)
   tokens:  bytes x<hex>    padding mode  default | keep | c<hex>    tag  x<hex> | none *)
open Common
open Py
open Fam_dsf

let cb_of mode =
  if mode = "default" then Fam_carrier.cb_default
  else if mode = "keep" then Fam_carrier.cb_keep
  else if String.length mode > 1 && mode.[0] = 'c' then Fam_carrier.cb_const (z_of_string (String.sub mode 1 (String.length mode - 1)))
  else failwith "padding mode"
let seen : (BinNums.coq_Z * BinNums.coq_Z) option ref = ref None
let wrap cb = seen := None; (fun p s -> seen := Some (p, s); cb p s)
let seen_string () = match !seen with None -> "- -" | Some (p, s) -> string_of_z p ^ " " ^ string_of_z s
let bytes_result = function Ok d -> "ok " ^ hex_of_bytes d | Raise e -> "raise " ^ exc_name e

let init () =
  register "dsf_save" (fun [f; tag] -> bytes_result (dsf_save (bytes_of_hex f) (bytes_of_hex tag)));
  register "dsf_save_cb" (fun [f; fd; ver; mode] ->
    let cb = wrap (cb_of mode) in
    match dsf_save_cb (bytes_of_hex f) (bytes_of_hex fd) (z_of_string ver) cb with
    | Ok d -> "ok " ^ hex_of_bytes d ^ " " ^ seen_string ()
    | Raise e -> "raise " ^ exc_name e ^ " " ^ seen_string ());
  register "dsf_delete" (fun [f] -> bytes_result (dsf_delete (bytes_of_hex f)));
  register "dsf_load" (fun [f] ->
    match dsf_load (bytes_of_hex f) with
    | Ok None -> "ok none" | Ok (Some t) -> "ok " ^ hex_of_bytes t | Raise e -> "raise " ^ exc_name e);
  register "dsf_wf" (fun [f] -> "ok " ^ string_of_bool (dsf_wf (bytes_of_hex f)));
  register "dsf_parse" (fun [f] ->
    match dsf_parse (bytes_of_hex f) with
    | Ok s -> "ok " ^ hex_of_bytes s.d_audio ^ " " ^ (match s.d_tag with None -> "none" | Some t -> hex_of_bytes t)
    | Raise e -> "raise " ^ exc_name e);
  register "dsf_target" (fun [f] ->
    match dsf_target (bytes_of_hex f) with
    | Ok (p, a) -> "ok " ^ string_of_z p ^ " " ^ string_of_z a | Raise e -> "raise " ^ exc_name e);
  register "dsf_build" (fun [fmt; samples; tag] ->
    "ok " ^ hex_of_bytes (dsf_build (bytes_of_hex fmt) (bytes_of_hex samples) (if tag = "none" then None else Some (bytes_of_hex tag))))
