(* line-protocol commands of the Ogg family model (Model.Fam_ogg)
   tokens:  bytes  x<hex>      codec  vorbis | opus | speex | theora | flac
            comments  x<key>=x<val>,...  ("-" = none)      padding mode  none | default | keep | c<hex> *)
open Common
open Py
open Fam_flac
open Fam_ogg

let split c s = if s = "-" || s = "" then [] else String.split_on_char c s

let comments_of s =
  Stdlib.List.map (fun kv -> match String.split_on_char '=' kv with
    | [k; v] -> (bytes_of_hex k, bytes_of_hex v) | _ -> failwith "comment") (split ',' s)
let string_of_comments cs =
  if cs = [] then "-" else
  String.concat "," (Stdlib.List.map (fun (k, v) -> hex_of_bytes k ^ "=" ^ hex_of_bytes v) cs)

let codec_of = function
  | "vorbis" -> OVorbis | "opus" -> OOpus | "speex" -> OSpeex | "theora" -> OTheora | "flac" -> OFlac
  | _ -> failwith "codec"

let cb_of mode =
  if mode = "default" then cb_default
  else if mode = "keep" then cb_keep
  else if String.length mode > 1 && mode.[0] = 'c' then cb_const (z_of_string (String.sub mode 1 (String.length mode - 1)))
  else failwith "padding mode"

(* the callback is wrapped so that the reply can report what it was called with (info.padding, info.size) *)
let seen : (BinNums.coq_Z * BinNums.coq_Z) option ref = ref None
let cbopt_of mode =
  seen := None;
  if mode = "none" then None else
  let cb = cb_of mode in
  Some (fun p s -> seen := Some (p, s); cb p s)
let seen_string () = match !seen with None -> "- -" | Some (p, s) -> string_of_z p ^ " " ^ string_of_z s

let bytes_result = function Ok d -> "ok " ^ hex_of_bytes d | Raise e -> "raise " ^ exc_name e
let save_result r = match r with Ok d -> "ok " ^ hex_of_bytes d ^ " " ^ seen_string () | Raise e -> "raise " ^ exc_name e

let load_string = function
  | Ok (t, pad) -> "ok " ^ hex_of_bytes t.vendor ^ " " ^ string_of_comments t.comments ^ " " ^ string_of_z pad
  | Raise e -> "raise " ^ exc_name e

let page_summary (p : Ogg.page) =
  String.concat ":" [string_of_z p.Ogg.p_serial; string_of_z p.Ogg.p_sequence; string_of_z p.Ogg.p_flags;
                     string_of_z p.Ogg.p_position; string_of_bool p.Ogg.p_complete;
                     String.concat "/" (Stdlib.List.map (fun d -> string_of_int (Stdlib.List.length d)) p.Ogg.p_packets)]

let init () =
  register "ogg_save" (fun [f; c; vendor; cs; mode] ->
    let cb = cbopt_of mode in
    save_result (ogg_save (bytes_of_hex f) (codec_of c) { vendor = bytes_of_hex vendor; comments = comments_of cs } cb));
  register "ogg_save_obj" (fun [f; c; vendor; cs; pad; mode] ->
    let cb = cbopt_of mode in
    save_result (ogg_save_obj (bytes_of_hex f) (codec_of c) { vendor = bytes_of_hex vendor; comments = comments_of cs }
                   (bytes_of_hex pad) cb));
  register "ogg_delete" (fun [f; c] -> bytes_result (ogg_delete (bytes_of_hex f) (codec_of c)));
  register "ogg_delete_obj" (fun [f; c; vendor; pad] ->
    bytes_result (ogg_delete_obj (bytes_of_hex f) (codec_of c) (bytes_of_hex vendor) (bytes_of_hex pad)));
  register "ogg_open" (fun [f; c] ->
    match ogg_open (bytes_of_hex f) (codec_of c) with
    | Ok (v, pad) -> "ok " ^ hex_of_bytes v ^ " " ^ hex_of_bytes pad
    | Raise e -> "raise " ^ exc_name e);
  register "ogg_set_packet" (fun [f; c; d] -> bytes_result (ogg_set_packet (bytes_of_hex f) (codec_of c) (bytes_of_hex d)));
  register "ogg_wf" (fun [f] -> "ok " ^ string_of_bool (ogg_wf (bytes_of_hex f)));
  register "ogg_load" (fun [f; c] -> load_string (ogg_load (bytes_of_hex f) (codec_of c)));
  register "ogg_parse" (fun [f] ->
    match ogg_parse (bytes_of_hex f) with
    | Ok l -> "ok " ^ string_of_int (Stdlib.List.length l) ^ " " ^ String.concat "," (Stdlib.List.map page_summary l)
    | Raise e -> "raise " ^ exc_name e);
  (* ogg_wf and ogg_load of one file with a single ogg_parse: "ok <wf 0|1> | <reply of ogg_load>" *)
  register "ogg_check" (fun [f; c] ->
    match ogg_parse (bytes_of_hex f) with
    | Ok pages -> "ok " ^ string_of_bool (ogg_f_streams_ok pages) ^ " | " ^ load_string (ogg_f_load_pages (codec_of c) pages)
    | Raise e -> "ok 0 | raise " ^ exc_name e);
  (* packets of the tagged stream: count, and hex of all but the second *)
  register "ogg_stream_packets" (fun [f; c] ->
    match ogg_parse (bytes_of_hex f) with
    | Ok pages ->
      (match ogg_f_tagged (codec_of c) pages with
       | Some s -> "ok " ^ string_of_z s ^ " " ^
                   String.concat "," (Stdlib.List.map hex_of_bytes (ogg_f_stream_packets s pages))
       | None -> "ok none")
    | Raise e -> "raise " ^ exc_name e)
