(* C15 driver: Model.Ogg / Model.Crc over the line protocol.
   page text:   <version>:<flags>:<position>:<serial>:<sequence>:<complete 0|1>:<pkt>/<pkt>/...
                (integers protocol-hex, packets x<hex>; a page without packets ends in ':')
   lists:       [a,b,...]   ([] = empty) *)
open Common
open Py
open Ogg

let split_list s =
  let n = String.length s in
  if n < 2 || s.[0] <> '[' || s.[n - 1] <> ']' then failwith "list"
  else if n = 2 then [] else String.split_on_char ',' (String.sub s 1 (n - 2))

let page_of_string s =
  match String.split_on_char ':' s with
  | [v; fl; pos; ser; sq; c; pk] ->
    { p_version = z_of_string v; p_flags = z_of_string fl; p_position = z_of_string pos;
      p_serial = z_of_string ser; p_sequence = z_of_string sq; p_complete = bool_of_string c;
      p_packets = if pk = "" then [] else Stdlib.List.map bytes_of_hex (String.split_on_char '/' pk) }
  | _ -> failwith "page"

let string_of_page p =
  String.concat ":" [string_of_z p.p_version; string_of_z p.p_flags; string_of_z p.p_position;
                     string_of_z p.p_serial; string_of_z p.p_sequence; string_of_bool p.p_complete;
                     String.concat "/" (Stdlib.List.map hex_of_bytes p.p_packets)]

let string_of_pages l = "[" ^ String.concat "," (Stdlib.List.map string_of_page l) ^ "]"
let pages_of_string s = Stdlib.List.map page_of_string (split_list s)
let packets_of_string s = Stdlib.List.map bytes_of_hex (split_list s)
let string_of_packets l = "[" ^ String.concat "," (Stdlib.List.map hex_of_bytes l) ^ "]"

let res f = function Ok a -> "ok " ^ f a | Raise e -> "raise " ^ exc_name e

(* the pages of the most recent ogg_from_packets / ogg_try_preserve, for follow-up commands *)
let last_pages : page list ref = ref []

let write_all l =
  "[" ^ String.concat "," (Stdlib.List.map (fun p ->
    (match page_write p with Ok bs -> hex_of_bytes bs | Raise e -> "!" ^ exc_name e)
    ^ ";" ^ string_of_z (page_size p) ^ ";" ^ string_of_z (lacing_count p)) l) ^ "]"

let old_of_string s =
  (* <offset>@<page> *)
  match String.index_opt s '@' with
  | Some i -> (z_of_string (String.sub s 0 i), page_of_string (String.sub s (i + 1) (String.length s - i - 1)))
  | None -> failwith "old page"

let init () =
  register "ogg_crc" (fun [d] -> "ok " ^ string_of_z (Crc.ogg_crc (bytes_of_hex d)));
  register "ogg_from_packets" (fun [sq; ds; wr; pk] ->
    match from_packets (z_of_string ds) (z_of_string wr) (packets_of_string pk) (z_of_string sq) with
    | Ok l -> last_pages := l; "ok " ^ string_of_pages l
    | Raise e -> last_pages := []; "raise " ^ exc_name e);
  (* same, but answers only with the page count (big inputs) *)
  register "ogg_from_packets_q" (fun [sq; ds; wr; pk] ->
    match from_packets (z_of_string ds) (z_of_string wr) (packets_of_string pk) (z_of_string sq) with
    | Ok l -> last_pages := l; "ok " ^ string_of_int (Stdlib.List.length l)
    | Raise e -> last_pages := []; "raise " ^ exc_name e);
  register "ogg_last_summary" (fun [] ->
    (* per page: flags;position;serial;sequence;complete;packet lengths *)
    "ok [" ^ String.concat "," (Stdlib.List.map (fun p ->
      String.concat ";" [string_of_z p.p_flags; string_of_z p.p_position; string_of_z p.p_serial;
                         string_of_z p.p_sequence; string_of_bool p.p_complete;
                         String.concat "/" (Stdlib.List.map (fun d -> string_of_int (Stdlib.List.length d)) p.p_packets)])
      !last_pages) ^ "]");
  register "ogg_last_write" (fun [] -> "ok " ^ write_all !last_pages);
  register "ogg_last_to_packets" (fun [strict] -> res string_of_packets (to_packets (bool_of_string strict) !last_pages));
  register "ogg_to_packets" (fun [strict; pg] -> res string_of_packets (to_packets (bool_of_string strict) (pages_of_string pg)));
  register "ogg_page_write" (fun [pg] ->
    let p = page_of_string pg in
    res hex_of_bytes (page_write p) ^ " size=" ^ string_of_z (page_size p) ^ " lacing=" ^ string_of_z (lacing_count p));
  register "ogg_page_parse" (fun [d] ->
    res (fun (p, rest) -> string_of_page p ^ " rest=" ^ string_of_int (Stdlib.List.length rest)) (page_parse (bytes_of_hex d)));
  register "ogg_try_preserve" (fun [pk; pg] ->
    match from_packets_try_preserve (packets_of_string pk) (pages_of_string pg) with
    | Ok l -> last_pages := l; "ok " ^ string_of_pages l
    | Raise e -> last_pages := []; "raise " ^ exc_name e);
  register "ogg_renumber" (fun [f; pos; serial; start] ->
    let (r, f') = renumber (bytes_of_hex f) (z_of_string pos) (z_of_string serial) (z_of_string start) in
    res (fun _ -> "-") r ^ " " ^ hex_of_bytes f');
  register "ogg_replace" (fun [f; olds; news] ->
    let (r, f') = replace (bytes_of_hex f) (Stdlib.List.map old_of_string (split_list olds)) (pages_of_string news) in
    res (fun _ -> "-") r ^ " " ^ hex_of_bytes f');
  register "ogg_find_last" (fun [f; serial; fin] ->
    res (function None -> "none" | Some p -> string_of_page p)
      (find_last (bytes_of_hex f) (z_of_string serial) (bool_of_string fin)))
