(* C04 (OggFLAC): c04_load_oggflac OggFLAC x<hex>  ->  ok [ints]  |  raise <PythonExceptionName>  |  fuel *)
open Common
open Py

let reply to_list r =
  match r with
  | Ok a -> "ok " ^ zlist_to_string (to_list a)
  | Raise EOutOfFuel -> "fuel"
  | Raise e -> "raise " ^ exc_name e

let init () =
  register "c04_load_oggflac" (fun [k; data] ->
    let d = bytes_of_hex data in
    match k with
    | "OggFLAC" -> reply Parse_oggflac.oggflac_id (Parse_oggflac.oggflac_load d)
    | _ -> "error unknown-loader " ^ k)
