(* C18 driver: the regenerated score functions and File's selection.
   score <Class> <fname> x<header> [x<trailer> | -]     -> ok <z> | error unknown-class
   choose <z> <Name> <z> <Name> ...                       -> ok <Name> | none
   detect | detect_easy <fname> x<header> (x<trailer>|-)  -> ok <Name> | none
   detect_with <Name,Name,...> <fname> x<header> (x<trailer>|-)
   nfm <Class> x<header>                                  -> 0 | 1       (no_foreign_marker)
   c18info                                                -> trailer=<z> header=<z> options=A,B easy=A,B
   <fname> is x<hex bytes> or a code-point list [a,b,...] (hex); "-" trailer = the IOError branch *)
open Common

let zl_of_string s = Stdlib.List.map (fun c -> z_of_int (Char.code c)) (Stdlib.List.of_seq (String.to_seq s))
let string_of_zl l = String.of_seq (Stdlib.List.to_seq (Stdlib.List.map (fun z -> Char.chr (int_of_z z land 255)) l))
let name_arg s =
  if String.length s > 0 && s.[0] = '[' then begin
    let body = String.sub s 1 (String.length s - 2) in
    if body = "" then [] else Stdlib.List.map z_of_string (String.split_on_char ',' body)
  end else bytes_of_hex s
let trailer_arg = function [] -> None | ["-"] -> None | [t] -> Some (bytes_of_hex t) | _ -> failwith "trailer"
let show_choice = function None -> "none" | Some n -> "ok " ^ string_of_zl n
let cls_of s = Gen_scores.cls_of_name (zl_of_string s)

let init () =
  register "score" (fun (c :: fname :: header :: rest) ->
    match Gen_scores.score_by_name (zl_of_string c) (name_arg fname) (bytes_of_hex header) (trailer_arg rest) with
    | Some z -> "ok " ^ string_of_z z
    | None -> "error unknown-class");
  register "choose" (fun args ->
    let rec pairs = function
      | [] -> []
      | s :: n :: r -> (z_of_string s, zl_of_string n) :: pairs r
      | _ -> failwith "choose: odd arguments" in
    let l = pairs args in
    let a = Score.choose l and b = Score.choose_sorted l in
    if a <> b then "error choose/choose_sorted differ" else show_choice a);
  register "detect" (fun (fname :: header :: rest) ->
    show_choice (Score.detect (name_arg fname) (bytes_of_hex header) (trailer_arg rest)));
  register "detect_easy" (fun (fname :: header :: rest) ->
    show_choice (Score.detect_easy (name_arg fname) (bytes_of_hex header) (trailer_arg rest)));
  register "detect_with" (fun (opts :: fname :: header :: rest) ->
    let cs = Stdlib.List.map (fun n -> match cls_of n with Some c -> c | None -> failwith ("unknown class " ^ n))
        (Stdlib.List.filter (fun s -> s <> "") (String.split_on_char ',' opts)) in
    show_choice (Score.detect_with cs (name_arg fname) (bytes_of_hex header) (trailer_arg rest)));
  register "nfm" (fun [c; header] ->
    match cls_of c with
    | Some k -> string_of_bool (Score.no_foreign_marker k (bytes_of_hex header))
    | None -> "error unknown-class");
  register "c18info" (fun _ ->
    Printf.sprintf "trailer=%s header=%s options=%s easy=%s"
      (string_of_z Gen_scores.trailer_len) (string_of_z Gen_scores.header_len)
      (String.concat "," (Stdlib.List.map string_of_zl Gen_scores.option_names))
      (String.concat "," (Stdlib.List.map string_of_zl Gen_scores.option_easy_names)))
