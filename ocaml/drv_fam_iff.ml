(* line-protocol commands of the IFF family model (Model.Fam_iff): AIFF / WAVE / DSDIFF chunk carriers of an ID3 tag
   tokens:  flavour  aiff | wave | dff        bytes  x<hex>
            chunks   x<id>/x<data>/x<pad>,...  ("-" = none; pad omitted in iff_build)
            padding mode  default | keep | c<hex>                                                        *)
open Common
open Py
open Fam_iff

let flavour_of = function
  | "aiff" | "AIFF" -> aiff | "wave" | "WAVE" -> wave | "dff" | "DSDIFF" | "dsdiff" -> dsdiff
  | _ -> failwith "flavour"

let split c s = if s = "-" || s = "" then [] else String.split_on_char c s
let string_of_chunks cs =
  if cs = [] then "-" else
  String.concat "," (Stdlib.List.map (fun c ->
    hex_of_bytes c.cid ^ "/" ^ hex_of_bytes c.cdata ^ "/" ^ hex_of_bytes c.cpad) cs)
let pairs_of s =
  Stdlib.List.map (fun b -> match String.split_on_char '/' b with
    | id :: d :: _ -> (bytes_of_hex id, bytes_of_hex d) | _ -> failwith "chunk") (split ',' s)

let cb_of mode =
  if mode = "default" then Fam_carrier.cb_default
  else if mode = "keep" then Fam_carrier.cb_keep
  else if String.length mode > 1 && mode.[0] = 'c' then Fam_carrier.cb_const (z_of_string (String.sub mode 1 (String.length mode - 1)))
  else failwith "padding mode"

(* the callback is wrapped so that the reply reports what it was called with (info.padding, info.size) *)
let seen : (BinNums.coq_Z * BinNums.coq_Z) option ref = ref None
let wrap cb = seen := None; (fun p s -> seen := Some (p, s); cb p s)
let seen_string () = match !seen with None -> "- -" | Some (p, s) -> string_of_z p ^ " " ^ string_of_z s

let bytes_result = function Ok d -> "ok " ^ hex_of_bytes d | Raise e -> "raise " ^ exc_name e

let init () =
  register "iff_save" (fun [k; f; tag] -> bytes_result (iff_save (flavour_of k) (bytes_of_hex f) (bytes_of_hex tag)));
  register "iff_save_cb" (fun [k; f; fd; ver; mode] ->
    let cb = wrap (cb_of mode) in
    match iff_save_cb (flavour_of k) (bytes_of_hex f) (bytes_of_hex fd) (z_of_string ver) cb with
    | Ok d -> "ok " ^ hex_of_bytes d ^ " " ^ seen_string ()
    | Raise e -> "raise " ^ exc_name e ^ " " ^ seen_string ());
  register "iff_padinfo" (fun [k; f; fd] ->
    match iff_target (flavour_of k) (bytes_of_hex f) with
    | Ok t -> let (p, s) = iff_padinfo (flavour_of k) t (bytes_of_hex fd) in "ok " ^ string_of_z p ^ " " ^ string_of_z s
    | Raise e -> "raise " ^ exc_name e);
  register "iff_delete" (fun [k; f] -> bytes_result (iff_delete (flavour_of k) (bytes_of_hex f)));
  register "iff_load" (fun [k; f] ->
    match iff_load (flavour_of k) (bytes_of_hex f) with
    | Ok None -> "ok none" | Ok (Some t) -> "ok " ^ hex_of_bytes t | Raise e -> "raise " ^ exc_name e);
  register "iff_wf" (fun [k; f] -> "ok " ^ string_of_bool (iff_wf (flavour_of k) (bytes_of_hex f)));
  register "iff_parse" (fun [k; f] ->
    match iff_parse (flavour_of k) (bytes_of_hex f) with
    | Ok s -> "ok " ^ hex_of_bytes s.s_name ^ " " ^ string_of_chunks s.s_chunks ^ " "
              ^ string_of_chunks (others (flavour_of k) s.s_chunks) ^ " " ^ string_of_z (count_id3 (flavour_of k) s.s_chunks)
    | Raise e -> "raise " ^ exc_name e);
  register "iff_build" (fun [k; name; cs] -> "ok " ^ hex_of_bytes (iff_build (flavour_of k) (bytes_of_hex name) (pairs_of cs)));
  register "iff_mutwalk" (fun [k; f] ->
    let fl = flavour_of k in let fb = bytes_of_hex f in
    match mut_root fl fb with
    | Raise e -> "raise " ^ exc_name e
    | Ok rds -> (match mut_chunks fl fb rds with
      | Raise e -> "raise " ^ exc_name e
      | Ok es -> "ok " ^ string_of_z rds ^ " " ^ (if es = [] then "-" else String.concat ","
          (Stdlib.List.map (fun e -> string_of_z e.ce_off ^ "/" ^ hex_of_bytes e.ce_id ^ "/" ^ string_of_z e.ce_ds) es))))
