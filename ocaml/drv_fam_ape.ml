(* line-protocol commands of the APEv2 family model (Model.Fam_ape)
   tokens:  bytes  x<hex>       items  x<key>/<kind>/x<value>,...  ("-" = empty list)
            real   0 = BytesIO seek semantics, 1 = real file *)
open Common
open Py
open Fam_ape

let items_of s =
  if s = "-" || s = "" then [] else
  Stdlib.List.map (fun it -> match String.split_on_char '/' it with
    | [k; kind; v] -> { ikey = bytes_of_hex k; ikind = z_of_string kind; ivalue = bytes_of_hex v }
    | _ -> failwith "item") (String.split_on_char ',' s)
let string_of_items its =
  if its = [] then "-" else
  String.concat "," (Stdlib.List.map (fun it ->
    hex_of_bytes it.ikey ^ "/" ^ string_of_z it.ikind ^ "/" ^ hex_of_bytes it.ivalue) its)

let bytes_result = function Ok d -> "ok " ^ hex_of_bytes d | Raise e -> "raise " ^ exc_name e
let tags_result = function
  | Ok None -> "ok none"
  | Ok (Some its) -> "ok " ^ string_of_items its
  | Raise e -> "raise " ^ exc_name e
let opt_z_string = function None -> "-" | Some z -> string_of_z z

let init () =
  register "ape_save" (fun [real; f; its] ->
    bytes_result (ape_save (bool_of_string real) (bytes_of_hex f) (items_of its)));
  register "ape_delete" (fun [real; f] -> bytes_result (ape_delete (bool_of_string real) (bytes_of_hex f)));
  register "ape_moddelete" (fun [real; f] -> bytes_result (ape_moddelete (bool_of_string real) (bytes_of_hex f)));
  register "ape_load" (fun [f] -> tags_result (ape_load (bytes_of_hex f)));
  register "ape_mut_load" (fun [real; f] -> tags_result (ape_mut_load (bool_of_string real) (bytes_of_hex f)));
  register "ape_wf" (fun [f] -> "ok " ^ string_of_bool (ape_wf (bytes_of_hex f)));
  register "ape_parse" (fun [f] ->
    match ape_parse (bytes_of_hex f) with
    | Ok s -> Printf.sprintf "ok %x %s %s %x" (Stdlib.List.length s.pbody)
                (match s.ptag with None -> "none" | Some its -> string_of_items its)
                (string_of_bool s.phashdr) (Stdlib.List.length s.ptrailer)
    | Raise e -> "raise " ^ exc_name e);
  register "ape_locate" (fun [real; f] ->
    match ape_locate (bool_of_string real) (bytes_of_hex f) with
    | Ok None -> "ok none"
    | Ok (Some l) -> Printf.sprintf "ok %s %s %s %s %s %s %s %s %s" (string_of_z l.l_start) (string_of_z l.l_header)
                       (string_of_z l.l_data) (opt_z_string l.l_footer) (string_of_z l.l_end) (string_of_z l.l_size)
                       (string_of_z l.l_items) (string_of_z l.l_flags) (string_of_bool l.l_at_start)
    | Raise e -> "raise " ^ exc_name e);
  register "ape_build" (fun [body; ver; hdr; its; trailer] ->
    "ok " ^ hex_of_bytes (ape_build (bytes_of_hex body) (z_of_string ver) (bool_of_string hdr) (items_of its) (bytes_of_hex trailer)));
  register "ape_render_tag" (fun [its] -> "ok " ^ hex_of_bytes (ape_render_tag (items_of its)));
  register "ape_pyint" (fun [d] ->
    match ape_pyint (bytes_of_hex d) with None -> "ok none" | Some z -> "ok " ^ string_of_z z);
  register "ape_utf8_valid" (fun [d] -> "ok " ^ string_of_bool (ape_utf8_valid (bytes_of_hex d)))
