#!/bin/bash
# extract the model (coqc run from ocaml/gen so the .ml files land there) and build bin/mutagen_model
set -e
cd "$(dirname "$0")"
V=$(cd .. && pwd)
python3 $V/coq/extract/mkextract.py
mkdir -p gen $V/bin
STAMP=gen/.stamp
NEWEST=$(find $V/coq/base $V/coq/gen $V/coq/model $V/coq/extract -name '*.v' -newer $STAMP 2>/dev/null | head -1)
if [ ! -f $STAMP ] || [ -n "$NEWEST" ]; then
  (cd $V/coq && ./mk.sh $(sed -n 's/^Require Import \(Gen\|Model\)\.\(.*\)\.$/\1.\2/p' extract/Extract.v | tr ' ' '\n' | sed 's/^Gen\./gen\//;s/^Model\./model\//;s/\.$//' | sed 's/$/.vo/' | tr '\n' ' ') base/FileModel.vo >/dev/null)
  rm -f gen/*.ml gen/*.mli
  (cd gen && timeout 600 coqc -Q $V/coq/base Base -Q $V/coq/gen Gen -Q $V/coq/model Model $V/coq/extract/Extract.v >/dev/null)
  touch $STAMP
fi
timeout 900 dune build ./main.exe 2>&1 | grep -v "^\s*$" | head -50
cp -f _build/default/main.exe $V/bin/mutagen_model
