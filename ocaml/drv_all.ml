let init () =
  Drv_c11.init ()
