(* C20 driver: Model.Signal.  Events travel as tokens: S (Sig) E (Enter) L (Leave) O (Other) X (Exn)
   F<file>:<i> (FileOp, hex integers). *)
open Common
open Signal

let ev_of_string s = match s with
  | "S" -> Sig | "E" -> Enter | "L" -> Leave | "O" -> Other | "X" -> Exn
  | _ ->
    if String.length s > 1 && s.[0] = 'F' then
      (match String.split_on_char ':' (String.sub s 1 (String.length s - 1)) with
       | [f; i] -> FileOp (z_of_string f, z_of_string i)
       | _ -> failwith ("bad event " ^ s))
    else failwith ("bad event " ^ s)

let string_of_ev = function
  | Sig -> "S" | Enter -> "E" | Leave -> "L" | Other -> "O" | Exn -> "X"
  | FileOp (f, i) -> "F" ^ string_of_z f ^ ":" ^ string_of_z i

let out_name = function Finished -> "Finished" | Exit -> "Exit" | Crashed -> "Crashed"

let rec nat_of_int n = if n <= 0 then Datatypes.O else Datatypes.S (nat_of_int (n - 1))

let show_res r =
  let ops = Stdlib.List.map (fun (f, i) -> string_of_z f ^ ":" ^ string_of_z i) r.r_ops in
  Printf.sprintf "ok out=%s steps=%s st=%s%s nops=%d ops=%s" (out_name r.r_out) (string_of_z r.r_steps)
    (string_of_bool r.r_state.interrupted) (string_of_bool r.r_state.nosig)
    (Stdlib.List.length ops) (if ops = [] then "-" else String.concat "," ops)

(* "[1,0,2]" -> nat list *)
let sched_of_string s =
  let n = String.length s in
  if n < 2 || s.[0] <> '[' || s.[n - 1] <> ']' then failwith "sched" else
  let body = String.sub s 1 (n - 2) in
  if body = "" then [] else
  Stdlib.List.map (fun t -> nat_of_int (int_of_z (z_of_string t))) (String.split_on_char ',' body)

let init () =
  (* sig_run <events...> : run from the initial handler state *)
  register "sig_run" (fun args -> show_res (sig_run (Stdlib.List.map ev_of_string args)));
  (* sig_protected <events...> *)
  register "sig_protected" (fun args -> "ok " ^ string_of_bool (sig_protected (Stdlib.List.map ev_of_string args)));
  (* sig_sched_run [n,..] <program events...> : weave the schedule into the program, then run *)
  register "sig_sched_run" (fun (sched :: args) ->
    let l = sig_weave (sched_of_string sched) (Stdlib.List.map ev_of_string args) in
    show_res (sig_run l) ^ " woven=" ^ (if l = [] then "-" else String.concat "," (Stdlib.List.map string_of_ev l)));
  (* sig_cut <k> <program events...> : signal before event k of the (signal-free) program:
     number of events in done / later *)
  register "sig_cut" (fun (k :: args) ->
    let prog = Stdlib.List.map ev_of_string args in
    let k = int_of_z (z_of_string k) in
    let rec split i l = if i = 0 then ([], l) else match l with [] -> ([], []) | x :: r -> let (a, b) = split (i - 1) r in (x :: a, b) in
    let (pre, post) = split k prog in
    Printf.sprintf "ok done=%d later=%d" (Stdlib.List.length (sig_done pre post)) (Stdlib.List.length (sig_later pre post)))
