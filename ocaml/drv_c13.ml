(* C13 driver: Model.Id3Conv on a compact textual tag encoding (no spaces inside a token).
     text     u<hex>.<hex>...     code points ("u" alone = empty)
     bytes    x<hex pairs>
     int      hexadecimal, optional leading '-'
     list     [a,b,...]
     frame    T(id;enc;[text..])            TextFrame family
              S(id;enc;[stamp..])           TimeStampTextFrame; stamp = text (parsed by the model) or
                                            s(y|m|d|h|mi|s) with '~' for None (always printed this way)
              X(enc;desc;[text..])          TXXX
              C(enc;lang;desc;[text..])     COMM
              P(id;enc;[inv=person,..])     TIPL/TMCL/IPLS
              A(enc;mime;type;desc;xdata)   APIC
              H(eid;t0;t1;o0;o1;[frame..])  CHAP
              O(eid;flags;[text..];[frame..]) CTOC
              R(id;key;xdata)               any other frame (opaque)
     tag      [frame,...]
   Exceptions are reported as `raise <PythonExceptionName>`. *)
open Common
open Py
open Id3Conv

exception Parse of string

let parse_tag_string (s : string) =
  let n = String.length s in
  let pos = ref 0 in
  let peek () = if !pos < n then s.[!pos] else '\000' in
  let eat c = if peek () = c then incr pos else raise (Parse (Printf.sprintf "expected %c at %d" c !pos)) in
  let is_hex c = (c >= '0' && c <= '9') || (c >= 'a' && c <= 'f') || (c >= 'A' && c <= 'F') in
  let hexrun () = let st = !pos in while is_hex (peek ()) do incr pos done; String.sub s st (!pos - st) in
  let p_int () =
    let neg = peek () = '-' in
    if neg then incr pos;
    let h = hexrun () in
    if h = "" then raise (Parse "int");
    z_of_string ((if neg then "-" else "") ^ h) in
  let p_text () =
    eat 'u';
    let rec go acc =
      if is_hex (peek ()) then begin
        let h = hexrun () in
        let acc = z_of_string h :: acc in
        if peek () = '.' then (incr pos; go acc) else Stdlib.List.rev acc
      end else Stdlib.List.rev acc in
    go [] in
  let p_bytes () = eat 'x'; let h = hexrun () in bytes_of_hex ("x" ^ h) in
  let p_list item =
    eat '[';
    if peek () = ']' then (incr pos; []) else begin
      let rec go acc =
        let x = item () in
        if peek () = ',' then (incr pos; go (x :: acc)) else (eat ']'; Stdlib.List.rev (x :: acc)) in
      go []
    end in
  let p_opt () = if peek () = '~' then (incr pos; None) else Some (p_int ()) in
  let p_stamp () =
    if peek () = 'u' then conv_stamp_parse (p_text ())
    else begin
      eat 's'; eat '(';
      let y = p_opt () in eat '|'; let m = p_opt () in eat '|'; let d = p_opt () in eat '|';
      let h = p_opt () in eat '|'; let mi = p_opt () in eat '|'; let se = p_opt () in eat ')';
      { st_year = y; st_month = m; st_day = d; st_hour = h; st_minute = mi; st_second = se }
    end in
  let p_pair () = let a = p_text () in eat '='; let b = p_text () in (a, b) in
  let rec p_frame () =
    let k = peek () in
    incr pos; eat '(';
    let f = match k with
      | 'T' -> let id = p_text () in eat ';'; let e = p_int () in eat ';'; let v = p_list p_text in FText (id, e, v)
      | 'S' -> let id = p_text () in eat ';'; let e = p_int () in eat ';'; let v = p_list p_stamp in FStamp (id, e, v)
      | 'X' -> let e = p_int () in eat ';'; let d = p_text () in eat ';'; let v = p_list p_text in FTxxx (e, d, v)
      | 'C' -> let e = p_int () in eat ';'; let l = p_text () in eat ';'; let d = p_text () in eat ';';
               let v = p_list p_text in FComm (e, l, d, v)
      | 'P' -> let id = p_text () in eat ';'; let e = p_int () in eat ';'; let v = p_list p_pair in FPeople (id, e, v)
      | 'A' -> let e = p_int () in eat ';'; let m = p_text () in eat ';'; let t = p_int () in eat ';';
               let d = p_text () in eat ';'; let x = p_bytes () in FApic (e, m, t, d, x)
      | 'H' -> let eid = p_text () in eat ';'; let a = p_int () in eat ';'; let b = p_int () in eat ';';
               let c = p_int () in eat ';'; let d = p_int () in eat ';'; let sub = p_list p_frame in
               FChap (eid, a, b, c, d, sub)
      | 'O' -> let eid = p_text () in eat ';'; let fl = p_int () in eat ';'; let ch = p_list p_text in eat ';';
               let sub = p_list p_frame in FCtoc (eid, fl, ch, sub)
      | 'R' -> let id = p_text () in eat ';'; let key = p_text () in eat ';'; let x = p_bytes () in FOther (id, key, x)
      | c -> raise (Parse (Printf.sprintf "frame kind %c" c)) in
    eat ')'; f in
  let t = p_list p_frame in
  if !pos <> n then raise (Parse "trailing input");
  t

let parse_text_string (s : string) =
  if s = "u" then [] else
    Stdlib.List.map z_of_string (String.split_on_char '.' (String.sub s 1 (String.length s - 1)))

let parse_textlist_string (s : string) =
  (* [u..,u..] *)
  let body = String.sub s 1 (String.length s - 2) in
  if body = "" then [] else Stdlib.List.map parse_text_string (String.split_on_char ',' body)

let pr_text l = "u" ^ String.concat "." (Stdlib.List.map string_of_z l)
let pr_list f l = "[" ^ String.concat "," (Stdlib.List.map f l) ^ "]"
let pr_opt = function None -> "~" | Some z -> string_of_z z
let pr_stamp d =
  Printf.sprintf "s(%s|%s|%s|%s|%s|%s)" (pr_opt d.st_year) (pr_opt d.st_month) (pr_opt d.st_day)
    (pr_opt d.st_hour) (pr_opt d.st_minute) (pr_opt d.st_second)
let rec pr_frame = function
  | FText (id, e, v) -> Printf.sprintf "T(%s;%s;%s)" (pr_text id) (string_of_z e) (pr_list pr_text v)
  | FStamp (id, e, v) -> Printf.sprintf "S(%s;%s;%s)" (pr_text id) (string_of_z e) (pr_list pr_stamp v)
  | FTxxx (e, d, v) -> Printf.sprintf "X(%s;%s;%s)" (string_of_z e) (pr_text d) (pr_list pr_text v)
  | FComm (e, l, d, v) -> Printf.sprintf "C(%s;%s;%s;%s)" (string_of_z e) (pr_text l) (pr_text d) (pr_list pr_text v)
  | FPeople (id, e, p) -> Printf.sprintf "P(%s;%s;%s)" (pr_text id) (string_of_z e)
                            (pr_list (fun (a, b) -> pr_text a ^ "=" ^ pr_text b) p)
  | FApic (e, m, t, d, x) -> Printf.sprintf "A(%s;%s;%s;%s;%s)" (string_of_z e) (pr_text m) (string_of_z t) (pr_text d) (hex_of_bytes x)
  | FChap (eid, a, b, c, d, sub) -> Printf.sprintf "H(%s;%s;%s;%s;%s;%s)" (pr_text eid) (string_of_z a) (string_of_z b)
                                      (string_of_z c) (string_of_z d) (pr_list pr_frame sub)
  | FCtoc (eid, fl, ch, sub) -> Printf.sprintf "O(%s;%s;%s;%s)" (pr_text eid) (string_of_z fl) (pr_list pr_text ch) (pr_list pr_frame sub)
  | FOther (id, key, x) -> Printf.sprintf "R(%s;%s;%s)" (pr_text id) (pr_text key) (hex_of_bytes x)
let pr_tag t = pr_list pr_frame t

let sep_of s = if s = "-" then None else Some (parse_text_string s)
let guard f = try f () with Parse m -> "error parse: " ^ m

let init () =
  register "c13_u23" (fun [g; t] -> guard (fun () ->
    "ok " ^ pr_tag (conv_update_to_v23 (parse_textlist_string g) (parse_tag_string t))));
  register "c13_u24" (fun [g; t] -> guard (fun () ->
    "ok " ^ pr_tag (conv_update_to_v24 (parse_textlist_string g) (parse_tag_string t))));
  register "c13_v23" (fun [sep; t] -> guard (fun () ->
    "ok " ^ pr_tag (Stdlib.List.map (conv_v23_frame (sep_of sep)) (parse_tag_string t))));
  (* c13_saved <3|4> <sep|-> <tag> : the frames a save writes *)
  register "c13_saved" (fun [v; sep; t] -> guard (fun () ->
    let tg = parse_tag_string t in
    "ok " ^ pr_tag (if v = "3" then conv_saved23 (sep_of sep) tg else conv_saved tg)));
  register "c13_mk1" (fun [g; t] -> guard (fun () ->
    match conv_make_id3v1 (parse_textlist_string g) (parse_tag_string t) with
    | Ok b -> "ok " ^ hex_of_bytes b
    | Raise e -> "raise " ^ exc_name e));
  register "c13_p1" (fun [v; b] -> guard (fun () ->
    match conv_parse_id3v1 (z_of_string v) (bytes_of_hex b) with
    | None -> "none"
    | Some t -> "ok " ^ pr_tag t));
  (* c13_ts text... : fields and get_text of ID3TimeStamp(text) *)
  register "c13_ts" (fun ts ->
    String.concat " " (Stdlib.List.map (fun s ->
      let d = conv_stamp_parse (parse_text_string s) in pr_stamp d ^ "/" ^ pr_text (conv_stamp_text d)) ts));
  register "c13_int" (fun ts ->
    String.concat " " (Stdlib.List.map (fun s -> pr_opt (conv_py_int (parse_text_string s))) ts));
  register "c13_genres" (fun [g; vals] ->
    pr_list pr_text (conv_genres (parse_textlist_string g) (parse_textlist_string vals)));
  register "c13_fb" (fun [v; id; payload] ->
    match conv_frame_bytes (z_of_string v) (bytes_of_hex id) (bytes_of_hex payload) with
    | Ok b -> "ok " ^ hex_of_bytes b | Raise e -> "raise " ^ exc_name e);
  register "c13_tb" (fun [v; fd; pad] ->
    match conv_tag_bytes (z_of_string v) (bytes_of_hex fd) (z_of_string pad) with
    | Ok b -> "ok " ^ hex_of_bytes b | Raise e -> "raise " ^ exc_name e);
  register "c13_walk" (fun [v; data] ->
    let d = bytes_of_hex data in
    match conv_walk (Datatypes.S (Stdlib.List.fold_left (fun n _ -> Datatypes.S n) Datatypes.O d)) (z_of_string v) d with
    | None -> "none"
    | Some fr -> "ok " ^ pr_list (fun (id, p) -> hex_of_bytes id ^ ":" ^ hex_of_bytes p) fr)
