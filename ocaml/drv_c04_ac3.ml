(* C04 (AC3): c04_load_ac3 AC3 x<hex>  ->  ok [ints]  |  raise <PythonExceptionName>  |  fuel *)
open Common
open Py

let reply to_list r =
  match r with
  | Ok a -> "ok " ^ zlist_to_string (to_list a)
  | Raise EOutOfFuel -> "fuel"
  | Raise e -> "raise " ^ exc_name e

let init () =
  register "c04_load_ac3" (fun [k; data] ->
    let d = bytes_of_hex data in
    match k with
    | "AC3" -> reply Parse_ac3.ac3_id (Parse_ac3.ac3_load d)
    | _ -> "error unknown-loader " ^ k)
