open Common
open Py
open FileModel

let init () =
  (* seekend <fn> real pos x<data> arg : fn in get_size seek_end read_full *)
  register "seekend" (fun [fn; real; pos; data; arg] ->
    let c = cfg_of real "-" "0" "-" "-" in
    let st = { fdata = bytes_of_hex data; fpos = z_of_string pos; fcfg_of = c } in
    let a = z_of_string arg in
    let show r st' extra = (match r with Ok _ -> "ok" ^ extra | Raise e -> "raise " ^ exc_name e) ^ " pos=" ^ string_of_z st'.fpos in
    match fn with
    | "get_size" -> let (r, s') = SeekEnd.get_size st in show r s' (match r with Ok v -> " " ^ string_of_z v | _ -> "")
    | "seek_end" -> let (r, s') = SeekEnd.seek_end a st in show r s' ""
    | "read_full" -> let (r, s') = SeekEnd.read_full a st in show r s' (match r with Ok v -> " " ^ hex_of_bytes v | _ -> "")
    | _ -> failwith "seekend")
