(* C05 driver: stream-info models over the line protocol.
   info_build <fmt> <args...>          -> x<hex>           (SPEC-side builders)
   info_decode <fmt> x<hex> [<arg>]    -> ok v1 v2 ... | raise <Exception>   (CODE-side decoders)
   info_expected mpeg <9 params>       -> ok v1 v2 ...
   integers are protocol hex, byte strings x<hex>, "-" = None *)
open Common
open Py

let zl r = match r with
  | Ok l -> "ok " ^ String.concat " " (Stdlib.List.map string_of_z l)
  | Raise e -> "raise " ^ exc_name e
let z = z_of_string
let zs = Stdlib.List.map z_of_string

(* one program_config_element: tag:object_type:sfi:xfront:xside:xback:xlfe:xassoc:xcc:mono:stereo:matrix:xcomment
   (element lists one byte per element; "-" = mixdown flag 0) *)
let pce_of_string s = match String.split_on_char ':' s with
  | [tag; ot; sfi; fr; si; ba; lfe; assoc; cc; mono; stereo; matrix; comment] ->
    InfoAac.pce_of (z tag) (z ot) (z sfi) (bytes_of_hex fr) (bytes_of_hex si) (bytes_of_hex ba) (bytes_of_hex lfe)
      (bytes_of_hex assoc) (bytes_of_hex cc) (opt_z mono) (opt_z stereo) (opt_z matrix) (bytes_of_hex comment)
  | _ -> failwith "pce: 13 fields"
let adif_of_args cid orig home bst bitrate full pces =
  InfoAac.adif_of (if cid = "-" then None else Some (bytes_of_hex cid)) (z orig) (z home) (z bst) (z bitrate) (z full)
    (Stdlib.List.map pce_of_string pces)

let init () =
  register "info_build" (fun (fmt :: a) ->
    let bytes = match fmt, a with
      | "mpeg", _ -> InfoMpeg.build_mpeg_frame (InfoMpeg.mpeg_p_of_list (zs a))
      | "mpeg_hdr", _ -> InfoMpeg.build_mpeg_header (InfoMpeg.mpeg_p_of_list (zs a))
      | "xing_frame", [vb; lb; prot; bri; sri; pad; priv; mode; tail; info; frames; bytes; toc; scale; vs; vm; lp; delay; padding] ->
        (* Xing/Info tag (+ LAME extension when vs is not "-") at the specification's offset *)
        let p = InfoMpeg.mpeg_p_of_list (zs [vb; lb; prot; bri; sri; pad; priv; mode; tail]) in
        let tag = InfoXing.build_xing_tag (InfoXing.xing_p_of (z info) (opt_z frames) (opt_z bytes) (z toc) (opt_z scale)) in
        let lame = if vs = "-" then [] else InfoXing.build_lame_tag (bytes_of_hex vs) (z vm) (z lp) (z delay) (z padding) in
        InfoXing.build_tag_frame p (InfoXing.spec_xing_offset p) (Stdlib.List.append tag lame)
      | "vbri_frame", [vb; lb; prot; bri; sri; pad; priv; mode; tail; delay; quality; bytes; frames; entries; scale; esize; tocframes] ->
        let p = InfoMpeg.mpeg_p_of_list (zs [vb; lb; prot; bri; sri; pad; priv; mode; tail]) in
        InfoXing.build_tag_frame p (z_of_int 36)
          (InfoXing.build_vbri_tag (z delay) (z quality) (z bytes) (z frames) (z entries) (z scale) (z esize) (z tocframes))
      | "ac3", _ -> InfoAc3.build_ac3_frame (InfoAc3.ac3_p_of_list (zs a))
      | "eac3", _ -> InfoAc3.build_eac3_frame (InfoAc3.eac3_p_of_list (zs a))
      | "flac", _ -> InfoFlac.build_flac_streaminfo (InfoFlac.flac_p_of_list (zs a))
      | "flac_write", _ ->
        (match InfoFlac.flac_streaminfo_write (InfoFlac.flac_p_of_list (zs a)) with
         | Ok b -> b | Raise e -> failwith ("raise " ^ exc_name e))
      | "wave", [f; c; r; br; al; bi; ext] -> InfoIff.build_wave_fmt (z f) (z c) (z r) (z br) (z al) (z bi) (bytes_of_hex ext)
      | "aiff", [c; fr; bi; r; ext] -> InfoIff.build_aiff_comm (z c) (z fr) (z bi) (z r) (bytes_of_hex ext)
      | "dsf", [a1; a2; a3; a4; a5; a6; a7; a8; a9] ->
        InfoSimple.build_dsf (z a1) (z a2) (z a3) (z a4) (z a5) (z a6) (z a7) (z a8) (z a9)
      | "tta", [a1; a2; a3; a4; a5; a6] -> InfoSimple.build_tta (z a1) (z a2) (z a3) (z a4) (z a5) (z a6)
      | "wavpack", [ck; ver; total; bi; bs; bc; mono; mlo; ri; mhi; dsd; crc] ->
        InfoSimple.build_wavpack_block (z ck) (z ver) (z total) (z bi) (z bs)
          (InfoSimple.wavpack_flags (z bc) (z mono) (z mlo) (z ri) (z mhi) (z dsd)) (z crc)
      | "ape", [a1; a2; a3; a4; a5; a6; a7; a8; a9; a10; a11; a12] ->
        InfoSimple.build_ape (z a1) (z a2) (z a3) (z a4) (z a5) (z a6) (z a7) (z a8) (z a9) (z a10) (z a11) (z a12)
      | "ape_old", [a1; a2; a3; a4; a5; a6; a7; a8; a9] ->
        InfoSimple.build_ape_old (z a1) (z a2) (z a3) (z a4) (z a5) (z a6) (z a7) (z a8) (z a9)
      | "ofr", [a1; a2; a3; a4; a5; a6] -> InfoSimple.build_ofr (z a1) (z a2) (z a3) (z a4) (z a5) (z a6)
      | "mpc7", [minor; frames; ml; ri; link; prof; mb; ms; is_; tp; tg; ap; ag; tail] ->
        InfoSimple.build_mpc7 (z minor) (z frames)
          (InfoSimple.mpc7_flags (z ml) (z ri) (z link) (z prof) (z mb) (z ms) (z is_)) (z tp) (z tg) (z ap) (z ag)
          (bytes_of_hex tail)
      | "mpc8", [a1; a2; a3; a4; a5; a6; a7; a8; a9; a10; a11; a12] ->
        InfoMpc.build_mpc8 (z a1) (z a2) (z a3) (z a4) (z a5) (z a6) (z a7) (z a8) (z a9) (z a10) (z a11) (z a12)
      | "varint", [n] -> InfoMpc.sv8_varint (z n)
      | "vorbis", [a1; a2; a3; a4; a5; a6] -> InfoOgg.build_vorbis_id (z a1) (z a2) (z a3) (z a4) (z a5) (z a6)
      | "opus", [a1; a2; a3; a4; a5; a6; tab] ->
        InfoOgg.build_opus_head (z a1) (z a2) (z a3) (z a4) (z a5) (z a6) (bytes_of_hex tab)
      | "speex", [vs; a1; a2; a3; a4; a5; a6; a7] ->
        InfoOgg.build_speex_header (bytes_of_hex vs) (z a1) (z a2) (z a3) (z a4) (z a5) (z a6) (z a7)
      | "theora", [a1; a2; a3; a4; a5; a6; a7; a8; a9; a10; a11; a12; a13; a14; a15; a16] ->
        InfoOgg.build_theora_id (z a1) (z a2) (z a3) (z a4) (z a5) (z a6) (z a7) (z a8) (z a9) (z a10) (z a11)
          (z a12) (z a13) (z a14) (z a15) (z a16)
      | "adif", cid :: orig :: home :: bst :: bitrate :: full :: tail :: pces ->
        InfoAac.build_adif (adif_of_args cid orig home bst bitrate full pces) (bytes_of_hex tail)
      | "oggflac", hp :: rest -> InfoOgg.build_oggflac_id (z hp) (InfoFlac.flac_p_of_list (zs rest))
      | _ -> failwith "info_build: bad format or arity" in
    hex_of_bytes bytes);
  register "info_decode" (fun (fmt :: data :: a) ->
    let d = bytes_of_hex data in
    let g () = match a with [x] -> z x | _ -> failwith "granule" in
    zl (match fmt with
      | "mpeg" -> InfoMpeg.decode_mpeg_frame d
      | "mpeg_vbr" -> InfoXing.decode_mpeg_vbr d
      | "ac3" -> InfoAc3.decode_ac3 d
      | "adif" -> InfoAac.decode_adif d
      | "flac" -> InfoFlac.decode_flac_streaminfo d
      | "wave" -> InfoIff.decode_wave_fmt d (match a with [x] -> opt_z x | _ -> failwith "data size")
      | "aiff" -> InfoIff.decode_aiff_comm d
      | "dsf" -> InfoSimple.decode_dsf d
      | "tta" -> InfoSimple.decode_tta d
      | "wavpack" -> InfoSimple.decode_wavpack d
      | "ape" -> InfoSimple.decode_ape d
      | "ofr" -> InfoSimple.decode_ofr d
      | "mpc" -> InfoMpc.decode_mpc d
      | "vorbis" -> InfoOgg.decode_vorbis_id d (g ())
      | "opus" -> InfoOgg.decode_opus_head d (g ())
      | "speex" -> InfoOgg.decode_speex_header d (g ())
      | "theora" -> InfoOgg.decode_theora_id d (g ())
      | "oggflac" -> InfoOgg.decode_oggflac_id d (g ())
      | _ -> failwith "info_decode: bad format"));
  register "info_expected" (fun (fmt :: a) ->
    match fmt with
    | "mpeg" -> zl (Ok (InfoMpeg.expected_mpeg (InfoMpeg.mpeg_p_of_list (zs a))))
    | "flac" -> zl (Ok (InfoFlac.expected_flac (InfoFlac.flac_p_of_list (zs a))))
    | "adif" -> (match a with
        | cid :: orig :: home :: bst :: bitrate :: full :: pces ->
          zl (Ok (InfoAac.expected_adif (adif_of_args cid orig home bst bitrate full pces)))
        | _ -> failwith "info_expected adif: arity")
    | _ -> failwith "info_expected: bad format")
