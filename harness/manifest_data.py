import os, sys, importlib
NOTES = ("Every check: py2v regeneration of coq/gen from /repo's working tree, make of the property's proof cone, "
         "extraction + OCaml model build, correspondence model-vs-implementation, direct oracle on the implementation; "
         "see DESIGN.md. Known findings: known_findings.json.")
TB = ("Trusted: Coq 8.16.1 kernel (vm_compute, no native_compute); no axioms declared (Print Assumptions recorded in evidence); "
      "py2v translator; ExtrOcamlBasic extraction + OCaml driver; harness. ")
HERE = os.path.dirname(os.path.abspath(__file__))
CHECKS = []
REASONS = {}
for i in range(1, 21):
    pid = "C%02d" % i
    path = os.path.join(HERE, "props", pid.lower() + ".py")
    if not os.path.exists(path):
        REASONS[pid] = "machinery for this property is not built yet in this commit (work in progress; DESIGN.md section 5 has the planned proof)"
        continue
    mod = importlib.import_module("props." + pid.lower())
    m = dict(mod.MANIFEST)
    if m.get("not_applicable"):
        REASONS[pid] = m["not_applicable"]
        continue
    CHECKS.append({"property_id": pid, "text": m["text"], "note": TB + m["note"], "technique": m["technique"],
                   "design_ref": m.get("design_ref", "DESIGN.md section 5, " + pid)})
NOT_APPLICABLE = [{"property_id": k, "reason": v} for k, v in sorted(REASONS.items())]
