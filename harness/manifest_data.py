NOTES = ("Every check: py2v regeneration of coq/gen from /repo's working tree, make of the property's proof cone, "
         "extraction + OCaml model build, correspondence model-vs-implementation, direct oracle on the implementation; "
         "see DESIGN.md. Known findings: known_findings.json.")
TB = ("Trusted: Coq 8.16.1 kernel (vm_compute, no native_compute); no axioms declared (Print Assumptions recorded in evidence); "
      "py2v translator; ExtrOcamlBasic extraction + OCaml driver; harness. ")
CHECKS = [
    {"property_id": "C11",
     "text": "full: theorems over the Gallina code regenerated from mutagen/_util.py on every run, for every file content, offset, old/new size, "
             "copy-buffer size >= 1 and both seek flavours: prefix/retained region/suffix preserved, rejects leave the file unmodified; "
             "the regenerated model is tied to the implementation by an exhaustive small-domain correspondence (bytes, exception class, position)",
     "note": TB + "Modelled, not verified: the file object semantics (Base.FileModel), tied by correspondence on BytesIO and a real file. "
             "OS-level behaviour of real files (sparse growth, partial writes) is outside the model (see C19).",
     "technique": "Coq proof (loop invariants by induction over chunk count) over py2v-generated Gallina + exhaustive correspondence via extracted OCaml model",
     "design_ref": "DESIGN.md section 5, C11"},
]
_PENDING = "machinery for this property is not built yet in this commit (work in progress; see DESIGN.md section 5 for the planned proof)"
NOT_APPLICABLE = [{"property_id": "C%02d" % i, "reason": _PENDING} for i in range(1, 21) if "C%02d" % i not in {c["property_id"] for c in CHECKS}]
