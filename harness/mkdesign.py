#!/usr/bin/env python3
"""Rewrite the generated tables of DESIGN.md (fixed findings from known_findings.json + git log of /repo;
seeded changes from seeded/*/meta.json)."""
import json, os, re, subprocess, glob
V = os.path.dirname(os.path.dirname(os.path.abspath(__file__)))
p = os.path.join(V, "DESIGN.md")
s = open(p).read()
k = json.load(open(os.path.join(V, "known_findings.json")))
log = subprocess.run(["git", "-C", "/repo", "log", "--reverse", "--format=%h %s"], capture_output=True, text=True).stdout.splitlines()
fixes = [l.split(" ", 1) for l in log if l.split(" ", 1)[1].startswith("fix:")]
byc = {}
for e in k:
    if e.get("kind") == "fixed":
        byc[str(e.get("commit", ""))[:7]] = e
rows = ["| # | commit | property | defect (commit subject) |", "|---|---|---|---|"]
for n, (h, msg) in enumerate(fixes, 1):
    e = byc.get(h[:7])
    prop = e["property"] if e else "?"
    if not e:
        for x in k:
            if x.get("kind") == "fixed" and msg[5:40] in x.get("what", ""):
                prop = x["property"]
    rows.append("| %d | `%s` | %s | %s |" % (n, h, prop, msg[5:].replace("|", "\\|")))
tab = "\n".join(rows)
s = re.sub(r"<!-- FINDINGS:BEGIN -->.*?<!-- FINDINGS:END -->", lambda m_: "<!-- FINDINGS:BEGIN -->\n" + tab + "\n<!-- FINDINGS:END -->", s, flags=re.S)
# seeds
hist = {}
try:
    hist = json.load(open(os.path.join(V, "seeded", "HISTORY.json")))
except Exception:
    pass
rows = ["| seed | property | change (by an independent sub-agent) | needs | caught by (quick tier) | how | strengthened |", "|---|---|---|---|---|---|---|"]
for d in sorted(glob.glob(os.path.join(V, "seeded", "*"))):
    mp = os.path.join(d, "meta.json")
    if not os.path.exists(mp):
        continue
    m = json.load(open(mp))
    rows.append("| %s | %s | %s | %s | %s | %s | %s |" % (os.path.basename(d), m.get("property"), str(m.get("summary", ""))[:220].replace("|", "/").replace("\n", " "),
                                                str(m.get("needs", ""))[:160].replace("|", "/").replace("\n", " "),
                                                ", ".join(m.get("caught_by", [])) or ("(broken obligation only: %s)" % ", ".join(m.get("caught_only_as_broken_obligation", [])) if m.get("caught_only_as_broken_obligation") else "—"),
                                                str(m.get("how", ""))[:160].replace("|", "/"), hist.get(os.path.basename(d), "").replace("|", "/")))
tab = "\n".join(rows)
if "<!-- SEEDS:BEGIN -->" in s:
    s = re.sub(r"<!-- SEEDS:BEGIN -->.*?<!-- SEEDS:END -->", lambda m_: "<!-- SEEDS:BEGIN -->\n" + tab + "\n<!-- SEEDS:END -->", s, flags=re.S)
# counts
rows = ["| property | props files | theorems | examples | obligations discharged (evidence) | cases evaluated | quick wall s |", "|---|---|---|---|---|---|---|"]
tt = te = 0
for i in range(1, 21):
    pid = "C%02d" % i
    files = sorted(glob.glob(os.path.join(V, "coq", "props", pid + "*.v")))
    nt = sum(open(f).read().count("\nTheorem ") for f in files)
    ne = sum(open(f).read().count("\nExample ") for f in files)
    tt += nt; te += ne
    ev = {}
    try:
        ev = json.load(open(os.path.join(V, "evidence", pid + ".json")))
    except Exception:
        pass
    cov = ev.get("coverage", {})
    rows.append("| %s | %s | %d | %d | %s/%s | %s | %s |" % (pid, ", ".join(os.path.basename(f)[:-2] for f in files), nt, ne, cov.get("discharged", "?"), cov.get("obligations", "?"),
                                                   cov.get("evaluations", "?"), ev.get("wall_s", "?")))
rows.append("| total | %d files | %d | %d | | | |" % (len(glob.glob(os.path.join(V, "coq", "props", "*.v"))), tt, te))
tab = "\n".join(rows)
s = re.sub(r"<!-- COUNTS:BEGIN -->.*?<!-- COUNTS:END -->", lambda m_: "<!-- COUNTS:BEGIN -->\n" + tab + "\n<!-- COUNTS:END -->", s, flags=re.S)
open(p, "w").write(s)
print("DESIGN.md tables regenerated: %d fixes" % len(fixes))
