"""C16 helper: JSON-able value descriptors, builders of the real Python objects, canonical forms.
A descriptor is a small list: ["s",str] ["i",int] ["n"] ["b",hex] ["B",bool] ["f",float] ["l",[desc..]]
["t",[desc..]] ["ape",kind,payload] ["frame",idx] ["asf",TYPE,desc] ["ff",hex] ["cover",hex,fmt]."""

# ID3 frames used as values: (class name, kwargs, HashKey as documented for that frame class)
FRAME_SPECS = [
    ("TIT2", {"encoding": 3, "text": ["a"]}, "TIT2"),
    ("TIT2", {"encoding": 3, "text": ["b", "c"]}, "TIT2"),
    ("TPE1", {"encoding": 3, "text": ["p"]}, "TPE1"),
    ("TXXX", {"encoding": 3, "desc": "desc", "text": ["x"]}, "TXXX:desc"),
    ("TXXX", {"encoding": 3, "desc": "Desc", "text": ["y"]}, "TXXX:Desc"),
    ("COMM", {"encoding": 3, "lang": "eng", "desc": "desc", "text": ["c"]}, "COMM:desc:eng"),
    ("COMM", {"encoding": 3, "lang": "fra", "desc": "desc", "text": ["d"]}, "COMM:desc:fra"),
    ("WOAR", {"url": "http://a"}, "WOAR:http://a"),
]


def mk(d):
    """build a fresh Python object from a descriptor"""
    t = d[0]
    if t == "s":
        return d[1]
    if t == "i":
        return d[1]
    if t == "n":
        return None
    if t == "b":
        return bytes.fromhex(d[1])
    if t == "B":
        return bool(d[1])
    if t == "f":
        return float(d[1])
    if t == "l":
        return [mk(x) for x in d[1]]
    if t == "t":
        return tuple(mk(x) for x in d[1])
    if t == "ape":
        from mutagen.apev2 import APEValue
        return APEValue(bytes.fromhex(d[2]) if d[1] == 1 else d[2], d[1])
    if t == "frame":
        import mutagen.id3
        name, kw, _ = FRAME_SPECS[d[1]]
        return getattr(mutagen.id3, name)(**kw)
    if t == "asf":
        from mutagen.asf import ASFValue
        return ASFValue(mk(d[2]), d[1])
    if t == "ff":
        from mutagen.mp4 import MP4FreeForm
        return MP4FreeForm(bytes.fromhex(d[1]))
    if t == "cover":
        from mutagen.mp4 import MP4Cover
        return MP4Cover(bytes.fromhex(d[1]), d[2])
    raise ValueError("descriptor %r" % (d,))


def cv(x):
    """canonical JSON-able form of a Python object returned by a tag object"""
    try:
        from mutagen.mp4 import MP4FreeForm, MP4Cover
        if isinstance(x, MP4FreeForm):
            return ["ff", bytes(x).hex(), int(x.dataformat), int(x.version)]
        if isinstance(x, MP4Cover):
            return ["cover", bytes(x).hex(), int(x.imageformat)]
    except ImportError:
        pass
    if isinstance(x, bool):
        return ["B", x]
    if isinstance(x, int):
        return ["i", x]
    if isinstance(x, float):
        return ["f", x.hex()]
    if isinstance(x, str):
        return ["s", x]
    if isinstance(x, bytes):
        return ["b", x.hex()]
    if x is None:
        return ["n"]
    if isinstance(x, list):
        return ["l", [cv(y) for y in x]]
    if isinstance(x, tuple):
        return ["t", [cv(y) for y in x]]
    mod = type(x).__module__
    if mod.startswith("mutagen.apev2"):
        v = x.value
        return ["ape", x.kind, v.hex() if isinstance(v, bytes) else v]
    if mod.startswith("mutagen.asf"):
        return ["asf", x.TYPE, cv(x.value)]
    if mod.startswith("mutagen.id3"):
        return ["frame", repr(x)]
    return ["obj", type(x).__name__, repr(x)]


_cd_cache = {}


def cd(d):
    """canonical form of the object a descriptor stands for"""
    import json
    k = json.dumps(d)
    if k not in _cd_cache:
        _cd_cache[k] = cv(mk(d))
    return _cd_cache[k]


def frame_hashkey(d):
    return FRAME_SPECS[d[1]][2]


def truthy(d):
    t = d[0]
    if t in ("s", "b"):
        return d[1] != ""
    if t == "i":
        return d[1] != 0
    if t == "B":
        return bool(d[1])
    if t == "f":
        return d[1] != 0
    if t == "n":
        return False
    if t in ("l", "t"):
        return len(d[1]) > 0
    return True


def pystr(d):
    """str(obj) for the simple descriptors (how ID3 text specs coerce items)"""
    t = d[0]
    if t == "s":
        return d[1]
    if t == "i":
        return str(d[1])
    if t == "n":
        return "None"
    if t == "B":
        return "True" if d[1] else "False"
    if t == "f":
        return repr(float(d[1]))
    raise ValueError("pystr %r" % (d,))


def exc_class(e):
    """canonical exception class (first documented base that applies)"""
    for c in (KeyError, ValueError, TypeError, AttributeError, IndexError):
        if isinstance(e, c):
            return c.__name__
    return type(e).__name__
