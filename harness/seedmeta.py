#!/usr/bin/env python3
"""Record in seeded/<id>_<k>/meta.json what seedcheck.sh observed (development aid; reads /tmp/seedres/<id>_<k>.txt)."""
import json, os, re, sys, glob
V = os.path.dirname(os.path.dirname(os.path.abspath(__file__)))
res = sys.argv[1] if len(sys.argv) > 1 else "/tmp/seedres"
for d in sorted(glob.glob(os.path.join(V, "seeded", "*"))):
    name = os.path.basename(d)
    rp = os.path.join(res, name + ".txt")
    mp = os.path.join(d, "meta.json")
    if not os.path.exists(rp) or not os.path.exists(mp):
        continue
    txt = open(rp).read()
    m = json.load(open(mp))
    suite = re.search(r"suite\(changed\): (.*)", txt)
    dc = re.search(r"demo changed exit=(\d+) : (.*)", txt)
    dk = re.search(r"demo clean   exit=(\d+)", txt)
    caught, how, weak = [], "", []
    for c in re.finditer(r"check (C\d+) rc=(\d+) (\d+)s violations=(\d+) nofail=(\d+)", txt):
        pid, rc, secs, nv, nf = c.group(1), int(c.group(2)), int(c.group(3)), int(c.group(4)), int(c.group(5))
        if rc != 0 and nv > nf:
            caught.append(pid)
        elif rc != 0:
            weak.append(pid)
    f = re.search(r"first: (.*)", txt)
    if f:
        how = f.group(1).strip()
    m["ran"] = ["git apply patch.diff in a scratch worktree of /repo (HEAD with the fix: commits)",
                "upstream test suite on the changed tree: %s" % (suite.group(1) if suite else "?"),
                "demo.py on the changed tree: exit %s (%s); on the unchanged tree: exit %s" % (dc.group(1) if dc else "?", (dc.group(2)[:200] if dc else ""), dk.group(1) if dk else "?"),
                "VERIF_REPO=<worktree> ./check %s quick" % m.get("property")]
    m["caught_by"] = caught
    m["caught_only_as_broken_obligation"] = weak
    m["how"] = how if (caught or weak) else "MISSED by the quick tier"
    json.dump(m, open(mp, "w"), indent=1, ensure_ascii=False)
    print(name, "caught" if caught else ("weak" if weak else "MISSED"), how[:100])
