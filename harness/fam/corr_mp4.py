"""Correspondence of the MP4 family model (coq/model/Fam_mp4.v, extracted) with mutagen.mp4.

For every save / fresh / delete / moddelete step of the shared engine on kind MP4:
  * the ilst atom mutagen rendered is taken from st.after with the independent walker (the item codecs are not part of
    the model: the model is about the surgery around the rendered ilst);
  * model mp4_save(st.before, ilst, padding mode) / mp4_delete(st.before) must equal st.after byte for byte (and raise
    the same exception class); the (info.padding, info.size) pair handed to the callback must be what the model saw;
  * st.after must be well-formed for the model (mp4_wf, and the model's independent stack walker mp4_walk), and the
    model's offset reader must list the same chunk offsets / tfhd base offsets as the Python walker;
  * the model's mirror of mutagen's lenient atom reader (mp4_tree) must equal mutagen's Atoms tree on st.before.
Also a small library (layout encoding, model calls, tree/region helpers) shared with harness/props/c10.py."""
import io, struct
from common import hx, unhx, zs, zp
from . import walkers as W

KINDS = {"MP4"}
LIMIT = 300_000
MODES = {"default": "default", "none": "default", "zero": "c0", "one": "c1", "odd": "c" + zs(777),
         "large": "c" + zs(50000), "keep": "keep"}
ILST_PATH = (b"moov", b"udta", b"meta", b"ilst")
EMPTY_ILST = b"\x00\x00\x00\x08ilst"


# ------------------------------------------------------------------ independent helpers (walker based)
def first_path(atoms, names):
    """first-match path lookup on the walker's tree: list of atoms or None"""
    out, cur = [], atoms
    for n in names:
        a = next((x for x in cur if x["name"] == n), None) if cur is not None else None
        if a is None:
            return None
        out.append(a)
        cur = a["children"]
    return out


def ilst_of(data):
    """bytes of moov.udta.meta.ilst, or None"""
    try:
        atoms = W.mp4_atoms(data)
    except W.Bad:
        return None
    p = first_path(atoms, ILST_PATH)
    if p is None:
        return None
    a = p[-1]
    return data[a["off"]:a["off"] + a["size"]]


def region_of(data):
    """(offset, length) of ilst plus the one adjacent free atom (the one behind ilst wins, where save writes its padding),
    independent reading"""
    atoms = W.mp4_atoms(data)
    p = first_path(atoms, ILST_PATH)
    if p is None:
        return None
    meta, ilst = p[-2], p[-1]
    sib = meta["children"]
    i = sib.index(ilst)
    if i + 1 < len(sib) and sib[i + 1]["name"] == b"free":
        return ilst["off"], ilst["size"] + sib[i + 1]["size"]
    if i > 0 and sib[i - 1]["name"] == b"free":
        return sib[i - 1]["off"], sib[i - 1]["size"] + ilst["size"]
    return ilst["off"], ilst["size"]


def scratch_ilst(tags):
    """the ilst atom mutagen renders for a tags object: save it into a minimal scratch file and cut the ilst out"""
    def at(n, p):
        return struct.pack(">I4s", len(p) + 8, n) + p
    scratch = at(b"ftyp", b"isom\0\0\0\0") + at(b"moov", at(b"udta", at(b"meta", b"\0\0\0\0" + at(b"ilst", b""))))
    b = io.BytesIO(scratch)
    tags.save(b, padding=lambda info: 0)
    out = b.getvalue()
    # the ilst is written at the position of the old one (44 = ftyp 16 + moov 8 + udta 8 + meta 12); its own header gives its size
    n = struct.unpack(">I", out[44:48])[0]
    return out[44:44 + n] if out[48:52] == b"ilst" and n >= 8 else None


def mutagen_tree(data):
    """mutagen's own Atoms tree in the model's dump format, or 'raise <Name>'"""
    from mutagen.mp4._atom import Atoms, AtomError
    def dump(a):
        s = "%s@%s+%s/%s" % (hx(a.name), zs(a.offset), zs(a.length), zs(a._dataoffset - a.offset))
        if a.children is not None:
            s += "(" + ",".join(dump(c) for c in a.children) + ")"
        return s
    try:
        at = Atoms(io.BytesIO(data))
    except AtomError:
        return "raise MutagenError"
    return "ok " + (",".join(dump(a) for a in at.atoms) or "-")


# ------------------------------------------------------------------ model calls
def enc_layout(l):
    """l: dict(moov_first, udta, udta_first, udta_extra, meta=[('h',)|('i',)|('f',n)|('o',n)], ilst, traks=[(co64, soun, [rel])],
    moofs=[(tf_flags, rel, tail)], mdat, big, topfree, size0, mdat2)"""
    meta = ",".join(m[0] + (zs(m[1]) if len(m) > 1 else "") for m in l["meta"]) or "-"
    traks = ",".join(("c" if c else "s") + ("a" if s else "v") + ":" + "/".join(zs(e) for e in es) for c, s, es in l["traks"]) or "-"
    moofs = ",".join("%s:%s:%s" % (zs(int(fl)), zs(rel), zs(tail)) for fl, rel, tail in l["moofs"]) or "-"
    return [str(int(l["moov_first"])), zs(l["udta"]), str(int(l["udta_first"])), zs(l["udta_extra"]), meta, hx(l["ilst"]),
            traks, moofs, hx(l["mdat"]), zs(l["big"]), zs(l["topfree"]), str(int(l["size0"])), hx(l.get("mdat2", b""))]


def model_build(ctx, l):
    r = ctx.model.call("mp4_build", *enc_layout(l))
    if not r.startswith("ok "):
        raise RuntimeError("mp4_build: " + r[:200])
    _, d, base = r.split(" ")
    return unhx(d), zp(base)


def model_save(ctx, before, ilst, mode):
    """-> ('ok', bytes, (p, s) | None)  |  ('raise', name, (p, s) | None)  |  ('error', text, None)"""
    r = ctx.model.call("mp4_save", hx(before), hx(ilst), mode)
    parts = r.split(" ")
    if parts[0] not in ("ok", "raise") or len(parts) != 4:
        return "error", r[:200], None
    seen = None if parts[2] == "-" else (zp(parts[2]), zp(parts[3]))
    return parts[0], (unhx(parts[1]) if parts[0] == "ok" else parts[1]), seen


def model_delete(ctx, before):
    r = ctx.model.call("mp4_delete", hx(before))
    parts = r.split(" ")
    if parts[0] == "ok":
        return "ok", unhx(parts[1])
    if parts[0] == "raise":
        return "raise", parts[1]
    return "error", r[:200]


def model_offsets(ctx, data):
    """-> list of (kind bytes, atom offset, index, value) in the walker's format, or None when the model rejects the file"""
    r = ctx.model.call("mp4_offsets", hx(data))
    if not r.startswith("ok "):
        return None
    if r == "ok -":
        return []
    out = []
    for e in r[3:].split(","):
        k, a, i, v = [zp(x) for x in e.split(":")]
        out.append(({4: b"stco", 8: b"co64", 0: b"tfhd"}[k], a, i, v))
    return out


def exc_name(st_exc):
    if st_exc is None:
        return None
    return "MutagenError" if st_exc[0] == "MutagenError" else st_exc[1]


def first_diff(a, b):
    return next((i for i in range(min(len(a), len(b))) if a[i] != b[i]), min(len(a), len(b)))


def compare(ctx, what, status, val, after, exc, data):
    want = exc_name(exc)
    if status == "error":
        ctx.disagree("fam.mp4", "%s: model error" % what, dict(data, reply=val))
        return False
    if status == "raise":
        if want is None:
            ctx.disagree("fam.mp4", "%s: model raises %s, mutagen succeeds" % (what, val), data)
        elif val != want and not (val == "struct.error" and want == "error"):
            ctx.disagree("fam.mp4", "%s: model raises %s, mutagen raises %s" % (what, val, want), data)
        return False
    if want is not None:
        ctx.disagree("fam.mp4", "%s: mutagen raises %s, model succeeds" % (what, want), data)
        return False
    if val != after:
        k = first_diff(val, after)
        ctx.disagree("fam.mp4", "%s: file bytes differ" % what,
                     dict(data, model_len=len(val), impl_len=len(after), first_diff=k,
                          model_at=val[max(0, k - 4):k + 12].hex(), impl_at=after[max(0, k - 4):k + 12].hex()))
        return False
    return True


def check_after(ctx, what, after, data):
    """the bytes mutagen wrote are well-formed for the model, both model walkers agree, offsets agree with the Python walker"""
    r = ctx.model.call("mp4_wf", hx(after))
    try:
        w = W.mp4(after)
    except W.Bad as e:
        w = None
    if (r == "ok 1") != (w is not None):
        ctx.disagree("fam.mp4", "%s: model mp4_wf and the Python walker disagree on the written file" % what,
                     dict(data, model=r, walker="ok" if w is not None else "Bad"))
        return
    r2 = ctx.model.call("mp4_walk", hx(after))
    if r2.startswith("ok ") != (w is not None):
        ctx.disagree("fam.mp4", "%s: model stack walker and the Python walker disagree" % what, dict(data, model=r2))
    if w is not None:
        mo = model_offsets(ctx, after)
        po = sorted(w["extra"]["offsets"], key=lambda e: (e[1], e[2]))
        if mo is None or sorted(mo, key=lambda e: (e[1], e[2])) != po:
            ctx.disagree("fam.mp4", "%s: model offset reader differs from the Python walker" % what,
                         dict(data, model=str(mo)[:200], walker=str(po)[:200]))


def insertion_region(before):
    """(offset, 0): where __save_new puts the new atoms: data start of moov.udta, else of moov (independent reading)"""
    atoms = W.mp4_atoms(before)
    p = first_path(atoms, (b"moov", b"udta")) or first_path(atoms, (b"moov",))
    if p is None:
        return None
    a = p[-1]
    return a["off"] + a["hdr"], 0


WHAT_MEDIA = "C02 MP4: a chunk offset / tfhd base offset no longer addresses the same media bytes"
WHAT_SHAPE = "C02 MP4: offset tables changed shape"


def media_oracle(ctx, kind, st, data):
    """direct oracle on the implementation (independent walker only): every stco/co64 entry and tfhd base offset is resolved
    before and after the operation; those behind the replaced region must have moved with the data (and address the same
    bytes up to the end of their top-level atom), those not past its start must be unchanged"""
    wb, wa = st.wbefore, st.wafter
    if wb is None or wa is None or st.exc is not None or st.after == st.before:
        return
    try:
        reg = region_of(st.before) or insertion_region(st.before)
        atoms0 = W.mp4_atoms(st.before)
    except W.Bad:
        return
    if reg is None:
        return
    ctx.oracle_cases += 1
    o0s, o1s = wb["extra"]["offsets"], wa["extra"]["offsets"]
    if [(k, i) for k, _, i, _ in o0s] != [(k, i) for k, _, i, _ in o1s]:
        ctx.violation("oracle", WHAT_SHAPE, dict(data, **{"class": "tables"}, before=len(o0s), after=len(o1s)))
        return
    off, old = reg
    delta = len(st.after) - len(st.before)
    for (k, at0, i, o0), (_, at1, _, o1) in zip(o0s, o1s):
        bad = False
        if o0 < off or (o0 == off and old > 0):
            bad = o1 != o0
        elif o0 >= off + old:
            ta = next((a for a in atoms0 if a["off"] <= o0 < a["off"] + a["size"]), None)
            n = ta["off"] + ta["size"] - o0 if ta is not None and ta["name"] not in (b"moov", b"moof") else 0
            bad = o1 != o0 + delta or st.before[o0:o0 + n] != st.after[o1:o1 + n]
        if bad:
            ctx.violation("oracle", WHAT_MEDIA, dict(data, **{"class": "media"}, entry=[k.decode(), at0, i, o0, o1], region=[off, old],
                                                      delta=delta, expected=o0 if (o0 < off or (o0 == off and old > 0)) else o0 + delta))
            return


def check_step(ctx, kind, st):
    if st.op not in ("save", "fresh", "delete", "moddelete"):
        return
    media_oracle(ctx, kind, st, {"runner": "fam.corr_mp4", "kind": kind.name, "op": st.brief(), "before_len": len(st.before),
                                 "before_sha": __import__("hashlib").sha1(st.before).hexdigest()[:12]})
    if len(st.before) > LIMIT:
        ctx.count("mp4:skipped-large")
        return
    data = {"kind": kind.name, "op": st.brief(), "before_len": len(st.before)}
    # the mirror of mutagen's atom reader
    t = ctx.model.call("mp4_tree", hx(st.before))
    mt = mutagen_tree(st.before)
    ctx.corr_cases += 1
    if t != mt:
        ctx.disagree("fam.mp4", "atom tree of the model's mirror parser differs from mutagen's Atoms", dict(data, model=t[:300], impl=mt[:300]))
        return
    if st.op in ("save", "fresh"):
        mode = MODES[st.arg if st.op == "save" else "none"]
        ilst = ilst_of(st.after) if st.exc is None else None
        if ilst is None:
            if st.exc is None and st.after == st.before:
                ctx.count("mp4:save-without-tags")
            else:
                ctx.count("mp4:skipped-no-ilst")
            return
        status, val, seen = model_save(ctx, st.before, ilst, mode)
        ctx.corr_cases += 1
        ctx.count("mp4:corr-save")
        ok = compare(ctx, "save(%s)" % st.arg, status, val, st.after, st.exc, data)
        if st.op == "save" and st.arg != "none" and st.cb and seen is not None:
            # (info.padding, info.size) as the callback saw them, whatever it returned
            if seen != tuple(st.cb[0][:2]):
                ctx.disagree("fam.mp4", "padding callback arguments differ", dict(data, model=seen, impl=st.cb[0][:2]))
    else:
        # module delete(): fresh load, no-op without an ilst.  obj.delete(): MP4Tags.delete = clear + save(padding 0) when
        # the live object has tags (also tags added in memory only: then the empty structure is CREATED), no-op otherwise
        if st.op == "delete" and ilst_of(st.before) is None and st.exc is None:
            if st.after == st.before:
                ctx.count("mp4:delete-without-tags")
                return
            status, val, _ = model_save(ctx, st.before, EMPTY_ILST, "c0")
        else:
            status, val = model_delete(ctx, st.before)
        ctx.corr_cases += 1
        ctx.count("mp4:corr-delete")
        compare(ctx, st.op, status, val, st.after, st.exc, data)
    if st.exc is None:
        check_after(ctx, st.brief(), st.after, data)
