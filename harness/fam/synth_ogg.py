"""Ogg layouts built from scratch with an own page writer (RFC 3533 lacing, checksum by walkers.ogg_crc; no mutagen
code): layouts that encoders and other taggers produce but neither tests/data nor mutagen's own 4 KiB pagination has --
 * libogg-style paging: a comment packet of several KiB in ONE page, the next header packet starting on the same page
   and continuing on the following one;
 * a comment packet spanning several pages of its own and ending exactly on a page boundary (last lacing value 0), the
   next packet on a fresh page;
 * OpusTags packets with data behind the comment list (RFC 7845 5.2): opaque data to preserve (first byte odd) and
   padding that is not made of zero bytes (first byte even);
 * FLAC-in-Ogg with the VORBIS_COMMENT block as the last metadata block, and with further blocks behind it.
Only the identification packet is taken from a real sample (so that the stream information is realistic)."""
import struct
from . import walkers as W


def pattern(n, a=7, b=3, m=251):
    return bytes((i * a + b) % m for i in range(n))


def page(serial, seq, flags, pos, pieces, complete=True):
    """one page: `pieces` are the packet pieces it carries; the last one is left open (no terminating lacing value)
    when complete is False -- it must then fill whole 255-byte segments"""
    lac = b""
    for i, pk in enumerate(pieces):
        q, r = divmod(len(pk), 255)
        lac += b"\xff" * q
        if complete or i < len(pieces) - 1:
            lac += bytes([r])
        else:
            assert r == 0 and q > 0, "an unfinished piece fills whole segments"
    assert len(lac) <= 255, "too many segments for one page"
    head = b"OggS" + struct.pack("<BBqIII", 0, flags, pos, serial, seq, 0) + bytes([len(lac)]) + lac
    raw = head + b"".join(pieces)
    return raw[:22] + struct.pack("<I", W.ogg_crc(raw)) + raw[26:]


def stream(serial, plan, seq0=0):
    return b"".join(stream_pages(serial, plan, seq0))


def stream_pages(serial, plan, seq0=0):
    """plan: [(pieces, complete, granule or None)] for the consecutive pages of one logical stream.  Derived: the
    continued flag (previous page left a packet open), first/last-page flags, granule -1 on pages finishing no packet"""
    out = []
    open_ = False
    for i, (pieces, complete, pos) in enumerate(plan):
        flags = (1 if open_ else 0) | (2 if i == 0 else 0) | (4 if i == len(plan) - 1 else 0)
        finishes = len(pieces) - (0 if complete else 1)
        if pos is None:
            pos = 0
        if finishes == 0:
            pos = -1
        out.append(page(serial, seq0 + i, flags, pos, pieces, complete))
        open_ = not complete
    return out


FOREIGN_SERIAL = 0x0F0E1234


def interleave(pages, ncomment):
    """multiplex a second logical stream (unknown codec: a BOS page, complete data pages, an EOS page) into the page list of
    a stream whose pages 1 .. ncomment carry the comment packet: both BOS pages first (RFC 3533), then one COMPLETE foreign
    page between every two consecutive pages of the comment packet, the rest of the foreign stream behind the headers"""
    plan = [([b"fishead\x00" + pattern(56, 11, 5)], True, 0)]
    for j in range(max(ncomment - 1, 1)):
        plan.append(([pattern(300 + 17 * j, 3, j), pattern(40, 9, j)], True, 100 * (j + 1)))
    plan += [([pattern(120, 13, 1)], True, 900), ([b"end of the foreign stream"], True, 1000)]
    fp = stream_pages(FOREIGN_SERIAL, plan)
    out = [pages[0], fp[0]]
    k = 1
    for i in range(1, ncomment + 1):
        out.append(pages[i])
        if i < ncomment:
            out.append(fp[k]); k += 1
    rest = pages[ncomment + 1:]
    out += rest[:1] + fp[k:-1] + rest[1:] + fp[-1:]
    return b"".join(out)


def split_pages(packet, size=4080):
    """a packet on pages of its own: full pages of `size` bytes (a multiple of 255) left open, then the rest -- when
    the packet ends exactly on a page boundary the last page still carries the terminating 0 lacing value"""
    assert size % 255 == 0
    plan = []
    while len(packet) > size:
        plan.append(([packet[:size]], False, None))
        packet = packet[size:]
    if len(packet) == size and size // 255 == 255:
        plan.append(([packet], False, None))
        packet = b""
    plan.append(([packet], True, 0))
    return plan


def vcomment(vendor, items):
    out = struct.pack("<I", len(vendor)) + vendor + struct.pack("<I", len(items))
    for it in items:
        out += struct.pack("<I", len(it)) + it
    return out


def first_packet(d):
    """the first packet of the first page (identification header)"""
    pg = W.ogg_pages(d)[0]
    n = 0
    for l in pg["lac"]:
        n += l
        if l < 255:
            break
    return pg["body"][:n]


IDENT = {"vorbis": b"\x01vorbis", "opus": b"OpusHead", "speex": b"Speex   ", "theora": b"\x80theora", "flac": b"\x7fFLAC"}


def ident_packet(d, codec):
    """the identification packet of the first logical stream of the codec (None: there is none)"""
    for pg in W.ogg_pages(d):
        if pg["flags"] & 2 and pg["body"].startswith(IDENT[codec]):
            n = 0
            for l in pg["lac"]:
                n += l
                if l < 255:
                    break
            return pg["body"][:n]
    return None


PREFIX = {"vorbis": b"\x03vorbis", "theora": b"\x81theora", "opus": b"OpusTags", "speex": b""}
SETUP = {"vorbis": b"\x05vorbis", "theora": b"\x82theora"}
ITEMS = [b"TITLE=layout title", b"ARTIST=somebody", b"COMMENT=" + b"c" * 60]


def comment_packet(codec, vendor, items, total=None, trailer=b""):
    """prefix + comment list (+ framing bit) + trailer, zero padded up to `total` bytes"""
    pk = PREFIX[codec] + vcomment(vendor, items) + (b"\x01" if codec == "vorbis" else b"") + trailer
    if total is not None:
        assert total >= len(pk)
        pk += bytes(total - len(pk))
    return pk


def audio_plan(codec, n=5, per_page=3):
    """a few small data packets on complete pages with increasing granule positions"""
    head = b"\xff\xf8" if codec == "flac" else b""
    pk = [head + pattern(90 + 31 * j, 5, j, 253) for j in range(n)]
    plan = []
    for i in range(0, n, per_page):
        g = (i + per_page) * (2 if codec == "theora" else 48000)
        plan.append((pk[i:i + per_page], True, g))
    return plan


def headers_shared_page(codec, ident, comment, setup_len=3553, serial=0x1234ABCD, first_part=3060):
    """libogg-style: [ident] [comment, setup part one ...][... setup part two] audio.  The comment packet is complete
    inside its page; the page ends in an unfinished packet"""
    setup = SETUP[codec] + pattern(setup_len - 7)
    assert first_part % 255 == 0 and 0 < first_part < len(setup)
    plan = [([ident], True, 0), ([comment, setup[:first_part]], False, 0), ([setup[first_part:]], True, 0)]
    return stream(serial, plan + audio_plan(codec))


def foreign_page_one(pages, codec, bos_first):
    """multiplex a second logical stream (unknown codec) so that ITS page number 1 -- a complete page, its packet starting
    with the bytes a comment header of `codec` starts with -- lies between the first page of the stream `pages` and that
    stream's comment page: first pages of both streams first (RFC 3533; the foreign one in front when bos_first), then
    the foreign page 1, then the remaining headers"""
    plan = [([b"fishead\x00" + pattern(56, 11, 5)], True, 0),
            ([PREFIX.get(codec, b"") + pattern(180, 3, 2), pattern(40, 9, 1)], True, 100),
            ([pattern(120, 13, 1)], True, 900), ([b"end of the foreign stream"], True, 1000)]
    fp = stream_pages(FOREIGN_SERIAL, plan)
    head = [fp[0], pages[0]] if bos_first else [pages[0], fp[0]]
    return b"".join(head + [fp[1]] + pages[1:3] + [fp[2]] + pages[3:] + [fp[3]])


def _mux(pages, ncomment, codec, foreign):
    if foreign == "page1":
        return foreign_page_one(pages, codec, False)
    if foreign == "page1-bos-first":
        return foreign_page_one(pages, codec, True)
    return interleave(pages, ncomment) if foreign else b"".join(pages)


def headers_own_pages(codec, ident, comment, serial=0x0BADCAFE, setup_len=700, page_size=4080, foreign=False):
    """[ident] [comment on pages of its own ...] [setup on a fresh page] audio; codecs without setup header: audio follows.
    foreign: a second logical stream multiplexed in, one of its pages between every two pages of the comment packet"""
    cp = split_pages(comment, page_size)
    plan = [([ident], True, 0)] + cp
    if codec in SETUP:
        plan.append(([SETUP[codec] + pattern(setup_len - 7, 13, 0, 256)], True, 0))
    pages = stream_pages(serial, plan + audio_plan(codec))
    return _mux(pages, len(cp), codec, foreign)


def flac_ident(ident, count):
    return ident[:7] + struct.pack(">H", count) + ident[9:]


def flac_block(typ, payload, last=False):
    return bytes([typ | (0x80 if last else 0)]) + len(payload).to_bytes(3, "big") + payload


def oggflac(ident, vendor, items, behind=(), serial=0x0F1AC0DE, comment_pages=False, foreign=False):
    """[mapping header + STREAMINFO] [VORBIS_COMMENT block] [further blocks ...] audio; the final block is flagged last.
    behind: [(type, payload)]"""
    blocks = [flac_block(4, vcomment(vendor, items), last=not behind)]
    for i, (t, pl) in enumerate(behind):
        blocks.append(flac_block(t, pl, last=(i == len(behind) - 1)))
    plan = [([flac_ident(ident, len(blocks))], True, 0)]
    cp = split_pages(blocks[0]) if comment_pages else [([blocks[0]], True, 0)]
    plan += cp
    for b in blocks[1:]:
        plan.append(([b], True, 0))
    pages = stream_pages(serial, plan + audio_plan("flac"))
    return _mux(pages, len(cp), "flac", foreign)


VENDOR = b"Xiph.Org libVorbis I 20200704"


def vorbis_text_theora(vorbis_ident, theora_ident):
    """three logical streams as in Ogg video with subtitles: Vorbis, a text stream, Theora.  All first pages come first
    (RFC 3533); the Vorbis one lies inside the first 128 bytes of the file, the Theora one starts behind them"""
    v = stream_pages(0x56565601, [([vorbis_ident], True, 0), ([comment_packet("vorbis", VENDOR, ITEMS, 700)], True, 0),
                                  ([SETUP["vorbis"] + pattern(500, 13, 0, 256)], True, 0)] + audio_plan("vorbis"))
    x = stream_pages(0x58585802, [([b"fishead\x00" + pattern(56, 11, 5)], True, 0), ([pattern(200, 3, 1)], True, 10), ([b"end"], True, 20)])
    t = stream_pages(0x54545403, [([theora_ident], True, 0), ([comment_packet("theora", b"Xiph.Org libtheora 1.1", ITEMS[:1], 300),
                                                              SETUP["theora"] + pattern(400)], True, 0)] + audio_plan("theora"))
    assert len(v[0]) + len(x[0]) >= 128 > len(v[0])
    return b"".join([v[0], x[0], t[0], v[1], t[1], v[2], x[1]] + v[3:-1] + t[2:] + x[2:] + v[-1:])
OPAQUE = b"\xde\xad\xbe\xef opaque \x00\x01\x02 extension data\xfe"
# padding per RFC 7845 5.2 (first byte even) that is neither zero-filled nor zero at its first byte
STALE = b"\x02\x00ALBUM=Stale-Tail-of-an-older-comment" + bytes(24)


def opus_file(ident, trailer, vendor=b"libopus 1.3, layout", items=ITEMS, total=None, serial=0x0C08C08):
    return headers_own_pages("opus", ident, comment_packet("opus", vendor, items, total, trailer), serial=serial, page_size=65025)


def layouts(kind, base):
    """-> [(name, bytes)] extra samples of an Ogg kind (deterministic)"""
    out = []
    if not base:
        return out
    name0, d0 = base[0]
    c = kind.codec
    ident = ident_packet(d0, c)
    if ident is None:
        return out
    # two logical streams; the comment packet spans two pages and a complete page of the OTHER stream lies between them
    if c == "flac":
        out.append(("layout-foreign-page-inside-comment+" + name0,
                    oggflac(ident, b"reference libFLAC 1.3.2 20170101", ITEMS + [b"COVERART=" + b"QUJD" * 1100], behind=[(1, bytes(64))],
                            comment_pages=True, foreign=True)))
    else:
        out.append(("layout-foreign-page-inside-comment+" + name0,
                    headers_own_pages(c, ident, comment_packet(c, VENDOR, ITEMS, 4080 + 700), foreign=True)))
    if c == "vorbis":
        out.append(("layout-shared-page+" + name0, headers_shared_page(c, ident, comment_packet(c, VENDOR, ITEMS, 7000))))
        # the padded comment packet fills 2 * 4080 bytes exactly: pages [4080 open][4080 + terminating 0]
        out.append(("layout-own-pages-boundary+" + name0, headers_own_pages(c, ident, comment_packet(c, VENDOR, ITEMS, 8160))))
    if c == "opus":
        out.append(("layout-trailer-opaque+" + name0, opus_file(ident, b"\x81" + OPAQUE)))
        out.append(("layout-trailer-stale-padding+" + name0, opus_file(ident, STALE)))
    if c == "flac":
        fv = b"reference libFLAC 1.3.2 20170101"
        out.append(("layout-comment-last-block+" + name0, oggflac(ident, fv, ITEMS)))
        out.append(("layout-blocks-behind-comment+" + name0,
                    oggflac(ident, fv, ITEMS, behind=[(2, b"aPpL" + pattern(40)), (1, bytes(300))])))
    # the OTHER stream's page number 1 lies between the first page of the tagged stream and its comment page
    for how in ("page1", "page1-bos-first"):
        nm = "layout-foreign-%s-before-comment+%s" % (how, name0)
        if c == "flac":
            out.append((nm, oggflac(ident, b"reference libFLAC 1.3.2 20170101", ITEMS, behind=[(1, bytes(64))], foreign=how)))
        else:
            out.append((nm, headers_own_pages(c, ident, comment_packet(c, VENDOR, ITEMS, 600), foreign=how)))
    return out
