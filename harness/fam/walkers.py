"""Independent container walkers / validators / tag decoders (no mutagen import).
Each walker is a strict reading of the container layout.  `walk(family, data)` returns
  {"foreign": [(label, bytes) ...]   everything a tag edit must leave byte-identical and in order,
   "tags":    canonical independent decoding of the tag region (family specific) or None,
   "padding": measured padding bytes in the tag region (None if the format has none),
   "extra":   family specific (offset tables, streams ...)}
and raises Bad when a structural rule of the container is violated (C03's F_wf)."""
import struct, zlib


class Bad(Exception):
    pass


def need(cond, msg):
    if not cond:
        raise Bad(msg)


def syncsafe(b):
    return (b[0] << 21) | (b[1] << 14) | (b[2] << 7) | b[3]


# ---------------------------------------------------------------- Vorbis comment
def vc_decode(d, framing=False):
    """-> (vendor bytes, [(key bytes, value bytes)], bytes consumed)"""
    p = 0
    need(len(d) >= 4, "vc: short vendor length")
    n = int.from_bytes(d[p:p + 4], "little"); p += 4
    need(p + n <= len(d), "vc: vendor overruns")
    vendor = d[p:p + n]; p += n
    need(p + 4 <= len(d), "vc: short count")
    cnt = int.from_bytes(d[p:p + 4], "little"); p += 4
    items = []
    for i in range(cnt):
        need(p + 4 <= len(d), "vc: short item length")
        n = int.from_bytes(d[p:p + 4], "little"); p += 4
        need(p + n <= len(d), "vc: item overruns")
        it = d[p:p + n]; p += n
        need(b"=" in it, "vc: item without '='")
        k, v = it.split(b"=", 1)
        items.append((k, v))
    if framing:
        need(p < len(d) and d[p] & 1, "vc: framing bit missing")
        p += 1
    return vendor, items, p


# ---------------------------------------------------------------- ID3v2 / ID3v1
def id3v2_walk(d, where="id3"):
    """d starts with the tag. -> dict(version, size (10+body), frames [(id, flags, payload)], padding)"""
    need(len(d) >= 10 and d[:3] == b"ID3", where + ": no ID3 header")
    ver, rev, flags = d[3], d[4], d[5]
    need(ver in (2, 3, 4), where + ": version %d" % ver)
    need(all(b < 0x80 for b in d[6:10]), where + ": tag size not syncsafe")
    size = syncsafe(d[6:10])
    need(10 + size <= len(d), where + ": tag overruns its container (%d > %d)" % (10 + size, len(d)))
    body = d[10:10 + size]
    if flags & 0x80 and ver < 4:
        body = unsynch_decode(body)
    p = 0
    if flags & 0x40 and ver >= 3:
        # extended header
        if ver == 4:
            n = syncsafe(body[0:4]); p = n
        else:
            n = int.from_bytes(body[0:4], "big"); p = 4 + n
    frames = []
    hl = 6 if ver == 2 else 10
    while p + hl <= len(body):
        if body[p] == 0:
            break
        if ver == 2:
            fid = body[p:p + 3]; n = int.from_bytes(body[p + 3:p + 6], "big"); fl = 0
        else:
            fid = body[p:p + 4]
            raw = body[p + 4:p + 8]
            if ver == 4:
                need(all(b < 0x80 for b in raw), where + ": v2.4 frame size not syncsafe at %d" % p)
                n = syncsafe(raw)
            else:
                n = int.from_bytes(raw, "big")
            fl = int.from_bytes(body[p + 8:p + 10], "big")
        need(all((65 <= c <= 90) or (48 <= c <= 57) for c in fid), where + ": bad frame id %r at %d" % (fid, p))
        need(p + hl + n <= len(body), where + ": frame %r overruns tag" % fid)
        need(n > 0, where + ": empty frame %r" % fid)
        frames.append((fid.decode("ascii"), fl, body[p + hl:p + hl + n]))
        p += hl + n
    pad = body[p:]
    need(not pad.strip(b"\x00"), where + ": non-zero bytes after the last frame")
    return dict(version=ver, flags=flags, size=10 + size, frames=frames, padding=len(pad))


def unsynch_decode(b):
    out = bytearray(); i = 0
    while i < len(b):
        out.append(b[i])
        if b[i] == 0xFF and i + 1 < len(b) and b[i + 1] == 0:
            i += 1
        i += 1
    return bytes(out)


def _dec_text(enc, b):
    codec = {0: "latin-1", 1: "utf-16", 2: "utf-16-be", 3: "utf-8"}[enc]
    return b.decode(codec)


def _split_term(enc, b):
    """split at the first terminator of the encoding -> (head, rest)"""
    if enc in (0, 3):
        i = b.find(b"\x00")
        return (b, b"") if i < 0 else (b[:i], b[i + 1:])
    i = 0
    while i + 1 < len(b):
        if b[i] == 0 and b[i + 1] == 0:
            return b[:i], b[i + 2:]
        i += 2
    return b, b""


def _text_list(enc, b):
    out = []
    rest = b
    while True:
        head, rest2 = _split_term(enc, rest)
        out.append(_dec_text(enc, head))
        if not rest2 and (len(head) == len(rest)):
            break
        rest = rest2
        if not rest:
            break
    return out


def id3_frame_decode(fid, ver, fl, payload):
    """independent decoding of the frame kinds the whole-file generators use; None if not covered"""
    if ver == 4 and fl & 0x000F or ver == 3 and fl & 0x00C0:
        return None
    try:
        if fid[0] == "T" and fid not in ("TXXX",):
            enc = payload[0]
            return ("T", fid, enc, _text_list(enc, payload[1:]))
        if fid == "TXXX":
            enc = payload[0]
            desc, rest = _split_term(enc, payload[1:])
            return ("TXXX", enc, _dec_text(enc, desc), _text_list(enc, rest))
        if fid == "COMM" or fid == "USLT":
            enc = payload[0]; lang = payload[1:4]
            desc, rest = _split_term(enc, payload[4:])
            vals = _text_list(enc, rest) if fid == "COMM" else [_dec_text(enc, rest)]
            return (fid, enc, lang, _dec_text(enc, desc), vals)
        if fid == "APIC":
            enc = payload[0]
            mime, rest = _split_term(0, payload[1:])
            typ = rest[0]
            desc, data = _split_term(enc, rest[1:])
            return ("APIC", enc, mime.decode("latin-1"), typ, _dec_text(enc, desc), data)
        if fid == "PRIV":
            owner, data = _split_term(0, payload)
            return ("PRIV", owner.decode("latin-1"), data)
        if fid == "UFID":
            owner, data = _split_term(0, payload)
            return ("UFID", owner.decode("latin-1"), data)
        if fid == "POPM":
            email, rest = _split_term(0, payload)
            return ("POPM", email.decode("latin-1"), rest[0], int.from_bytes(rest[1:], "big") if len(rest) > 1 else None)
    except (IndexError, UnicodeDecodeError, KeyError):
        raise Bad("id3: frame %s does not decode under the specification layout" % fid)
    return None


def id3v1_at_end(d):
    """an ID3v1 tag: the last 128 bytes start with TAG -- unless the file ends with an APEv2 footer
    (then those bytes belong to the APEv2 tag) or the TAG is the middle of an APETAGEX preamble"""
    if len(d) < 128 or d[-128:-125] != b"TAG":
        return False
    if d[-32:-24] == b"APETAGEX":
        return False
    if len(d) >= 131 and d[-131:-123] == b"APETAGEX":
        return False
    return True


# ---------------------------------------------------------------- FLAC
def flac_picture_decode(pl):
    """METADATA_BLOCK_PICTURE per the FLAC format specification; raises Bad when the inner lengths do not fit the block"""
    p = 0

    def u32():
        nonlocal p
        need(p + 4 <= len(pl), "picture: truncated field")
        v = int.from_bytes(pl[p:p + 4], "big"); p += 4
        return v

    def take(n):
        nonlocal p
        need(p + n <= len(pl), "picture: %d bytes announced, %d left" % (n, len(pl) - p))
        v = pl[p:p + n]; p += n
        return v
    typ = u32()
    mime = take(u32())
    try:
        desc = take(u32()).decode("utf-8")
    except UnicodeDecodeError as e:
        raise Bad("picture: description is not UTF-8 (%s)" % e)
    w, h, depth, colors = u32(), u32(), u32(), u32()
    data = take(u32())
    need(p == len(pl), "picture: %d bytes of slack after the picture data" % (len(pl) - p))
    return (typ, mime.decode("latin-1"), desc, w, h, depth, colors, data)


def flac(d):
    off = 0
    id3 = None
    if d[:3] == b"ID3":
        need(len(d) >= 10, "flac: short id3 header")
        need(all(b < 0x80 for b in d[6:10]), "flac: id3 prefix size not syncsafe")
        off = 10 + syncsafe(d[6:10])
        id3 = d[:off]
    need(d[off:off + 4] == b"fLaC", "flac: no fLaC at %d" % off)
    p = off + 4
    blocks = []
    last = False
    while not last:
        need(p + 4 <= len(d), "flac: truncated block header (no block carries the last-block flag?)")
        h = d[p]; last = bool(h & 0x80); t = h & 0x7F
        n = int.from_bytes(d[p + 1:p + 4], "big")
        need(t != 127, "flac: invalid block type 127")
        need(p + 4 + n <= len(d), "flac: block %d overruns file" % t)
        blocks.append((t, d[p + 4:p + 4 + n])); p += 4 + n
    need(blocks and blocks[0][0] == 0, "flac: STREAMINFO not first")
    need(len(blocks[0][1]) == 34, "flac: STREAMINFO size")
    audio = d[p:]
    # the audio must start with a frame sync code if present (catches a missing last flag)
    if audio:
        need(audio[0] == 0xFF and (audio[1] & 0xFC) == 0xF8, "flac: no frame sync after the last metadata block")
    tags = None
    foreign = [("id3-prefix", id3 or b"")]
    seen_vc = False
    padding = 0
    more_vc = []
    for t, pl in blocks:
        if t == 4 and not seen_vc:
            seen_vc = True
            vendor, items, used = vc_decode(pl)
            need(used == len(pl), "flac: slack after vorbis comment")
            tags = dict(vendor=vendor, items=items)
        elif t == 4:
            # further comment blocks (tolerated by readers) are tag data too, not foreign data
            vendor2, items2, used2 = vc_decode(pl)
            need(used2 == len(pl), "flac: slack after vorbis comment")
            more_vc.append(pl)
        elif t == 1:
            padding += len(pl)
            need(not pl.strip(b"\x00"), "flac: non-zero padding block")
        else:
            if t == 6:
                flac_picture_decode(pl)      # the inner length fields must add up to the block length
            foreign.append(("block%d" % t, pl))
    foreign.append(("audio", audio))
    npad = sum(1 for t, _ in blocks if t == 1)
    return dict(foreign=foreign, tags=tags, padding=padding, extra=dict(blocks=[t for t, _ in blocks], npad=npad, more_vc=more_vc,
                                                                         tag_region=(off + 4, p)))


# ---------------------------------------------------------------- Ogg
def _crc_table():
    t = []
    for i in range(256):
        r = i << 24
        for _ in range(8):
            r = ((r << 1) ^ 0x04C11DB7) if r & 0x80000000 else (r << 1)
        t.append(r & 0xFFFFFFFF)
    return t


_T = _crc_table()


def ogg_crc(b):
    c = 0
    for x in b:
        c = ((c << 8) & 0xFFFFFFFF) ^ _T[((c >> 24) ^ x) & 0xFF]
    return c


def ogg_pages(d):
    p = 0
    pages = []
    while p < len(d):
        need(d[p:p + 4] == b"OggS", "ogg: no OggS at %d" % p)
        need(p + 27 <= len(d), "ogg: truncated page header")
        ver, flags, pos, serial, seq, crc, nseg = struct.unpack("<BBqIIIB", d[p + 4:p + 27])
        need(ver == 0, "ogg: version")
        lac = d[p + 27:p + 27 + nseg]
        need(len(lac) == nseg, "ogg: truncated lacing")
        n = sum(lac)
        body = d[p + 27 + nseg:p + 27 + nseg + n]
        need(len(body) == n, "ogg: truncated body")
        raw = d[p:p + 27 + nseg + n]
        need(ogg_crc(raw[:22] + b"\0\0\0\0" + raw[26:]) == crc, "ogg: bad checksum on page at %d (serial %d seq %d)" % (p, serial, seq))
        pages.append(dict(flags=flags, pos=pos, serial=serial, seq=seq, lac=list(lac), body=body, raw=raw, off=p))
        p += 27 + nseg + n
    return pages


def oggflac_headers(pk):
    """FLAC-in-Ogg mapping (xiph.org/flac/ogg_mapping.html): packet 0 = 0x7F "FLAC" major minor <number of further
    header packets, 16 bit BE, 0 = unknown> "fLaC" + the STREAMINFO metadata block; every further header packet is ONE
    metadata block (4-byte header: last flag | type, 24-bit length).  Declared lengths equal the packet extents, exactly
    the final metadata block carries the last-block flag and the header-packet count agrees with where that block is.
    -> number of header packets behind packet 0"""
    p0 = pk[0]
    need(len(p0) >= 13 + 4 and p0[9:13] == b"fLaC", "oggflac: mapping header without the fLaC marker")
    need(p0[5] == 1, "oggflac: mapping version %d.%d" % (p0[5], p0[6]))
    count = int.from_bytes(p0[7:9], "big")
    blocks = [p0[13:]]
    i = 1
    while not blocks[-1][0] & 0x80:
        if count and i > count:
            break               # reported below: the announced header packets end without a flagged block
        need(i < len(pk), "oggflac: no metadata block carries the last-block flag (%d header packets walked)" % (i - 1))
        need(len(pk[i]) >= 4, "oggflac: header packet %d shorter than a block header" % i)
        blocks.append(pk[i]); i += 1
    for j, b in enumerate(blocks):
        t = b[0] & 0x7F
        need(t != 127, "oggflac: invalid block type 127 in header packet %d" % j)
        n = int.from_bytes(b[1:4], "big")
        need(n == len(b) - 4, "oggflac: block %d declares %d bytes, its packet holds %d" % (j, n, len(b) - 4))
    need(blocks[0][0] & 0x7F == 0 and len(blocks[0]) == 38, "oggflac: first metadata block is not a 34-byte STREAMINFO")
    nhead = len(blocks) - 1
    flags = [bool(b[0] & 0x80) for b in blocks]
    need(flags == [False] * nhead + [True], "oggflac: last-metadata-block flags %r: not exactly the final block flagged" %
         "".join("1" if x else "0" for x in flags))
    if count:
        need(nhead == count, "oggflac: mapping header announces %d header packets, the flagged last block is number %d" % (count, nhead))
    if len(pk) > 1 + nhead:
        a = pk[1 + nhead]
        need(len(a) >= 2 and a[0] == 0xFF and (a[1] & 0xFC) == 0xF8, "oggflac: no frame sync in the packet after the last metadata block")
    return nhead


def ogg(d, codec=None):
    pages = ogg_pages(d)
    streams = {}
    order = []
    for pgidx, pg in enumerate(pages):
        s = pg["serial"]
        if s not in streams:
            streams[s] = dict(seq=None, packets=[], partial=None, pages=[], eos=False, pkpages=[], curpg=[])
            order.append(s)
            need(pg["flags"] & 2, "ogg: first page of serial %d lacks the first-page flag" % s)
        else:
            need(not pg["flags"] & 2, "ogg: first-page flag on a later page of serial %d" % s)
        st = streams[s]
        need(not st["eos"], "ogg: page after the last-page flag in serial %d" % s)
        if st["seq"] is not None:
            need(pg["seq"] == st["seq"] + 1, "ogg: sequence gap in serial %d: %d after %d" % (s, pg["seq"], st["seq"]))
        st["seq"] = pg["seq"]
        st["pages"].append(pg)
        cont = bool(pg["flags"] & 1)
        need(cont == (st["partial"] is not None), "ogg: continuation flag mismatch serial %d seq %d" % (s, pg["seq"]))
        cur = st["partial"]
        q = 0
        finished = 0
        for l in pg["lac"]:
            if cur is None:
                cur = b""
            cur += pg["body"][q:q + l]; q += l
            if not st["curpg"] or st["curpg"][-1] != pgidx:
                st["curpg"].append(pgidx)
            if l < 255:
                st["packets"].append(cur); cur = None; finished += 1
                st["pkpages"].append(st["curpg"]); st["curpg"] = []
        st["partial"] = cur
        if finished == 0 and pg["lac"]:
            need(pg["pos"] == -1, "ogg: page finishing no packet has a granule position (serial %d seq %d)" % (s, pg["seq"]))
        if pg["flags"] & 4:
            st["eos"] = True
    # locate the comment packet of the tagged stream
    tagged = None
    tags = None
    padding = None
    prefixes = {"vorbis": b"\x03vorbis", "opus": b"OpusTags", "theora": b"\x81theora"}
    foreign = []
    comment_pages = None
    for s in order:
        st = streams[s]
        pk = st["packets"]
        kind = None
        if pk:
            if pk[0].startswith(b"\x01vorbis"): kind = "vorbis"
            elif pk[0].startswith(b"OpusHead"): kind = "opus"
            elif pk[0].startswith(b"Speex   "): kind = "speex"
            elif pk[0].startswith(b"\x80theora"): kind = "theora"
            elif pk[0].startswith(b"\x7fFLAC"): kind = "flac"
        st["kind"] = kind
        if tagged is None and kind is not None and (codec is None or kind == codec) and len(pk) > 1:
            tagged = s
            c = pk[1]
            trailer = b""
            comment_pages = list(st["pkpages"][1])
            if kind in prefixes:
                need(c.startswith(prefixes[kind]), "ogg: second packet of %s stream is not its comment header" % kind)
                body = c[len(prefixes[kind]):]
                vendor, items, used = vc_decode(body, framing=(kind == "vorbis"))
                rest = body[used:]
                if kind == "opus":
                    # RFC 7845 5.2: what follows the comment list is opaque data editors preserve when the least
                    # significant bit of its first byte is set, and padding (of any content) otherwise
                    if rest and (rest[0] & 1):
                        padding = None
                        trailer = rest
                    else:
                        padding = len(rest)
                else:
                    need(not rest.strip(b"\x00"), "ogg: non-zero bytes after the comment in %s" % kind)
                    padding = len(rest)
            elif kind == "speex":
                vendor, items, used = vc_decode(c)
                rest = c[used:]
                need(not rest.strip(b"\x00"), "ogg: non-zero bytes after the speex comment")
                padding = len(rest)
            else:  # flac: 4-byte metadata block header + VC
                oggflac_headers(pk)
                need((c[0] & 0x7F) == 4, "oggflac: second packet is not a VORBIS_COMMENT block")
                n = int.from_bytes(c[1:4], "big")
                need(n == len(c) - 4, "oggflac: block size %d != packet payload %d" % (n, len(c) - 4))
                vendor, items, used = vc_decode(c[4:])
                need(used == len(c) - 4, "oggflac: slack after comment")
                padding = None
            tags = dict(vendor=vendor, items=items)
            foreign.append(("serial%d-packets" % s, b"".join(struct.pack("<I", len(x)) + x for i, x in enumerate(pk) if i != 1)))
            foreign.append(("serial%d-partial" % s, st["partial"] or b""))
            foreign.append(("serial%d-lastgranule" % s, struct.pack("<q", max([pg["pos"] for pg in st["pages"] if pg["pos"] != -1] or [-1]))))
            foreign.append(("serial%d-flags" % s, bytes([st["pages"][0]["flags"] & 2, st["pages"][-1]["flags"] & 4])))
            if kind == "opus":
                # data behind the comment list that editors have to preserve (empty: none)
                foreign.append(("serial%d-comment-trailer" % s, trailer))
        else:
            foreign.append(("serial%d-pages" % s, b"".join(pg["raw"] for pg in st["pages"])))
    # relative order of the pages of the untouched serials
    foreign.append(("other-order", b"".join(struct.pack("<II", pg["serial"], pg["seq"]) for pg in pages if pg["serial"] != tagged)))
    return dict(foreign=foreign, tags=tags, padding=padding, extra=dict(tagged=tagged, npages=len(pages),
                comment_pages=comment_pages, geometry=[(pg["off"], len(pg["raw"])) for pg in pages]))


# ---------------------------------------------------------------- ID3 at file start (+ID3v1 at end), APEv2
def id3file(d):
    off = 0
    tags = None
    padding = None
    if d[:3] == b"ID3":
        t = id3v2_walk(d, "id3")
        off = t["size"]
        tags = t
        padding = t["padding"]
    end = len(d)
    v1 = None
    if id3v1_at_end(d) and end - 128 >= off:
        v1 = d[-128:]
        end -= 128
    return dict(foreign=[("body", d[off:end])], tags=tags, padding=padding, extra=dict(v1=v1, tag_region=(0, off)))


def ape_locate(d):
    """-> (start, end, items_start, items_end, count) of an APEv2 tag at the end of the file (before an ID3v1 tag), or None"""
    end = len(d)
    if id3v1_at_end(d):
        end -= 128
    if end >= 32 and d[end - 32:end - 24] == b"APETAGEX":
        ver, size, items, flags = struct.unpack("<4I", d[end - 24:end - 8])
        need(size >= 32, "ape: footer size < 32")
        has_header = bool(flags & (1 << 31))
        start = end - size - (32 if has_header else 0)
        need(start >= 0, "ape: tag larger than file")
        if has_header:
            need(d[start:start + 8] == b"APETAGEX", "ape: header missing")
            v2, s2, i2, f2 = struct.unpack("<4I", d[start + 8:start + 24])
            need((v2, s2, i2) == (ver, size, items), "ape: header and footer disagree")
            need(f2 & (1 << 29), "ape: header lacks the is-header flag")
        need(not flags & (1 << 29), "ape: footer carries the is-header flag")
        return start, end, end - size, end - 32, items
    return None


def ape_items(d, a, b, count):
    p = a
    items = []
    for i in range(count):
        need(p + 8 <= b, "ape: item header overruns")
        n, fl = struct.unpack("<II", d[p:p + 8]); p += 8
        z = d.find(b"\x00", p, b)
        need(z >= 0, "ape: unterminated key")
        key = d[p:z]; p = z + 1
        need(2 <= len(key) <= 255 and all(0x20 <= c <= 0x7E for c in key), "ape: invalid key %r" % key)
        need(p + n <= b, "ape: value overruns")
        items.append((key, (fl >> 1) & 3, d[p:p + n])); p += n
    need(p == b, "ape: items do not tile the tag body (%d != %d)" % (p, b))
    return items


def apefile(d):
    loc = ape_locate(d)
    if loc is None:
        end = len(d) - (128 if id3v1_at_end(d) else 0)
        return dict(foreign=[("body", d[:end])], tags=None, padding=None, extra=dict(v1=id3v1_at_end(d), tag_region=None))
    start, end, a, b, count = loc
    items = ape_items(d, a, b, count)
    body = d[:start]
    v1_before = False
    if id3v1_at_end(body):
        # mutagen appends a new APEv2 tag behind an existing ID3v1 tag; the ID3v1 tag is not audio
        body = body[:-128]
        v1_before = True
    return dict(foreign=[("body", body)], tags=items, padding=None, extra=dict(v1=len(d) > end, v1_before=v1_before, tag_region=(start, end)))


# ---------------------------------------------------------------- MP4
MP4_CONT = {b"moov", b"udta", b"trak", b"mdia", b"meta", b"ilst", b"stbl", b"minf", b"moof", b"traf"}


def mp4_atoms(d, start=0, end=None, path=()):
    end = len(d) if end is None else end
    out = []
    p = start
    while p < end:
        need(p + 8 <= end, "mp4: %d stray bytes at the end of %s" % (end - p, b"/".join(path).decode("latin-1") or "file"))
        size, name = struct.unpack(">I4s", d[p:p + 8]); hdr = 8
        if size == 1:
            need(p + 16 <= end, "mp4: truncated 64-bit size")
            size = struct.unpack(">Q", d[p + 8:p + 16])[0]; hdr = 16
        elif size == 0:
            need(not path, "mp4: size 0 atom below top level")
            size = end - p
        need(size >= hdr and p + size <= end, "mp4: atom %r at %d size %d exceeds its parent (end %d)" % (name, p, size, end))
        a = dict(name=name, off=p, size=size, hdr=hdr, path=path + (name,), children=None)
        if name in MP4_CONT and not (name == b"ilst" and False):
            skip = 4 if name == b"meta" else 0
            if name == b"ilst":
                a["children"] = mp4_atoms(d, p + hdr, p + size, path + (name,))
            else:
                a["children"] = mp4_atoms(d, p + hdr + skip, p + size, path + (name,))
        out.append(a); p += size
    return out


def mp4_flat(atoms):
    for a in atoms:
        yield a
        if a["children"] is not None:
            yield from mp4_flat(a["children"])


def mp4_offsets(d, atoms):
    offs = []
    for a in mp4_flat(atoms):
        body = d[a["off"] + a["hdr"]:a["off"] + a["size"]]
        if a["name"] in (b"stco", b"co64"):
            n = struct.unpack(">I", body[4:8])[0]
            w = 4 if a["name"] == b"stco" else 8
            need(8 + n * w <= len(body), "mp4: %r table overruns its atom" % a["name"])
            for i in range(n):
                offs.append((a["name"], a["off"], i, int.from_bytes(body[8 + i * w:8 + i * w + w], "big")))
        if a["name"] == b"tfhd":
            fl = int.from_bytes(body[1:4], "big")
            if fl & 1:
                offs.append((b"tfhd", a["off"], 0, int.from_bytes(body[8:16], "big")))
    return offs


def mp4(d):
    atoms = mp4_atoms(d)
    ilst_path = (b"moov", b"udta", b"meta", b"ilst")
    leaves = []
    tags = None
    padding = 0
    ilst = None
    for a in mp4_flat(atoms):
        if a["path"] == ilst_path and ilst is None:
            ilst = a
    free_adjacent = set()
    tag_end = None
    if ilst is not None:
        tag_end = ilst["off"] + ilst["size"]
        # a free atom directly before or after ilst (siblings under meta) is the tag padding
        meta = [a for a in mp4_flat(atoms) if a["path"] == ilst_path[:-1]][0]
        sib = meta["children"]
        i = sib.index(ilst)
        for j in (i - 1, i + 1):
            if 0 <= j < len(sib) and sib[j]["name"] == b"free":
                free_adjacent.add(sib[j]["off"])
                padding += sib[j]["size"] - sib[j]["hdr"]
                if j == i + 1:
                    tag_end = sib[j]["off"] + sib[j]["size"]
        tags = []
        for c in ilst["children"]:
            body = d[c["off"] + c["hdr"]:c["off"] + c["size"]]
            # children of an item: mean/name/data atoms
            sub = []
            q = 0
            while q + 8 <= len(body):
                n, nm = struct.unpack(">I4s", body[q:q + 8])
                need(n >= 8 and q + n <= len(body), "mp4: item %r child overruns" % c["name"])
                sub.append((nm, body[q + 8:q + n])); q += n
            need(q == len(body), "mp4: slack in ilst item %r" % c["name"])
            tags.append((c["name"], sub))
    for a in mp4_flat(atoms):
        if a["children"] is not None and a["name"] != b"ilst":
            if a["name"] == b"meta":
                leaves.append((a["path"], b"meta-version:" + d[a["off"] + a["hdr"]:a["off"] + a["hdr"] + 4]))
            continue
        if a["path"][:4] == ilst_path:
            continue
        if a["off"] in free_adjacent:
            continue
        body = d[a["off"] + a["hdr"]:a["off"] + a["size"]]
        if a["name"] in (b"stco", b"co64"):
            n = struct.unpack(">I", body[4:8])[0]
            body = body[:8] + b"<%d offsets>" % n
        if a["name"] == b"tfhd":
            fl = int.from_bytes(body[1:4], "big")
            if fl & 1:
                body = body[:8] + b"<base>" + body[16:]
        leaves.append((a["path"], body))
    offs = mp4_offsets(d, atoms)
    for kind, at, i, o in offs:
        need(o <= len(d), "mp4: %s entry %d points beyond the file (%d > %d)" % (kind.decode(), i, o, len(d)))
    foreign = [(b"/".join(p).decode("latin-1"), b) for p, b in leaves]
    return dict(foreign=foreign, tags=tags, padding=padding if ilst is not None else None,
                extra=dict(offsets=offs, media=[d[o:o + 24] for _, _, _, o in offs], top=[a["name"] for a in atoms], tag_end=tag_end))


# ---------------------------------------------------------------- ASF
ASF_HDR = bytes.fromhex("3026B2758E66CF11A6D900AA0062CE6C")
G_CD = bytes.fromhex("3326B2758E66CF11A6D900AA0062CE6C")
G_ECD = bytes.fromhex("40A4D0D207E3D21197F000A0C95EA850")
G_HEXT = bytes.fromhex("B503BF5F2EA9CF118EE300C00C205365")
G_PAD = bytes.fromhex("74D40618DFCA0945A4BA9AABCB96AAE8")
G_META = bytes.fromhex("EACBF8C5AF5B77488467AA8C44FA4CCA")
G_METALIB = bytes.fromhex("941C23449894D149A1411D134E457054")


def _asf_objs(d, p, end, what):
    out = []
    while p < end:
        need(p + 24 <= end, "asf: truncated object header in " + what)
        g = d[p:p + 16]
        n = struct.unpack("<Q", d[p + 16:p + 24])[0]
        need(n >= 24 and p + n <= end, "asf: object overruns " + what)
        out.append((g, d[p + 24:p + n])); p += n
    return out


def _u16(s):
    try:
        return s.decode("utf-16-le")
    except UnicodeDecodeError:
        raise Bad("asf: text is not valid UTF-16-LE")


def _asf_value(t, v):
    if t == 0:
        return ("str", _u16(v).rstrip("\x00") if v else "")
    if t == 1:
        return ("bytes", v)
    if t == 2:
        return ("bool", int.from_bytes(v, "little") != 0)
    if t in (3, 4, 5):
        return ({3: "dword", 4: "qword", 5: "word"}[t], int.from_bytes(v, "little"))
    if t == 6:
        return ("guid", v)
    raise Bad("asf: unknown attribute type %d" % t)


def asf(d):
    need(d[:16] == ASF_HDR, "asf: no header object")
    size, cnt = struct.unpack("<QL", d[16:28])
    need(d[28:30] == b"\x01\x02", "asf: reserved bytes")
    need(size <= len(d), "asf: header larger than file")
    objs = _asf_objs(d, 30, size, "header")
    need(len(objs) == cnt, "asf: header object count %d != %d objects present" % (cnt, len(objs)))
    foreign = []
    tags = []
    padding = 0
    for g, pl in objs:
        if g == G_CD:
            lens = struct.unpack("<5H", pl[:10]); q = 10
            for nm, n in zip(("Title", "Author", "Copyright", "Description", "Rating"), lens):
                if n:
                    tags.append(("CD", nm, 0, 0, ("str", _u16(pl[q:q + n]).rstrip("\x00"))))
                q += n
            need(q == len(pl), "asf: slack in content description")
        elif g == G_ECD:
            n = struct.unpack("<H", pl[:2])[0]; q = 2
            for i in range(n):
                nl = struct.unpack("<H", pl[q:q + 2])[0]; q += 2
                name = _u16(pl[q:q + nl]).rstrip("\x00"); q += nl
                t, vl = struct.unpack("<HH", pl[q:q + 4]); q += 4
                v = pl[q:q + vl]; q += vl
                if t == 2:
                    v = v[:4]
                tags.append(("ECD", name, 0, 0, _asf_value(t, v)))
            need(q == len(pl), "asf: slack in extended content description")
        elif g == G_PAD:
            padding += len(pl)
        elif g == G_HEXT:
            need(len(pl) >= 22, "asf: short header extension")
            n = struct.unpack("<I", pl[18:22])[0]
            need(n == len(pl) - 22, "asf: header extension data size %d != %d" % (n, len(pl) - 22))
            sub = _asf_objs(pl, 22, len(pl), "header extension")
            foreign.append(("hext-fixed", pl[:18]))
            for g2, p2 in sub:
                if g2 in (G_META, G_METALIB):
                    n2 = struct.unpack("<H", p2[:2])[0]; q = 2
                    for i in range(n2):
                        lang, stream, nl, t, vl = struct.unpack("<HHHHI", p2[q:q + 12]); q += 12
                        name = _u16(p2[q:q + nl]).rstrip("\x00"); q += nl
                        v = p2[q:q + vl]; q += vl
                        if t == 2:
                            v = v[:2]
                        tags.append(("META" if g2 == G_META else "LIB", name, lang, stream, _asf_value(t, v)))
                    need(q == len(p2), "asf: slack in metadata object")
                elif g2 == G_PAD:
                    padding += len(p2)      # padding inside the header extension counts as tag padding too
                else:
                    foreign.append(("hext:" + g2.hex(), p2))
        else:
            foreign.append((g.hex(), pl))
    foreign.append(("data", d[size:]))
    return dict(foreign=foreign, tags=tags, padding=padding, extra=dict(header_size=size, count=cnt))


# ---------------------------------------------------------------- IFF family, DSF
def iff(d, kind):
    big = kind in ("aiff", "dff")
    hs = 12 if kind == "dff" else 8

    def rd(p):
        cid = d[p:p + 4]
        if kind == "dff":
            n = struct.unpack(">Q", d[p + 4:p + 12])[0]
        else:
            n = struct.unpack(">I" if big else "<I", d[p + 4:p + 8])[0]
        return cid, n
    need(len(d) >= hs + 4, "iff: short file")
    cid, n = rd(0)
    need(cid == {"aiff": b"FORM", "wave": b"RIFF", "dff": b"FRM8"}[kind], "iff: root id %r" % cid)
    need(hs + n == len(d) or hs + n + (n & 1) == len(d), "iff: root size %d + %d != file size %d" % (n, hs, len(d)))
    p = hs + 4
    end = hs + n
    chunks = []
    tags = None
    padding = None
    foreign = [("form", d[hs:hs + 4])]
    nid3 = 0
    while p < end:
        need(p + hs <= end, "iff: stray bytes at the end of the root chunk")
        c, m = rd(p)
        need(all(0x20 <= x <= 0x7E for x in c) and c[:1] != b" ", "iff: invalid chunk id %r at %d" % (c, p))
        need(p + hs + m <= end, "iff: chunk %r at %d overruns the root chunk" % (c, p))
        body = d[p + hs:p + hs + m]
        if m & 1 and kind != "dff" or (kind == "dff" and m & 1):
            # pad byte must exist inside the root extent unless the chunk is the very last one
            need(p + hs + m + 1 <= len(d) or p + hs + m == len(d), "iff: missing pad byte")
        if c.strip().upper() == b"ID3" and nid3 == 0:
            nid3 += 1
            if body[:3] == b"ID3":
                t = id3v2_walk(body, "id3-chunk")
                tags = t
                padding = t["padding"]
                need(t["size"] == len(body) or not body[t["size"]:].strip(b"\x00"), "iff: junk after the tag inside the ID3 chunk")
            else:
                tags = None
        else:
            foreign.append((c.decode("latin-1"), body))
        p += hs + m + (m & 1)
    need(p == end or p == end + 1, "iff: chunks end at %d, root chunk ends at %d" % (p, end))
    return dict(foreign=foreign, tags=tags, padding=padding, extra=dict(nid3=nid3))


def dsf(d):
    need(d[:4] == b"DSD ", "dsf: no DSD chunk")
    csize, tot, meta = struct.unpack("<QQQ", d[4:28])
    need(csize == 28, "dsf: DSD chunk size %d" % csize)
    need(tot == len(d), "dsf: total file size field %d != actual %d" % (tot, len(d)))
    tags = None
    padding = None
    if meta:
        need(meta <= len(d) and d[meta:meta + 3] == b"ID3", "dsf: metadata pointer %d not at an ID3 header" % meta)
        t = id3v2_walk(d[meta:], "dsf-id3")
        tags = t
        padding = t["padding"]
        need(meta + t["size"] == len(d), "dsf: tag does not run to the end of the file")
    return dict(foreign=[("audio", d[28:meta if meta else len(d)])], tags=tags, padding=padding, extra=dict(pointer=meta))


def walk(family, d, codec=None):
    if family == "flac": return flac(d)
    if family == "ogg": return ogg(d, codec)
    if family == "id3": return id3file(d)
    if family == "ape": return apefile(d)
    if family == "mp4": return mp4(d)
    if family == "asf": return asf(d)
    if family in ("aiff", "wave", "dff"): return iff(d, family)
    if family == "dsf": return dsf(d)
    raise KeyError(family)
