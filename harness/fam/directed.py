"""Directed scenarios of the whole-file properties that the edit-history engine does not reach: tag data set through
auxiliary public APIs (FLAC pictures, the Easy wrappers) and layouts whose judgement needs a by-construction
expectation.  Everything is judged by code of this harness (own block/frame/atom decoders), never by mutagen's readers
alone.  Called once per run from shared.shared_run."""
import io, struct, base64
import mutagen
from . import walkers as W
from . import kinds as KM
from .kinds import KINDS


def _v(ctx, pid, what, data):
    d = {"runner": "fam.directed", "property": pid}
    d.update(data)
    ctx.violation("oracle", "%s %s" % (pid, what), d)


# ------------------------------------------------------------------------------------------ C01: pictures
_pic_decode = W.flac_picture_decode


PICS = [
    (3, "image/png", "front", 1, 2, 24, 0, b"\x89PNG-data"),
    (4, "image/jpeg", "Rückseite", 640, 480, 24, 0, b"\xff\xd8\xff\xe0" + b"j" * 50),
    (0, "-->", "日本語 \U0001F3B5", 0, 0, 0, 0, b"http://example.org/cover"),
    (17, "", "", 7, 7, 1, 2, b""),
]


def c01_pictures(ctx, checks):
    """a picture added through the public API is stored so that an independent decoder (and a reload) gives it back:
    FLAC PICTURE blocks and the base64 METADATA_BLOCK_PICTURE comment of the Ogg formats share one renderer"""
    if "C01" not in checks:
        return
    from mutagen.flac import FLAC, Picture
    kind = KINDS["FLAC"]
    for sample, data in kind.samples():
        if data[:4] != b"fLaC":
            continue
        for k in range(1, len(PICS) + 1):
            want = PICS[:k]
            try:
                o = FLAC(io.BytesIO(data))
                o.clear_pictures()
                for (t, mime, desc, w, h, depth, colors, pd) in want:
                    p = Picture()
                    p.type, p.mime, p.desc, p.width, p.height, p.depth, p.colors, p.data = t, mime, desc, w, h, depth, colors, pd
                    o.add_picture(p)
                b = io.BytesIO(data)
                o.save(b)
                out = b.getvalue()
            except mutagen.MutagenError:
                continue
            ctx.oracle_cases += 1
            ctx.count("c01:flac-pictures")
            ctx.case(("FLAC", sample, "pictures", k))
            d = {"kind": "FLAC", "sample": sample, "pictures": k}
            try:
                w_ = W.flac(out)
                got = [_pic_decode(pl) for lab, pl in w_["foreign"] if lab == "block6"]
            except W.Bad as e:
                _v(ctx, "C01", "FLAC: PICTURE block of the saved file does not decode per the format specification (%s)" % e, d)
                break
            if got != want:
                _v(ctx, "C01", "FLAC: pictures decoded from the saved bytes differ from the pictures that were added", dict(d, got=repr(got)[:200]))
                break
            try:
                re = [(p.type, p.mime, p.desc, p.width, p.height, p.depth, p.colors, bytes(p.data)) for p in FLAC(io.BytesIO(out)).pictures]
            except Exception as e:
                re = ("LOADFAIL", type(e).__name__)
            if re != want:
                _v(ctx, "C01", "FLAC: reloaded pictures differ from the pictures that were added", dict(d, got=repr(re)[:200]))
                break
        break           # one plain FLAC sample is enough: the renderer does not depend on the file
    # the same block, base64 in a Vorbis comment (documented way for Ogg files)
    for kname in ("OggVorbis", "OggOpus"):
        kind = KINDS[kname]
        for sample, data in kind.samples():
            if sample.startswith("synth"):
                continue
            try:
                o = kind.open(io.BytesIO(data))
                vals = []
                for (t, mime, desc, w, h, depth, colors, pd) in PICS:
                    p = Picture()
                    p.type, p.mime, p.desc, p.width, p.height, p.depth, p.colors, p.data = t, mime, desc, w, h, depth, colors, pd
                    vals.append(base64.b64encode(p.write()).decode("ascii"))
                kind.ensure_tags(o)
                o.tags["metadata_block_picture"] = vals
                b = io.BytesIO(data)
                o.save(b)
                w_ = kind.walk(b.getvalue())
            except (mutagen.MutagenError, W.Bad):
                break
            ctx.oracle_cases += 1
            ctx.count("c01:ogg-pictures")
            ctx.case((kname, sample, "pictures"))
            try:
                got = [_pic_decode(base64.b64decode(v)) for k_, v in w_["tags"]["items"] if k_.lower() == b"metadata_block_picture"]
            except W.Bad as e:
                _v(ctx, "C01", "%s: METADATA_BLOCK_PICTURE comment does not decode per the format specification (%s)" % (kname, e), {"kind": kname, "sample": sample})
                break
            if got != PICS:
                _v(ctx, "C01", "%s: pictures decoded from the saved comment differ from the pictures that were rendered" % kname, {"kind": kname, "sample": sample})
            break


def c01_asf_plain_values(ctx, checks):
    """plain Python values set through the tag interface are stored with the attribute type of their Python type
    (bool -> BOOL, int -> DWORD, str -> UNICODE, bytes -> BYTE ARRAY), singly and in lists, and read back so"""
    if "C01" not in checks:
        return
    kind = KINDS["ASF"]
    base = [(s_, d) for s_, d in kind.samples() if not s_.startswith("synth")][:2]
    sets = [("WM/IsCompilation", True, [("bool", True)]), ("WM/Flag0", False, [("bool", False)]), ("WM/Count", 7, [("dword", 7)]),
            ("WM/Zero", 0, [("dword", 0)]), ("WM/One", 1, [("dword", 1)]), ("WM/Max", 2 ** 32 - 1, [("dword", 2 ** 32 - 1)]),
            ("WM/Text", "plain \u00fc", [("str", "plain \u00fc")]), ("WM/Blob", b"\x00\x01\xff", [("bytes", b"\x00\x01\xff")]),
            ("WM/Mixed", [True, 1, "1", b"1", False, 0], [("bool", True), ("dword", 1), ("str", "1"), ("bytes", b"1"), ("bool", False), ("dword", 0)])]
    for sample, data in base:
        try:
            o = kind.open(io.BytesIO(data))
            for k, v, _ in sets:
                o.tags[k] = v
            b = io.BytesIO(data)
            o.save(b)
            w_ = kind.walk(b.getvalue())
        except (mutagen.MutagenError, W.Bad):
            continue
        ctx.oracle_cases += 1
        ctx.count("c01:asf-plain-values")
        ctx.case(("ASF", sample, "plain-values"))
        got = {}
        for _, name, lang, stream, val in w_["tags"]:
            got.setdefault(name, []).append(val)
        for k, v, want in sets:
            if sorted(got.get(k, []), key=repr) != sorted(want, key=repr):
                _v(ctx, "C01", "ASF: a plain Python value is stored with the wrong attribute type or value", {"kind": "ASF", "sample": sample, "key": k,
                   "set": repr(v), "stored": repr(got.get(k))[:200], "expected": repr(want)})
                break


def c01_asf_stream_language(ctx, checks):
    """attributes carrying a stream number and / or a language index keep them, whatever their name: the five names of
    the Content Description Object (which has neither field) included -- judged by the own ASF reader"""
    if "C01" not in checks:
        return
    from mutagen.asf import ASFUnicodeAttribute, ASFDWordAttribute
    kind = KINDS["ASF"]
    base = [(s_, d) for s_, d in kind.samples() if not s_.startswith("synth")][:2]
    names = ["Title", "Author", "Copyright", "Description", "Rating", "WM/AlbumTitle", "QL/Foo"]
    for sample, data in base:
        for stream, lang in ((2, None), (1, None), (127, None), (None, 1), (3, 1), (None, None)):
            try:
                o = kind.open(io.BytesIO(data))
                for i, nm in enumerate(names):
                    kw = {}
                    if stream is not None:
                        kw["stream"] = stream
                    if lang is not None:
                        kw["language"] = lang
                    o.tags[nm] = [ASFUnicodeAttribute("v%d %s" % (i, nm), **kw)]
                b = io.BytesIO(data)
                o.save(b)
                w_ = kind.walk(b.getvalue())
                back = kind.open(io.BytesIO(b.getvalue()))
            except (mutagen.MutagenError, W.Bad):
                continue
            ctx.oracle_cases += 1
            ctx.count("c01:asf-stream-language")
            ctx.case(("ASF", sample, "stream-language", stream, lang))
            got = {}
            for _, name, lg, st, val in w_["tags"]:
                got.setdefault(name, []).append((lg or 0, st or 0, val))
            for i, nm in enumerate(names):
                want = [(lang or 0, stream or 0, ("str", "v%d %s" % (i, nm)))]
                mem = [(getattr(v, "language", None) or 0, getattr(v, "stream", None) or 0, ("str", v.value)) for v in back.tags.get(nm, [])]
                if got.get(nm) != want or mem != want:
                    _v(ctx, "C01", "ASF: an attribute set with a stream number / language index does not come back with them", {"kind": "ASF", "sample": sample, "key": nm,
                       "set": repr(want), "stored": repr(got.get(nm))[:200], "reloaded": repr(mem)[:200]})
                    return


def c01_easy_multivalue(ctx, checks):
    """multi-valued keys through EasyID3: v2.4 keeps the values apart; v2.3 joins them with the chosen separator or keeps them
    apart when the separator is None - judged by an own frame decoder"""
    if "C01" not in checks:
        return
    from mutagen.easyid3 import EasyID3
    vals = {"artist": ["AC/DC", "Bj\u00f6rk", "\u5742\u672c \u9f8d\u4e00"], "title": ["one", "two"], "genre": ["Rock", "Pop/Soul"]}
    fid = {"artist": "TPE1", "title": "TIT2", "genre": "TCON"}
    for v2, sep in ((4, "/"), (3, "/"), (3, None), (3, "; "), (3, "\\")):
        try:
            e = EasyID3()
            for k, v in vals.items():
                e[k] = list(v)
            b = io.BytesIO(b"\xff\xfb\x90\x64" + b"\x00" * 500)
            e.save(b, v2_version=v2, v23_sep=sep)
            t = W.id3v2_walk(b.getvalue())
        except (mutagen.MutagenError, W.Bad):
            continue
        ctx.oracle_cases += 1
        ctx.count("c01:easy-multivalue")
        ctx.case(("EasyID3", v2, sep))
        for k, want in vals.items():
            got = None
            for f, fl, payload in t["frames"]:
                if f == fid[k]:
                    got = W.id3_frame_decode(f, t["version"], fl, payload)
            exp = want if (v2 == 4 or sep is None) else [sep.join(want)]
            txt = list(got[3]) if got else None
            if txt != exp:
                _v(ctx, "C01", "EasyID3: multi-valued key saved as v2.%d with separator %r is not stored as set" % (v2, sep),
                   {"kind": "EasyID3", "key": k, "v2": v2, "sep": repr(sep), "stored": repr(txt)[:200], "expected": repr(exp)[:200]})
                break


# ------------------------------------------------------------------------------------------ C09: Easy wrappers
def c09_easy(ctx, checks):
    """the padding callback is obeyed through the Easy wrappers too (EasyID3 v2.4 and v2.3, EasyMP3, EasyMP4)"""
    if "C09" not in checks:
        return
    from mutagen.easyid3 import EasyID3
    from mutagen.mp3 import EasyMP3
    from mutagen.easymp4 import EasyMP4
    cases = []
    mp3 = [d for s, d in KINDS["MP3"].samples() if not s.startswith("synth")][:2]
    mp4 = [d for s, d in KINDS["MP4"].samples() if not s.startswith("synth")][:2]
    for d in mp3:
        cases += [("EasyID3", EasyID3, d, {}), ("EasyID3-v2.3", EasyID3, d, {"v2_version": 3}), ("EasyMP3", EasyMP3, d, {}),
                  ("EasyMP3-v2.3", EasyMP3, d, {"v2_version": 3})]
    for d in mp4:
        cases += [("EasyMP4", EasyMP4, d, {})]
    for lab, cls, data, kw in cases:
        fam = "mp4" if "MP4" in lab else "id3"
        for title, ret in (("t", 0), ("t" * 300, 777), ("t" * 3000, 1), ("x", 50000), ("y" * 50, "keep")):
            log = []

            def cb(info, ret=ret):
                r = max(info.padding, 0) if ret == "keep" else ret
                log.append((info.padding, info.size, r))
                return r
            try:
                try:
                    o = cls(io.BytesIO(data))
                except mutagen.MutagenError:
                    if cls is not EasyID3:
                        raise
                    o = EasyID3()
                if getattr(o, "tags", o) is None:
                    o.add_tags()
                o["title"] = [title]
                b = io.BytesIO(data)
                o.save(b, padding=cb, **kw)
                out = b.getvalue()
                w_ = W.walk(fam, out)
            except (mutagen.MutagenError, W.Bad):
                continue
            ctx.oracle_cases += 1
            ctx.count("c09:easy")
            ctx.case((lab, len(data), len(title), ret))
            d = {"kind": lab, "title_len": len(title), "returns": ret}
            if len(log) != 1:
                _v(ctx, "C09", "%s: the padding callback was called %d times" % (lab, len(log)), d)
                continue
            if w_["padding"] is not None and w_["padding"] != log[0][2]:
                _v(ctx, "C09", "%s: padding found in the saved file differs from what the callback returned" % lab,
                   dict(d, returned=log[0][2], measured=w_["padding"]))


# ------------------------------------------------------------------------------------------ C02/C08: by construction
def _ape_tag(items):
    from . import synth
    return synth.ape_tag(items)


def c08_ape_stale_fragments(ctx, checks):
    """an APEv2 tag preceded by stale 24-byte header fragments (damage by old PyMusepack versions that mutagen
    repairs): delete removes the tag INCLUDING the fragments - nothing of a tag header stays glued to the audio"""
    if "C08" not in checks and "C02" not in checks:
        return
    from mutagen.apev2 import APEv2, delete as ape_delete
    from . import synth
    tag = synth.ape_tag([(b"Title", b"Stale"), (b"Artist", b"Fragments")])
    frag = tag[:24]
    for kname in ("APEv2", "Musepack", "WavPack"):
        kind = KINDS[kname]
        base = [(s, d) for s, d in kind.samples() if not s.startswith("synth")]
        if not base:
            continue
        body = synth.ape_strip(base[0][1])
        for nfrag in (1, 2, 5):
            data = body + frag * nfrag + tag
            for how in ("method", "function"):
                b = io.BytesIO(data)
                try:
                    if how == "method":
                        kind.open(io.BytesIO(data)).delete(b)
                    else:
                        ape_delete(b)
                except mutagen.MutagenError:
                    continue
                out = b.getvalue()
                ctx.oracle_cases += 1
                ctx.count("c08:ape-stale-fragments")
                ctx.case((kname, nfrag, how))
                d = {"kind": kname, "fragments": nfrag, "how": how}
                if out[:len(body)] != body:
                    _v(ctx, "C02", "%s: audio bytes changed by delete on a tag preceded by stale header fragments" % kname, d)
                elif b"APETAGEX" in out[len(body):]:
                    _v(ctx, "C08", "%s: APEv2 header bytes remain glued to the audio after delete (stale header fragments before the tag)" % kname, d)
                elif len(out) != len(body):
                    _v(ctx, "C08", "%s: delete left %d bytes behind the audio" % (kname, len(out) - len(body)), d)


def c08_id3_delete_options(ctx, checks):
    """ID3 delete with its keyword options, through the method (ID3.delete, EasyID3.delete, FileType tags.delete) and the
    module-level function: the ID3v2 tag goes iff delete_v2, the ID3v1 tag goes iff delete_v1, the audio stays"""
    if "C08" not in checks:
        return
    from mutagen.id3 import ID3, TIT2, delete as id3_delete
    from mutagen.easyid3 import EasyID3
    from mutagen.mp3 import MP3
    mp3 = [d for s_, d in KINDS["MP3"].samples() if not s_.startswith("synth")]
    if not mp3:
        return
    audio = mp3[0]
    if audio[:3] == b"ID3":
        audio = audio[W.id3v2_walk(audio)["size"]:]
    if W.id3v1_at_end(audio):
        audio = audio[:-128]
    t = ID3(); t.add(TIT2(encoding=3, text=["delete options"]))
    b = io.BytesIO(audio); t.save(b, v1=2); tagged = b.getvalue()
    w0 = W.id3file(tagged)
    v2len = w0["extra"]["tag_region"][1]
    for dv1 in (True, False):
        for dv2 in (True, False):
            for how in ("function", "ID3.delete", "EasyID3.delete", "MP3.tags.delete"):
                b = io.BytesIO(tagged)
                try:
                    if how == "function":
                        id3_delete(b, delete_v1=dv1, delete_v2=dv2)
                    elif how == "ID3.delete":
                        ID3(io.BytesIO(tagged)).delete(b, delete_v1=dv1, delete_v2=dv2)
                    elif how == "EasyID3.delete":
                        EasyID3(io.BytesIO(tagged)).delete(b, delete_v1=dv1, delete_v2=dv2)
                    else:
                        MP3(io.BytesIO(tagged)).tags.delete(b, delete_v1=dv1, delete_v2=dv2)
                except mutagen.MutagenError:
                    continue
                except TypeError:
                    continue        # an entry point without these options
                out = b.getvalue()
                ctx.oracle_cases += 1
                ctx.count("c08:id3-delete-options")
                ctx.case(("id3-delete-options", dv1, dv2, how))
                want = (b"" if dv2 else tagged[:v2len]) + audio + (b"" if dv1 else tagged[-128:])
                if out != want:
                    what = []
                    if (out[:3] == b"ID3") != (not dv2):
                        what.append("ID3v2 tag %s" % ("kept although delete_v2" if dv2 else "removed although delete_v2=False"))
                    if W.id3v1_at_end(out) != (not dv1):
                        what.append("ID3v1 tag %s" % ("kept although delete_v1" if dv1 else "removed although delete_v1=False"))
                    _v(ctx, "C08", "ID3: %s(delete_v1=%s, delete_v2=%s) %s" % (how, dv1, dv2, "; ".join(what) or "changed other bytes"),
                       {"kind": "ID3", "how": how, "delete_v1": dv1, "delete_v2": dv2, "len_after": len(out), "len_expected": len(want)})


def c08_tags_delete(ctx, checks):
    """delete through the TAG object (obj.tags.delete(file)) does what obj.delete(file) does, for every kind whose tag class
    has a delete method; and after a delete nothing of the old tag - frames mutagen could not interpret included - comes
    back when the same (now empty) object is saved again"""
    if "C08" not in checks:
        return
    for kname, kind in KINDS.items():
        if kind.is_tagclass:
            continue
        allsamples = kind.samples()
        for sample, data in [x for x in allsamples if not x[0].startswith(("synth", "layout"))][:2] + [x for x in allsamples if x[0].startswith("synth")]:
            try:
                w0 = kind.walk(data)
                o = kind.open(io.BytesIO(data))
            except Exception:
                continue
            t = kind.tags_of(o)
            if t is None or not hasattr(t, "delete") or not engine_has_tags(kind, w0):
                continue
            try:
                b1 = io.BytesIO(data); kind.open(io.BytesIO(data)).delete(b1)
                b2 = io.BytesIO(data); t.delete(b2)
            except mutagen.MutagenError:
                continue
            except TypeError:
                continue
            ctx.oracle_cases += 1
            ctx.count("c08:tags-delete")
            ctx.case((kname, sample, "tags.delete"))
            d = {"kind": kname, "sample": sample}
            if b2.getvalue() != b1.getvalue():
                _v(ctx, "C08", "%s: obj.tags.delete(file) leaves a different file than obj.delete(file)" % kname,
                   dict(d, len_tags_delete=len(b2.getvalue()), len_delete=len(b1.getvalue()), len_before=len(data)))
                continue
            # the emptied object saved again must not bring anything of the old tag back
            try:
                b3 = io.BytesIO(b2.getvalue())
                if kind.tags_of(o) is None:
                    continue
                o.save(b3)
                w3 = kind.walk(b3.getvalue())
            except (mutagen.MutagenError, W.Bad):
                continue
            if kind.style == "id3" and isinstance(w3.get("tags"), dict) and w3["tags"].get("frames"):
                _v(ctx, "C08", "%s: frames of the deleted tag come back when the emptied object is saved again" % kname,
                   dict(d, frames=[f[0] for f in w3["tags"]["frames"]][:8]))


def engine_has_tags(kind, w):
    from .engine import has_tags
    try:
        return has_tags(kind, w)
    except Exception:
        return False


def c07_v23_same_object(ctx, checks):
    """saving as v2.3 is a projection of the in-memory tag, not an edit of it: two v2.3 saves in a row through the SAME object
    (plain ID3 / MP3 and the Easy wrappers, whose save converts a copy and restores it) write identical bytes, and a v2.4
    save afterwards writes what a fresh object writes -- with frames the conversion merges or splits (TIPL+TMCL -> IPLS,
    TDRC -> TYER/TDAT/TIME, TDOR, multi-valued text, CHAP sub-frames)"""
    if "C07" not in checks:
        return
    from mutagen.id3 import ID3, TIPL, TMCL, TDRC, TDOR, TIT2, TPE1, TCON, CHAP, CTOC, TXXX, COMM
    from mutagen.easyid3 import EasyID3
    from mutagen.mp3 import MP3, EasyMP3
    mp3 = [d for s, d in KINDS["MP3"].samples() if not s.startswith("synth")]
    if not mp3:
        return
    audio = mp3[0]
    if audio[:3] == b"ID3":
        audio = audio[W.id3v2_walk(audio)["size"]:]
    if W.id3v1_at_end(audio):
        audio = audio[:-128]

    def frames(n):
        fs = [TIT2(encoding=3, text=["Title"]), TPE1(encoding=3, text=["A", "B"])]
        if n >= 1:
            fs += [TIPL(encoding=3, people=[["producer", "Ann"], ["mix", "Mo"]]), TMCL(encoding=3, people=[["guitar", "Bob"], ["drums", "Cid"]])]
        if n >= 2:
            fs += [TDRC(encoding=3, text=["2003-04-05 12:03:07"]), TDOR(encoding=3, text=["1999-01"]), TCON(encoding=3, text=["Rock", "(17)"]),
                   TXXX(encoding=3, desc="k", text=["v1", "v2"]), COMM(encoding=3, lang="eng", desc="d", text=["c"])]
        if n >= 3:
            fs += [CHAP(element_id="c1", start_time=0, end_time=9, start_offset=0xFFFFFFFF, end_offset=0xFFFFFFFF,
                        sub_frames=[TIT2(encoding=3, text=["ch"]), TIPL(encoding=3, people=[["producer", "Zed"]]), TMCL(encoding=3, people=[["bass", "Yo"]])]),
                   CTOC(element_id="toc", flags=3, child_element_ids=["c1"], sub_frames=[TIT2(encoding=3, text=["toc"])])]
        return fs
    for n in (1, 2, 3):
        t = ID3()
        for f in frames(n):
            t.add(f)
        b0 = io.BytesIO(audio)
        t.save(b0, v1=0)
        data = b0.getvalue()
        for lab, cls in (("ID3", ID3), ("MP3", MP3), ("EasyID3", EasyID3), ("EasyMP3", EasyMP3)):
            d = {"class": lab, "frames": n}
            try:
                o = cls(io.BytesIO(data))
                b = io.BytesIO(data); o.save(b, v2_version=3); s1 = b.getvalue()
                b = io.BytesIO(s1); o.save(b, v2_version=3); s2 = b.getvalue()
                b = io.BytesIO(data); o.save(b); s4 = b.getvalue()
                fresh = cls(io.BytesIO(data))
                b = io.BytesIO(data); fresh.save(b); f4 = b.getvalue()
            except mutagen.MutagenError:
                continue
            except Exception as e:
                _v(ctx, "C07", "%s: v2.3 / v2.4 saves of one object raised %s" % (lab, type(e).__name__), dict(d, error=str(e)[:120]))
                continue
            ctx.oracle_cases += 1
            ctx.count("c07:v23-same-object")
            ctx.case(("c07-v23-same-object", lab, n))
            if s2 != s1:
                _v(ctx, "C07", "%s: a second unmodified v2.3 save through the same object changes the file" % lab, dict(d, len1=len(s1), len2=len(s2)))
            elif s4 != f4:
                _v(ctx, "C07", "%s: after v2.3 saves the same object writes a different v2.4 tag than a fresh object (the conversion leaked into memory)" % lab,
                   dict(d, len_same=len(s4), len_fresh=len(f4)))


def c07_mp4_partial_text_atom(ctx, checks):
    """an ilst text atom whose first data child is fine and whose later child is of a kind mutagen does not read (UTF-16,
    a foreign child atom): an unmodified load+save keeps the WHOLE atom, byte for byte (own atom walker),
    and a second save changes nothing"""
    if "C07" not in checks:
        return
    from . import synth
    kind = KINDS["MP4"]
    base = [(s_, d) for s_, d in kind.samples() if not s_.startswith("synth")]
    variants = [
        ("utf16-second", lambda A, D: A(b"\xa9wrt", D(1, b"first value") + D(2, "second \u00e4".encode("utf-16-be")))),
        ("foreign-child-second", lambda A, D: A(b"\xa9wrt", D(1, b"first value") + A(b"name", b"\x00\x00\x00\x00x"))),
        ("three-children", lambda A, D: A(b"\xa9wrt", D(1, b"one") + D(1, b"two") + D(2, b"\x00t\x00h"))),
    ]
    for lab, mk in variants:
        data = None
        for nm, dd in base:
            try:
                data = synth.mp4_opaque_items(dd, only=mk)
            except Exception:
                data = None
            if data:
                break
        if not data:
            continue
        try:
            items0 = [x for x in W.mp4(data)["tags"] if x[0] == b"\xa9wrt"]
            o = kind.open(io.BytesIO(data))
            b = io.BytesIO(data); o.save(b); d1 = b.getvalue()
            items1 = [x for x in W.mp4(d1)["tags"] if x[0] == b"\xa9wrt"]
            b = io.BytesIO(d1); kind.open(io.BytesIO(d1)).save(b); d2 = b.getvalue()
        except (mutagen.MutagenError, W.Bad) as e:
            _v(ctx, "C07", "MP4: unmodified load+save of a file with a partly readable text atom failed (%s)" % type(e).__name__, {"kind": "MP4", "variant": lab})
            continue
        ctx.oracle_cases += 1
        ctx.count("c07:mp4-partial-text-atom")
        ctx.case(("c07-mp4-partial-text", lab))
        if not items0:
            continue
        if items1 != items0:
            _v(ctx, "C07", "MP4: tag data mutagen cannot interpret lost by an unmodified load+save (text atom with a readable first and an unreadable later value)",
               {"kind": "MP4", "variant": lab, "before": repr(items0)[:300], "after": repr(items1)[:300]})
        elif d2 != d1:
            _v(ctx, "C07", "MP4: second save changes the file (partly readable text atom)", {"kind": "MP4", "variant": lab})


def c02_stale_object(ctx, checks):
    """an object saves into a file that has changed since the object was loaded (retagged through another object, or simply
    another file of the same format): the save goes by what the file holds NOW -- audio and foreign elements of the file
    written to stay byte-identical and in order (independent segmentation), and the file still walks"""
    if "C02" not in checks:
        return
    from .shared import foreign_preserved
    from .engine import safe_walk
    from props.c19 import add_value
    for kname, kind in KINDS.items():
        if kind.is_tagclass:
            continue
        plain = [x for x in kind.samples() if not x[0].startswith(("synth", "layout"))][:2]
        for sample, data in plain:
            w0, err = safe_walk(kind, data)
            if w0 is None:
                continue
            for grow_other, mine in ((6000, 3), (3, 6000), (40000, 300)):
                try:
                    stale = kind.open(io.BytesIO(data))
                    kind.ensure_tags(stale)
                    add_value(kind, stale, mine)
                    other = kind.open(io.BytesIO(data))
                    kind.ensure_tags(other)
                    add_value(kind, other, grow_other)
                    b = io.BytesIO(data); other.save(b); changed = b.getvalue()
                    b = io.BytesIO(changed); stale.save(b); out = b.getvalue()
                except mutagen.MutagenError:
                    continue
                except Exception as e:
                    _v(ctx, "C02", "%s: saving into a file that changed since the object was loaded raised %s" % (kname, type(e).__name__),
                       {"kind": kname, "sample": sample, "other": grow_other, "mine": mine})
                    continue
                ctx.oracle_cases += 1
                ctx.count("c02:stale-object")
                ctx.case(("c02-stale-object", kname, sample, grow_other, mine))
                w1, err = safe_walk(kind, out)
                if w1 is None:
                    _v(ctx, "C02", "%s: foreign/audio data cannot be located after a save into a file that changed since the object was loaded (%s)" % (kname, str(err)[:80]),
                       {"kind": kname, "sample": sample, "other": grow_other, "mine": mine})
                    break
                bad = foreign_preserved(kind, w0, w1)
                if bad:
                    _v(ctx, "C02", "%s: foreign/audio data altered by a save into a file that changed since the object was loaded: %s" % (kname, bad),
                       {"kind": kname, "sample": sample, "other": grow_other, "mine": mine})
                    break


def c02_stray_tag_marker(ctx, checks):
    """audio whose last 131 bytes contain the bytes 'TAG' where no ID3v1 tag can start: no save option may cut or
    overwrite the audio there"""
    if "C02" not in checks:
        return
    from mutagen.id3 import ID3, TIT2
    mp3 = [d for s, d in KINDS["MP3"].samples() if not s.startswith("synth")]
    if not mp3:
        return
    audio0 = mp3[0]
    if audio0[:3] == b"ID3":
        audio0 = audio0[W.id3v2_walk(audio0)["size"]:]
    if W.id3v1_at_end(audio0):
        audio0 = audio0[:-128]
    for back in (5, 40, 100, 123, 129, 130):
        audio = audio0[:-back] + b"TAG" + audio0[len(audio0) - back + 3:] if back > 3 else audio0
        for with_v2 in (False, True):
            for v1 in (0, 1, 2):
                data = audio
                try:
                    if with_v2:
                        t = ID3(); t.add(TIT2(encoding=3, text=["first"]))
                        b0 = io.BytesIO(audio); t.save(b0, v1=0); data = b0.getvalue()
                    t = ID3(); t.add(TIT2(encoding=3, text=["second title"]))
                    b = io.BytesIO(data)
                    t.save(b, v1=v1)
                    out = b.getvalue()
                    w_ = W.id3file(out)
                except (mutagen.MutagenError, W.Bad):
                    continue
                ctx.oracle_cases += 1
                ctx.count("c02:stray-TAG")
                ctx.case(("stray-TAG", back, with_v2, v1))
                rest = out[w_["tag_region"][1] if "tag_region" in w_ else w_["extra"]["tag_region"][1]:]
                ok = rest == audio or (v1 == 2 and rest[:-128] == audio and rest[-128:-125] == b"TAG")
                if not ok:
                    _v(ctx, "C02", "ID3: audio ending near a stray 'TAG' byte sequence was cut or overwritten by save",
                       {"kind": "ID3", "tag_bytes_before_end": back, "had_id3v2": with_v2, "v1": v1, "audio_len": len(audio), "after_len": len(rest)})


# ------------------------------------------------------------------------------------------ Ogg: size-boundary sweeps
def _ogg_ident(kname):
    """identification packet of the first real sample of the kind (None: no sample)"""
    import os
    from . import synth_ogg as SO
    for name in KM.SAMPLES[kname]:
        pth = os.path.join(KM.DATA, name)
        if os.path.exists(pth):
            with open(pth, "rb") as h:
                return SO.ident_packet(h.read(), KINDS[kname].codec)
    return None


def _ogg_multipage(kname, vendor, big):
    """a layout whose comment packet spans two pages of its own and is followed by a packet on a fresh page"""
    from . import synth_ogg as SO
    ident = _ogg_ident(kname)
    if ident is None:
        return None
    items = [b"TITLE=old title", b"COVERART=" + b"QUJD" * (big // 4)]
    c = KINDS[kname].codec
    if c == "flac":
        return SO.oggflac(ident, vendor, items, behind=[(1, bytes(64))], comment_pages=True)
    return SO.headers_own_pages(c, ident, SO.comment_packet(c, vendor, items))


def _ogg_judge(ctx, checks, kind, w0, out, d, expect_items, op):
    """the walker's verdict on the bytes after one operation; -> walker result or None"""
    try:
        w1 = kind.walk(out)
    except W.Bad as e:
        short = str(e)[:80]
        if "C03" in checks:
            _v(ctx, "C03", "%s: file structurally invalid after %s (%s)" % (kind.name, op, short.split(" serial")[0]), dict(d, walker=str(e)[:200]))
        if "C02" in checks:
            _v(ctx, "C02", "%s: other packets cannot be located after %s (%s)" % (kind.name, op, short.split(" serial")[0]), dict(d, walker=str(e)[:200]))
        if op == "delete" and "C08" in checks:
            _v(ctx, "C08", "%s: file cannot be walked after delete (%s)" % (kind.name, short.split(" serial")[0]), dict(d, walker=str(e)[:200]))
        if op == "save" and "C01" in checks:
            _v(ctx, "C01", "%s: saved bytes do not decode under the independent reader (%s)" % (kind.name, short.split(" serial")[0]), dict(d, walker=str(e)[:200]))
        return None
    if w1["foreign"] != w0["foreign"] and "C02" in checks:
        lab = next((a[0] for a, c in zip(w0["foreign"], w1["foreign"]) if a != c), "?")
        _v(ctx, "C02", "%s: packets other than the comment packet altered by %s" % (kind.name, op), dict(d, element=lab))
    got = [(k.lower(), v) for k, v in w1["tags"]["items"]]
    if got != expect_items:
        pid = "C08" if op == "delete" else "C01"
        if pid in checks:
            _v(ctx, pid, "%s: %s" % (kind.name, "tags still present in the file after delete" if op == "delete" else
                                     "independent decoding of the saved bytes differs from what was set"), dict(d, decoded=repr(got)[:160]))
    return w1


def ogg_lacing_sweep(ctx, checks):
    """a comment packet spanning several pages, followed by a packet on a fresh page: the length of the new comment packet
    sweeps a full residue class modulo 255 (padding 0), so every position of its end inside the lacing table of the last
    rewritten page occurs -- for save (title length) and for delete (vendor length, the only free size of an empty
    comment).  Judged by the independent walker: page structure (C03), all other packets and streams (C02), the decoded
    comment (C01 / C08), and a reload"""
    if not {"C01", "C02", "C03", "C08"} & set(checks):
        return
    for kname, nsave, ndel in (("OggVorbis", 256, 256), ("OggFLAC", 256, 0)):
        kind = KINDS[kname]
        # large enough to stay on two pages under mutagen's own pagination (4080 + up to 2048 bytes go into one page)
        data0 = _ogg_multipage(kname, b"sweep vendor", 6400)
        if data0 is None:
            continue
        try:
            w0 = kind.walk(data0)
            kind.open(io.BytesIO(data0))
        except Exception as e:
            ctx.disagree("fam.directed", "ogg_lacing_sweep: layout not usable: %s" % str(e)[:80], {"kind": kname})
            continue
        cur = data0
        big = [(k.lower(), v) for k, v in w0["tags"]["items"] if k != b"TITLE"]
        for n in range(nsave if {"C01", "C02", "C03"} & set(checks) else 0):
            d = {"kind": kname, "layout": "comment on two pages of its own", "op": "save", "title_len": n, "padding": 0}
            try:
                o = kind.open(io.BytesIO(cur))
                o.tags["title"] = ["t" * n]
                b = io.BytesIO(cur)
                o.save(b, padding=lambda info: 0) if kind.padding else o.save(b)
                out = b.getvalue()
            except mutagen.MutagenError:
                continue
            except Exception as e:
                if "C03" in checks:
                    _v(ctx, "C03", "%s: save raised %s on a well-formed file" % (kname, type(e).__name__), d)
                cur = data0
                continue
            ctx.oracle_cases += 1
            ctx.count("ogg:lacing-sweep-save")
            ctx.case((kname, "lacing-sweep", "save", n))
            w1 = _ogg_judge(ctx, checks, kind, w0, out, d, big + [(b"title", b"t" * n)], "save")
            if w1 is None:
                cur = data0
                continue
            if "C01" in checks:
                try:
                    re = kind.open(io.BytesIO(out)).tags.get("title")
                except Exception as e:
                    re = ("LOADFAIL", type(e).__name__)
                if re != ["t" * n]:
                    _v(ctx, "C01", "%s: reloaded tags differ from what was set" % kname, dict(d, reloaded=repr(re)[:80]))
            cur = out
        for n in range(ndel if {"C02", "C03", "C08"} & set(checks) else 0):
            d = {"kind": kname, "layout": "comment on two pages of its own", "op": "delete", "vendor_len": n}
            vendor = (b"vendor string of a sweep " * 11)[:n]
            f0 = _ogg_multipage(kname, vendor, 4400)
            try:
                wf = kind.walk(f0)
                o = kind.open(io.BytesIO(f0))
                b = io.BytesIO(f0)
                o.delete(b)
                out = b.getvalue()
                b2 = io.BytesIO(f0)
                kind.module_delete()(b2)
            except mutagen.MutagenError:
                continue
            except Exception as e:
                if "C03" in checks:
                    _v(ctx, "C03", "%s: delete raised %s on a well-formed file" % (kname, type(e).__name__), d)
                continue
            ctx.oracle_cases += 1
            ctx.count("ogg:lacing-sweep-delete")
            ctx.case((kname, "lacing-sweep", "delete", n))
            if b2.getvalue() != out and "C08" in checks:
                _v(ctx, "C08", "%s: delete() of the module and of the object leave different files" % kname, d)
            w1 = _ogg_judge(ctx, checks, kind, wf, out, d, [], "delete")
            if w1 is None:
                continue
            if "C08" in checks:
                if w1["tags"]["vendor"] != vendor or w1["padding"] not in (None, 0):
                    _v(ctx, "C08", "%s: tag padding left in the file after delete" % kname if w1["padding"] else
                       "%s: vendor string changed by delete" % kname, dict(d, padding=w1["padding"]))
                try:
                    re = list(kind.open(io.BytesIO(out)).tags)
                except Exception as e:
                    re = ("LOADFAIL", type(e).__name__)
                if re != []:
                    _v(ctx, "C08", "%s: file loads with tags after delete" % kname, dict(d, tags=repr(re)[:80]))


TRAILER_MARK = b"Trailer-Mark-7Q"


def _opus_trailer_c09(ctx, kind, f0, w0, odd, d):
    """padding callback on an OpusTags packet with data behind the comment list (classification by the walker)"""
    from .shared import ogg_pages_in_place
    old_title = dict((k.lower(), v) for k, v in w0["tags"]["items"]).get(b"title", b"")
    for ret, growth in ((0, 3), (1, 0), (77, -2), (5001, 0), ("keep", 0), ("keep", 4)):
        title = "T" * (len(old_title) + growth)
        log = []

        def cb(info):
            r = max(info.padding, 0) if ret == "keep" else ret
            log.append((info.padding, info.size, r))
            return r
        dd = dict(d, returns=ret, title_growth=growth)
        try:
            o = kind.open(io.BytesIO(f0))
            o.tags["title"] = [title]
            b = io.BytesIO(f0)
            o.save(b, padding=cb)
            out = b.getvalue()
            w1 = kind.walk(out)
        except (mutagen.MutagenError, W.Bad):
            continue
        ctx.count("ogg:opus-trailer-c09")
        if odd:
            # documented limitation: nothing can be added behind data that has to be preserved
            if log and w1["padding"] not in (None, log[0][2]):
                _v(ctx, "C09", "OggOpus: padding found in the saved file differs from what the callback returned", dict(dd, returned=log[0][2], measured=w1["padding"]))
            continue
        if len(log) != 1:
            _v(ctx, "C09", "OggOpus: the padding callback was called %d times although the comment is followed by padding" % len(log), dd)
            continue
        p_in, _, r = log[0]
        if p_in != w0["padding"] - growth:
            _v(ctx, "C09", "OggOpus: info.padding is not the space left in the old comment packet", dict(dd, info_padding=p_in, old_padding=w0["padding"]))
        if w1["padding"] != r:
            _v(ctx, "C09", "OggOpus: padding found in the saved file differs from what the callback returned", dict(dd, returned=r, measured=w1["padding"]))
        if r == p_in:
            if len(out) != len(f0):
                _v(ctx, "C09", "OggOpus: returning info.padding changed the file size", dict(dd, info_padding=p_in, delta=len(out) - len(f0)))
            else:
                msg = ogg_pages_in_place(w0, w1, f0, out)
                if msg:
                    _v(ctx, "C09", "OggOpus: returning info.padding moved or altered data outside the comment packet", dict(dd, detail=msg))


def ogg_opus_trailer_sweep(ctx, checks):
    """OpusTags packets with data behind the comment list, for every value of its first byte (RFC 7845 5.2): least
    significant bit set = opaque data every operation keeps byte for byte (C07 unmodified save, C02 save / delete);
    clear = padding, of whatever bytes: gone after delete together with anything it contained (C08), and the comment
    still round-trips (C01), and it is padding for the callback too (C09): a save with a callback calls it exactly once
    with info.padding = what is left of the old packet, and what it returns (0 / 1 / 77 / 5001 / info.padding) is what the
    saved packet carries; only for opaque data the callback may stay uncalled (nothing can be added behind it)"""
    if not {"C01", "C02", "C07", "C08", "C09"} & set(checks):
        return
    from . import synth_ogg as SO
    kind = KINDS["OggOpus"]
    ident = _ogg_ident("OggOpus")
    if ident is None:
        return
    for b0 in range(256):
        odd = bool(b0 & 1)
        trailer = bytes([b0]) + b"\x00ALBUM=" + TRAILER_MARK + b"\xfe\x00\x01" + bytes(5)
        f0 = SO.opus_file(ident, trailer)
        d = {"kind": "OggOpus", "layout": "data behind the comment list", "first_byte": b0}
        try:
            w0 = kind.walk(f0)
            items0 = [(k.lower(), v) for k, v in w0["tags"]["items"]]
            outs = {}
            o = kind.open(io.BytesIO(f0))
            b = io.BytesIO(f0); o.save(b); outs["unmodified save"] = b.getvalue()
            o1 = kind.open(io.BytesIO(outs["unmodified save"]))
            b = io.BytesIO(outs["unmodified save"]); o1.save(b); outs["second save"] = b.getvalue()
            o2 = kind.open(io.BytesIO(f0)); o2.tags["title"] = ["new title " + "x" * (b0 % 7)]
            b = io.BytesIO(f0); o2.save(b); outs["save"] = b.getvalue()
            o3 = kind.open(io.BytesIO(f0))
            b = io.BytesIO(f0); o3.delete(b); outs["delete"] = b.getvalue()
            b = io.BytesIO(f0); kind.module_delete()(b); outs["module delete"] = b.getvalue()
        except mutagen.MutagenError:
            continue
        except Exception as e:
            for pid in ("C07", "C08"):
                if pid in checks:
                    _v(ctx, pid, "OggOpus: load/save/delete raised %s on a well-formed file" % type(e).__name__, d)
            continue
        ctx.oracle_cases += 1
        ctx.count("ogg:opus-trailer-" + ("opaque" if odd else "padding"))
        ctx.case(("OggOpus", "trailer", b0))
        if "C09" in checks:
            _opus_trailer_c09(ctx, kind, f0, w0, odd, d)
        for op, out in outs.items():
            dd = dict(d, op=op)
            try:
                w1 = kind.walk(out)
            except W.Bad as e:
                for pid in ("C07", "C02", "C08"):
                    if pid in checks:
                        _v(ctx, pid, "OggOpus: file cannot be walked after %s" % op, dict(dd, walker=str(e)[:160]))
                continue
            same = w1["foreign"] == w0["foreign"]
            items1 = [(k.lower(), v) for k, v in w1["tags"]["items"]]
            if op in ("unmodified save", "second save") and "C07" in checks:
                if not same:
                    lab = next((a[0] for a, c in zip(w0["foreign"], w1["foreign"]) if a != c), "?")
                    _v(ctx, "C07", "OggOpus: data behind the comment list that has to be preserved lost by an unmodified load+save"
                       if "trailer" in lab else "OggOpus: foreign container elements changed by load+save", dict(dd, element=lab))
                if items1 != items0:
                    _v(ctx, "C07", "OggOpus: tags changed by load+save without modification", dd)
                if op == "second save" and out != outs["unmodified save"]:
                    _v(ctx, "C07", "OggOpus: second save changes the file", dd)
                if odd and op == "unmodified save" and out != f0:
                    _v(ctx, "C07", "OggOpus: unmodified load+save rewrote a file whose comment packet admits no padding", dd)
            if op in ("save", "delete", "module delete") and not same and "C02" in checks:
                lab = next((a[0] for a, c in zip(w0["foreign"], w1["foreign"]) if a != c), "?")
                _v(ctx, "C02", "OggOpus: foreign/audio data altered by %s: element %s" % (op.split(" ")[-1], lab.split("-", 1)[-1]), dict(dd, element=lab))
            if op == "save" and "C01" in checks:
                want = [kv for kv in items0 if kv[0] != b"title"] + [(b"title", ("new title " + "x" * (b0 % 7)).encode())]
                if items1 != want:
                    _v(ctx, "C01", "OggOpus: independent decoding of the saved bytes differs from what was set", dict(dd, decoded=repr(items1)[:160]))
            if op in ("delete", "module delete") and "C08" in checks:
                if items1:
                    _v(ctx, "C08", "OggOpus: tags still present in the file after delete", dd)
                if w1["padding"] not in (None, 0):
                    _v(ctx, "C08", "OggOpus: tag padding left in the file after delete", dict(dd, padding=w1["padding"]))
                if not odd and TRAILER_MARK in out:
                    _v(ctx, "C08", "OggOpus: bytes of the old padding remain in the file after delete", dd)
                try:
                    re = list(kind.open(io.BytesIO(out)).tags)
                except Exception as e:
                    re = ("LOADFAIL", type(e).__name__)
                if re != []:
                    _v(ctx, "C08", "OggOpus: file loads with tags after delete", dict(dd, tags=repr(re)[:80]))


def ogg_foreign_paging(ctx, checks):
    """page layouts of other writers (libogg: a comment packet of several KiB inside one page that ends in the unfinished
    setup header; comment on pages of its own ending on a page boundary; one page of up to 65025 bytes) for every Ogg
    kind with padding: edits that fit into the padding, saved with a callback answering info.padding and with the default
    policy.  info.padding is the old padding minus the growth of the comment list; the file keeps its size, every page
    its place, every page without comment data its bytes (C09); the other packets are unchanged (C02); the comment reads
    back (C01)"""
    if not {"C01", "C02", "C09"} & set(checks):
        return
    from . import synth_ogg as SO
    from .shared import ogg_pages_in_place
    for kname in ("OggVorbis", "OggTheora", "OggOpus", "OggSpeex"):
        kind = KINDS[kname]
        c = kind.codec
        ident = _ogg_ident(kname)
        if ident is None:
            continue
        lay = []
        for total in (1400, 7000):
            pk = SO.comment_packet(c, SO.VENDOR, SO.ITEMS, total)
            if c in SO.SETUP:
                lay.append(("shared page, comment of %d bytes" % total, SO.headers_shared_page(c, ident, pk)))
            lay.append(("one page, comment of %d bytes" % total, SO.headers_own_pages(c, ident, pk, page_size=65025)))
        lay.append(("own pages ending on a page boundary", SO.headers_own_pages(c, ident, SO.comment_packet(c, SO.VENDOR, SO.ITEMS, 8160))))
        for lname, f0 in lay:
            try:
                w0 = kind.walk(f0)
                kind.open(io.BytesIO(f0))
            except Exception as e:
                ctx.disagree("fam.directed", "ogg_foreign_paging: layout not usable: %s" % str(e)[:80], {"kind": kname, "layout": lname})
                continue
            old_title = dict(w0["tags"]["items"])[b"TITLE"]
            for delta, policy in ((0, "keep"), (0, "default"), (-5, "keep"), (-5, "default"), (300, "keep"), (300, "default")):
                d = {"kind": kname, "layout": lname, "title_growth": delta, "policy": policy}
                title = "T" * (len(old_title) + delta)
                log = []

                def cb(info):
                    r = info.padding if policy == "keep" else info.get_default_padding()
                    log.append((info.padding, info.size, r))
                    return r
                try:
                    o = kind.open(io.BytesIO(f0))
                    o.tags["title"] = [title]
                    b = io.BytesIO(f0)
                    o.save(b, padding=cb)
                    out = b.getvalue()
                    w1 = kind.walk(out)
                except (mutagen.MutagenError, W.Bad):
                    continue
                ctx.oracle_cases += 1
                ctx.count("ogg:foreign-paging")
                ctx.case((kname, lname, delta, policy))
                if "C02" in checks and w1["foreign"] != w0["foreign"]:
                    lab = next((a[0] for a, c_ in zip(w0["foreign"], w1["foreign"]) if a != c_), "?")
                    _v(ctx, "C02", "%s: packets other than the comment packet altered by save" % kname, dict(d, element=lab))
                if "C01" in checks and dict((k.lower(), v) for k, v in w1["tags"]["items"]).get(b"title") != title.encode():
                    _v(ctx, "C01", "%s: independent decoding of the saved bytes differs from what was set" % kname, d)
                if "C09" not in checks:
                    continue
                if len(log) != 1:
                    _v(ctx, "C09", "%s: the padding callback was called %d times" % (kname, len(log)), d)
                    continue
                p_in, _, r = log[0]
                if p_in != w0["padding"] - delta:
                    _v(ctx, "C09", "%s: info.padding is not the space left in the old comment packet" % kname,
                       dict(d, info_padding=p_in, old_padding=w0["padding"]))
                if w1["padding"] != r:
                    _v(ctx, "C09", "%s: padding found in the saved file differs from what the callback returned" % kname,
                       dict(d, returned=r, measured=w1["padding"]))
                if r == p_in and len(out) != len(f0):
                    _v(ctx, "C09", "%s: returning info.padding changed the file size" % kname, dict(d, info_padding=p_in, delta=len(out) - len(f0)))
                elif r == p_in:
                    msg = ogg_pages_in_place(w0, w1, f0, out)
                    if msg:
                        _v(ctx, "C09", "%s: returning info.padding moved or altered data outside the comment packet" % kname, dict(d, detail=msg))


OGG_SCENARIOS = (ogg_lacing_sweep, ogg_opus_trailer_sweep, ogg_foreign_paging)


def run(ctx, checks, only=None):
    for fn in only or ((c01_pictures, c01_asf_plain_values, c01_asf_stream_language, c01_easy_multivalue, c09_easy, c08_ape_stale_fragments, c08_id3_delete_options, c08_tags_delete, c02_stray_tag_marker, c02_stale_object, c07_v23_same_object, c07_mp4_partial_text_atom) + OGG_SCENARIOS):
        try:
            fn(ctx, checks)
        except Exception as e:
            import traceback
            ctx.disagree("fam.directed", "%s crashed: %s" % (fn.__name__, traceback.format_exc()[-600:]), {"fn": fn.__name__})
