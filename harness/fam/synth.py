"""Synthesised container layouts derived from the sample files by byte surgery (no mutagen code):
layouts the property quantifiers name but tests/data lacks -- padding inside the ASF header extension,
the ID3 chunk in the middle of an IFF/RIFF file with an odd size, a header-less (APEv1-style) APE tag,
an APEv2 tag followed by an ID3v1 tag, multiplexed Ogg streams."""
import struct
from . import walkers as W


def _pad_obj(n):
    return W.G_PAD + struct.pack("<Q", 24 + n) + b"\x00" * n


def asf_ext_padding(d, inner=700, first=False):
    """insert a Padding object inside the Header Extension Object (last, or first child)"""
    size, cnt = struct.unpack("<QL", d[16:28])
    p = 30
    while p < size:
        g = d[p:p + 16]
        n = struct.unpack("<Q", d[p + 16:p + 24])[0]
        if g == W.G_HEXT:
            data_size = struct.unpack("<I", d[p + 24 + 18:p + 24 + 22])[0]
            pad = _pad_obj(inner)
            body_start = p + 24 + 22
            ins = body_start if first else body_start + data_size
            nd = d[:ins] + pad + d[ins:]
            nd = nd[:p + 16] + struct.pack("<Q", n + len(pad)) + nd[p + 24:]
            nd = nd[:p + 24 + 18] + struct.pack("<I", data_size + len(pad)) + nd[p + 24 + 22:]
            nd = nd[:16] + struct.pack("<Q", size + len(pad)) + nd[24:]
            return nd
        p += n
    return None


def asf_ext_insert(d, obj, first=False):
    """insert a raw object inside the Header Extension Object (as its last or first child)"""
    size, cnt = struct.unpack("<QL", d[16:28])
    p = 30
    while p < size:
        g = d[p:p + 16]
        n = struct.unpack("<Q", d[p + 16:p + 24])[0]
        if g == W.G_HEXT:
            data_size = struct.unpack("<I", d[p + 24 + 18:p + 24 + 22])[0]
            body_start = p + 24 + 22
            ins = body_start if first else body_start + data_size
            nd = d[:ins] + obj + d[ins:]
            nd = nd[:p + 16] + struct.pack("<Q", n + len(obj)) + nd[p + 24:]
            nd = nd[:p + 24 + 18] + struct.pack("<I", data_size + len(obj)) + nd[p + 24 + 22:]
            nd = nd[:16] + struct.pack("<Q", size + len(obj)) + nd[24:]
            return nd
        if n < 24:
            return None
        p += n
    return None


def asf_top_insert(d, obj):
    """append a raw object to the top-level header"""
    size, cnt = struct.unpack("<QL", d[16:28])
    nd = d[:size] + obj + d[size:]
    return nd[:16] + struct.pack("<QL", size + len(obj), cnt + 1) + nd[28:]


def _unknown_obj(tag, payload):
    g = bytes.fromhex("0a1b2c3d77774888") + tag.ljust(8, b"\x99")[:8]
    return g + struct.pack("<Q", 24 + len(payload)) + payload


def asf_video_stream(d):
    """a second Stream Properties Object of a NON-audio stream type (video), cloned from the audio one: a header object
    mutagen does not interpret and must keep verbatim"""
    G_SP = bytes.fromhex("9107DCB7B7A9CF118EE600C00C205365")
    G_VIDEO = bytes.fromhex("C0EF19BC4D5BCF11A8FD00805F5C442B")
    size, cnt = struct.unpack("<QL", d[16:28])
    p = 30
    while p < size:
        g = d[p:p + 16]
        n = struct.unpack("<Q", d[p + 16:p + 24])[0]
        if n < 24:
            return None
        if g == G_SP and n >= 24 + 54:
            obj = bytearray(d[p:p + n])
            obj[24:40] = G_VIDEO
            obj[24 + 48] = (obj[24 + 48] & 0x80) | 2        # stream number 2
            for i in range(24 + 54, len(obj)):
                obj[i] = (obj[i] ^ 0x5A) & 0xFF             # type-specific data the audio parser must not be fed
            return asf_top_insert(d, bytes(obj))
        p += n
    return None


def iff_move_id3(d, kind, tagbytes, odd=True):
    """(re)place the ID3 chunk right after the first chunk, with an odd payload size"""
    big = kind in ("aiff", "dff")
    hs = 12 if kind == "dff" else 8
    w = 8 if kind == "dff" else 4
    n = int.from_bytes(d[4:4 + w], "big" if big else "little")
    p = hs + 4
    chunks = []
    end = hs + n
    while p + hs <= end:
        cid = d[p:p + 4]
        m = int.from_bytes(d[p + 4:p + 4 + w], "big" if big else "little")
        chunks.append((cid, d[p + hs:p + hs + m]))
        p += hs + m + (m & 1)
    chunks = [c for c in chunks if c[0].strip().upper() != b"ID3"]
    tag = tagbytes + (b"" if (len(tagbytes) % 2 == 1) == odd else b"\x00")
    # keep the tag size field consistent: padding zeros belong to the tag
    body = tag
    n2 = len(body) - 10
    body = body[:6] + bytes([(n2 >> 21) & 0x7F, (n2 >> 14) & 0x7F, (n2 >> 7) & 0x7F, n2 & 0x7F]) + body[10:]
    idc = b"id3 " if kind == "wave" else b"ID3 "
    chunks = chunks[:1] + [(idc, body)] + chunks[1:]
    out = b""
    for cid, pl in chunks:
        out += cid + len(pl).to_bytes(w, "big" if big else "little") + pl + (b"\x00" if len(pl) & 1 else b"")
    form = d[hs:hs + 4]
    total = 4 + len(out)
    return d[:4] + total.to_bytes(w, "big" if big else "little") + form + out


def simple_id3(title=b"SynthTitle", pad=33):
    frame = b"TIT2" + bytes([0, 0, 0, len(title) + 1]) + b"\x00\x00" + b"\x03" + title
    body = frame + b"\x00" * pad
    n = len(body)
    return b"ID3\x04\x00\x00" + bytes([(n >> 21) & 0x7F, (n >> 14) & 0x7F, (n >> 7) & 0x7F, n & 0x7F]) + body


def ape_tag(items, header=True, version=2000):
    body = b""
    for it in items:
        k, v = it[0], it[1]
        kind = it[2] if len(it) > 2 else 0          # 0 text, 1 binary, 2 external (locator)
        body += struct.pack("<II", len(v), kind << 1) + k + b"\x00" + v
    size = len(body) + 32
    fl_footer = (1 << 31) if header else 0
    foot = b"APETAGEX" + struct.pack("<IIII", version, size, len(items), fl_footer) + b"\x00" * 8
    head = b"APETAGEX" + struct.pack("<IIII", version, size, len(items), (1 << 31) | (1 << 29)) + b"\x00" * 8
    return (head if header else b"") + body + foot


def id3v1(title=b"V1Title"):
    return b"TAG" + title.ljust(30, b"\x00") + b"\x00" * 30 + b"\x00" * 30 + b"2001" + b"\x00" * 28 + b"\x00\x01" + b"\xff"


def ape_strip(d):
    loc = W.ape_locate(d)
    return d[:loc[0]] if loc else d[:len(d) - (128 if W.id3v1_at_end(d) else 0)]


def ogg_multiplex(a, b):
    """interleave the pages of two single-stream Ogg files (different serials): BOS pages first"""
    pa, pb = W.ogg_pages(a), W.ogg_pages(b)
    if not pa or not pb or pa[0]["serial"] == pb[0]["serial"]:
        return None
    out = [pa[0]["raw"], pb[0]["raw"]]
    ra, rb = pa[1:], pb[1:]
    while ra or rb:
        if ra:
            out.append(ra.pop(0)["raw"])
        if rb:
            out.append(rb.pop(0)["raw"])
        if ra:
            out.append(ra.pop(0)["raw"])
    return b"".join(out)


def _atom(name, payload):
    return struct.pack(">I4s", len(payload) + 8, name) + payload


def mp4_opaque_items(d, only=None):
    """append ilst items mutagen cannot interpret (two sharing one name, a malformed trkn, an unknown binary
    atom) by growing ilst into the free atom that follows it: no other size or offset changes"""
    atoms = W.mp4_atoms(d)
    ilst = free = None
    for a in W.mp4_flat(atoms):
        if a["path"] == (b"moov", b"udta", b"meta", b"ilst"):
            ilst = a
        elif ilst is not None and free is None and a["name"] == b"free" and a["off"] == ilst["off"] + ilst["size"]:
            free = a
    if ilst is None or free is None:
        return None
    dat = lambda fl, pl: _atom(b"data", struct.pack(">II", fl, 0) + pl)
    extra = (_atom(b"foob", dat(0, b"binary-one")) + _atom(b"foob", dat(0, b"binary-two")) +
             _atom(b"aART", _atom(b"datA", struct.pack(">II", 1, 0) + b"wheeee")) + _atom(b"trkn", _atom(b"datA", b"\x00" * 16)) + _atom(b"quux", dat(0, b"\x01\x02\x03")) + _atom(b"quux", dat(0, b"\x04")))
    if only is not None:
        extra = only(_atom, dat)
    if free["size"] - len(extra) < 8:
        return None
    e = ilst["off"] + ilst["size"]
    nd = d[:ilst["off"]] + struct.pack(">I", ilst["size"] + len(extra)) + d[ilst["off"] + 4:e] + extra
    nd += struct.pack(">I", free["size"] - len(extra)) + b"free" + d[free["off"] + 8 + len(extra):]
    assert len(nd) == len(d)
    return nd


def mp4_two_free_before(d):
    """[.., ilst, free] -> [.., free(100), free(rest), ilst]: two padding atoms in front of ilst (same sizes overall)"""
    atoms = W.mp4_atoms(d)
    ilst = free = None
    for a in W.mp4_flat(atoms):
        if a["path"] == (b"moov", b"udta", b"meta", b"ilst"):
            ilst = a
        elif ilst is not None and free is None and a["name"] == b"free" and a["off"] == ilst["off"] + ilst["size"]:
            free = a
    if ilst is None or free is None or free["size"] < 200:
        return None
    il = d[ilst["off"]:ilst["off"] + ilst["size"]]
    f1 = struct.pack(">I", 100) + b"free" + b"\x00" * 92
    f2 = struct.pack(">I", free["size"] - 100) + b"free" + b"\x00" * (free["size"] - 108)
    nd = d[:ilst["off"]] + f1 + f2 + il + d[free["off"] + free["size"]:]
    assert len(nd) == len(d)
    return nd


def mp4_mdat_both_sides(d):
    """[.., mdat, moov] -> [.., mdat, moov, mdat']: media data on both sides of moov, and the second half of the entries of
    every stco/co64 table re-pointed into the new mdat, so that each table starts in front of moov and continues behind it
    (no size field changes: the new atom is appended, the entries are overwritten in place)"""
    atoms = W.mp4_atoms(d)
    if atoms[-1]["name"] != b"moov" or not any(a["name"] == b"mdat" for a in atoms[:-1]):
        return None
    tabs = [a for a in W.mp4_flat(atoms) if a["name"] in (b"stco", b"co64") and a["path"][0] == b"moov"]
    tabs = [a for a in tabs if struct.unpack(">I", d[a["off"] + 12:a["off"] + 16])[0] >= 2]
    if not tabs:
        return None
    payload = bytes((i * i * 29 + i * 5 + 17) % 251 for i in range(600))
    p2 = len(d) + 8
    nd = bytearray(d + struct.pack(">I4s", len(payload) + 8, b"mdat") + payload)
    k = 0
    for a in tabs:
        w = 4 if a["name"] == b"stco" else 8
        n = struct.unpack(">I", d[a["off"] + 12:a["off"] + 16])[0]
        for i in range(n // 2, n):
            q = a["off"] + 16 + i * w
            nd[q:q + w] = (p2 + (37 * k) % 560).to_bytes(w, "big")
            k += 1
    return bytes(nd)


def mp4_free_before_other_after(d):
    """[hdlr, ilst, free(N)] -> [hdlr, free(N - 28), ilst, 'xml '(20)]: the padding sits in FRONT of ilst and a non-free atom
    follows ilst (same sizes overall)"""
    atoms = W.mp4_atoms(d)
    flat = list(W.mp4_flat(atoms))
    meta = [a for a in flat if a["path"] == (b"moov", b"udta", b"meta")]
    if not meta:
        return None
    ch = meta[0]["children"]
    if [c["name"] for c in ch] != [b"hdlr", b"ilst", b"free"] or ch[2]["size"] < 28 + 64 or ch[2]["hdr"] != 8:
        return None
    i, f = ch[1], ch[2]
    other = _atom(b"xml ", b"<synthetic sibling/>")
    assert len(other) == 28
    nf = f["size"] - 28
    nd = (d[:i["off"]] + struct.pack(">I4s", nf, b"free") + b"\x00" * (nf - 8) + d[i["off"]:i["off"] + i["size"]] + other +
          d[f["off"] + f["size"]:])
    assert len(nd) == len(d)
    return nd


def _ext_header(d, a):
    """the 8-byte header of atom a rewritten in the 64-bit extended-size form (16 bytes): returns the new header"""
    return struct.pack(">I4sQ", 1, a["name"], a["size"] + 8)


def mp4_udta64(d):
    """tag-less file whose moov.udta gets a 64-bit extended-size header (moov must lie behind the media data, so that only
    the sizes of moov and of the file change, no chunk offset)"""
    atoms = W.mp4_atoms(d)
    moov = [a for a in atoms if a["name"] == b"moov"]
    if not moov or moov[0]["hdr"] != 8 or any(a["name"] == b"mdat" and a["off"] > moov[0]["off"] for a in atoms):
        return None
    moov = moov[0]
    udta = [c for c in moov["children"] if c["name"] == b"udta"]
    if not udta or udta[0]["hdr"] != 8 or any(c["name"] == b"meta" for c in udta[0]["children"] or []):
        return None
    u = udta[0]
    nd = d[:u["off"]] + _ext_header(d, u) + d[u["off"] + 8:]
    return nd[:moov["off"]] + struct.pack(">I", moov["size"] + 8) + nd[moov["off"] + 4:]


def mp4_moov64_no_udta(d):
    """tag-less file without udta whose moov has a 64-bit extended-size header (an empty trailing udta is dropped)"""
    atoms = W.mp4_atoms(d)
    moov = [a for a in atoms if a["name"] == b"moov"]
    if not moov or moov[0]["hdr"] != 8 or any(a["name"] == b"mdat" and a["off"] > moov[0]["off"] for a in atoms):
        return None
    moov = moov[0]
    ch = moov["children"]
    body_end = moov["off"] + moov["size"]
    if ch and ch[-1]["name"] == b"udta":
        if ch[-1]["size"] != ch[-1]["hdr"]:
            return None
        body_end = ch[-1]["off"]
    if any(c["name"] == b"udta" for c in ch[:-1]):
        return None
    body = d[moov["off"] + 8:body_end]
    return d[:moov["off"]] + struct.pack(">I4sQ", 1, b"moov", len(body) + 16) + body + d[moov["off"] + moov["size"]:]


def id3_unknown_frames(d):
    """a v2.4 tag with unknown frames (two sharing one id) in front of the audio of an ID3-prefixed file"""
    body = d
    if d[:3] == b"ID3":
        t = W.id3v2_walk(d)
        body = d[t["size"]:]
    fr = lambda fid, pl: fid + bytes([0, 0, 0, len(pl)]) + b"\x00\x00" + pl
    frames = fr(b"TIT2", b"\x03SynthTitle") + fr(b"XYZQ", b"opaque-one") + fr(b"XYZQ", b"opaque-two") + fr(b"ZZZ9", b"\x01\x02")
    # frames of a known class that mutagen cannot interpret: encrypted (0x04), encrypted + compressed (0x04|0x08|0x01)
    enc = lambda fid, fl, pl: fid + bytes([0, 0, 0, len(pl)]) + bytes([0, fl]) + pl
    frames += enc(b"TPE1", 0x04, b"\x80cipher-text-one") + enc(b"TALB", 0x0D, b"\x00\x00\x00\x20" + b"\x81" + b"cipher-two\x9c")
    n = len(frames) + 40
    tag = b"ID3\x04\x00\x00" + bytes([(n >> 21) & 0x7F, (n >> 14) & 0x7F, (n >> 7) & 0x7F, n & 0x7F]) + frames + b"\x00" * 40
    return tag + body


def idempotence_layouts(kind, base):
    """layouts judged only for fixpoint behaviour (second save / second delete byte-identical): which of several free
    atoms around ilst is 'the' tag padding is ambiguous, so the padding/foreign predicates make no claim there"""
    out = []
    if kind.family == "mp4":
        for nm, dd in base:
            try:
                x = mp4_two_free_before(dd)
            except Exception:
                x = None
            if x:
                out.append(("synth-two-free-before-ilst+" + nm, x))
                break
    return out


def mp4_size0_moov(d):
    """moov as the last top-level atom, written with size field 0 (= extends to the end of the file)"""
    atoms = W.mp4_atoms(d)
    last = atoms[-1]
    if last["name"] != b"moov" or last["hdr"] != 8:
        return None
    return d[:last["off"]] + b"\x00\x00\x00\x00" + d[last["off"] + 4:]


def mp4_ilst_first(d):
    """[hdlr, ilst, free] -> [ilst, hdlr, free]: ilst is the first child of meta and the free atom is NOT adjacent to it"""
    atoms = W.mp4_atoms(d)
    flat = list(W.mp4_flat(atoms))
    meta = [a for a in flat if a["path"] == (b"moov", b"udta", b"meta")]
    if not meta:
        return None
    ch = meta[0]["children"]
    names = [c["name"] for c in ch]
    if names[:3] != [b"hdlr", b"ilst", b"free"]:
        return None
    h, i = ch[0], ch[1]
    return d[:h["off"]] + d[i["off"]:i["off"] + i["size"]] + d[h["off"]:h["off"] + h["size"]] + d[i["off"] + i["size"]:]


def flac_with_picture(d):
    """a PICTURE block with a non-ASCII description and MIME type right behind STREAMINFO (own encoder)"""
    if d[:4] != b"fLaC" or d[4] & 0x7F != 0 or d[4] & 0x80:
        return None
    desc = "Обложка 表紙 ü".encode("utf-8")
    mime = b"image/png"
    data = b"\x89PNG\r\n" + bytes(range(200))
    pl = struct.pack(">I", 3) + struct.pack(">I", len(mime)) + mime + struct.pack(">I", len(desc)) + desc + struct.pack(">4I", 16, 16, 24, 0) + struct.pack(">I", len(data)) + data
    blk = bytes([6]) + len(pl).to_bytes(3, "big") + pl
    p = 8 + 34
    return d[:p] + blk + d[p:]


def _vc_block_bytes(vendor, items):
    b = struct.pack("<I", len(vendor)) + vendor + struct.pack("<I", len(items))
    for it in items:
        b += struct.pack("<I", len(it)) + it
    return b


def _flac_blocks(d):
    p = 4
    out = []
    while True:
        h = d[p]; n = int.from_bytes(d[p + 1:p + 4], "big")
        out.append((p, h, n)); p += 4 + n
        if h & 0x80:
            return out


def flac_two_comment_blocks(d):
    """a second VORBIS_COMMENT block behind the first one (readers tolerate it; upstream issue 377)"""
    if d[:4] != b"fLaC":
        return None
    vc = [b for b in _flac_blocks(d) if b[1] & 0x7F == 4 and not b[1] & 0x80]
    if not vc:
        return None
    off, h, n = vc[0]
    pl2 = _vc_block_bytes(b"second writer", [b"TITLE=duplicate block " + MARK2, b"ARTIST=dup"])
    return d[:off + 4 + n] + bytes([4]) + len(pl2).to_bytes(3, "big") + pl2 + d[off + 4 + n:]


MARK2 = b"Zq9Xj-second"


def flac_unicode_vendor(d):
    """the encoder's vendor string with non-ASCII characters (kept by every save)"""
    if d[:4] != b"fLaC":
        return None
    vc = [b for b in _flac_blocks(d) if b[1] & 0x7F == 4]
    if not vc:
        return None
    off, h, n = vc[0]
    pl = d[off + 4:off + 4 + n]
    vlen = int.from_bytes(pl[:4], "little")
    vendor = "Кодер 編碼器 ü 1.0".encode("utf-8")
    npl = struct.pack("<I", len(vendor)) + vendor + pl[4 + vlen:]
    return d[:off] + bytes([h]) + len(npl).to_bytes(3, "big") + npl + d[off + 4 + n:]


def flac_long_total(d):
    """STREAMINFO with a total sample count above 2^32 (the field has 36 bits)"""
    if d[:4] != b"fLaC" or d[4] & 0x7F != 0:
        return None
    p = 8 + 13
    return d[:p] + bytes([(d[p] & 0xF0) | 0x1]) + d[p + 1:]


def extra_samples(kind, base):
    """base: list of (name, bytes) real samples of the kind -> list of synthetic (name, bytes)"""
    out = []
    if not base:
        return out
    name0, d0 = base[0]
    try:
        if kind.name == "ASF":
            for first in (False, True):
                x = asf_ext_padding(d0, 700, first)
                if x:
                    out.append(("synth-extpad-%s+%s" % ("first" if first else "last", name0), x))
            # unknown objects mutagen must keep verbatim: empty payload (exactly 24 bytes), 1 byte, larger; last / first
            # child of the header extension and at the top level
            x = asf_ext_insert(d0, _unknown_obj(b"lastnull", b""), first=False)
            if x:
                x = asf_ext_insert(x, _unknown_obj(b"firstone", b"\x07"), first=True)
                x = asf_top_insert(x, _unknown_obj(b"topempty", b""))
                x = asf_top_insert(x, _unknown_obj(b"topbytes", b"unknown top-level payload"))
                out.append(("synth-unknown-objects+" + name0, x))
            x = asf_video_stream(d0)
            if x:
                out.append(("synth-video-stream+" + name0, x))
        elif kind.name in ("AIFF", "WAVE"):
            fam = kind.family
            out.append(("synth-id3-middle-odd+" + name0, iff_move_id3(d0, fam, simple_id3(pad=32), odd=True)))
            out.append(("synth-id3-middle-even+" + name0, iff_move_id3(d0, fam, simple_id3(pad=33), odd=False)))
            # frames mutagen cannot interpret (unknown ids, encrypted) inside the ID3 chunk
            out.append(("synth-unknown-frames+" + name0, iff_move_id3(d0, fam, id3_unknown_frames(b""), odd=False)))
        elif kind.name == "DSDIFF":
            out.append(("synth-unknown-frames+" + name0, iff_move_id3(d0, kind.family, id3_unknown_frames(b""), odd=False)))
        elif kind.style == "ape" and kind.name in ("Musepack", "WavPack", "APEv2", "MonkeysAudio"):
            body = ape_strip(d0)
            items = [(b"Title", b"Synth"), (b"Artist", b"Someone"), (b"File", b"http://example.org/a.flac", 2),
                     (b"Cover Art (Front)", b"c.png\x00\x89PNG", 1), (b"Related", b"file:///x", 2)]
            out.append(("synth-ape-headerless+" + name0, body + ape_tag(items, header=False, version=1000)))
            out.append(("synth-ape+id3v1+" + name0, body + ape_tag(items) + id3v1()))
        elif kind.name == "FLAC":
            x = flac_long_total(d0)
            if x:
                out.append(("synth-total-above-2^32+" + name0, x))
            x = flac_with_picture(d0)
            if x:
                out.append(("synth-picture-nonascii+" + name0, x))
            x = flac_two_comment_blocks(d0)
            if x:
                out.append(("synth-two-comment-blocks+" + name0, x))
            x = flac_unicode_vendor(d0)
            if x:
                out.append(("synth-unicode-vendor+" + name0, x))
        elif kind.family == "mp4":
            for nm, dd in base:
                x = mp4_ilst_first(dd)
                if x:
                    out.append(("synth-ilst-first-free-apart+" + nm, x))
                    break
            for nm, dd in base:
                x = mp4_size0_moov(dd)
                if x:
                    out.append(("synth-size0-moov+" + nm, x))
                    break
            for nm, dd in base:
                x = mp4_opaque_items(dd)
                if x:
                    out.append(("synth-opaque-items+" + nm, x))
                    break
            for nm, dd in base:
                x = mp4_mdat_both_sides(dd)
                if x:
                    out.append(("synth-mdat-both-sides+" + nm, x))
                    break
            for fn, lab in ((mp4_udta64, "synth-udta-64bit-header+"), (mp4_moov64_no_udta, "synth-moov-64bit-no-udta+")):
                for nm, dd in base:
                    try:
                        x = fn(dd) if W.mp4(dd)["tags"] is None else None
                    except Exception:
                        x = None
                    if x:
                        out.append((lab + nm, x))
                        break
            for nm, dd in base:
                x = mp4_free_before_other_after(dd)
                if x:
                    out.append(("synth-free-before-other-after+" + nm, x))
                    break
        elif kind.name in ("MP3", "ID3"):
            out.append(("synth-unknown-frames+" + name0, id3_unknown_frames(d0)))
            # a blank ID3v1 trailer (what ID3.save(v1=2) writes when no frame has an ID3v1 equivalent)
            x = id3_unknown_frames(d0)
            if W.id3v1_at_end(x):
                x = x[:-128]
            out.append(("synth-blank-id3v1+" + name0, x + b"TAG" + b"\x00" * 124 + b"\xff"))
        elif kind.name == "OggVorbis":
            import os
            from .kinds import DATA
            p = os.path.join(DATA, "example.opus")
            if os.path.exists(p):
                x = ogg_multiplex(d0, open(p, "rb").read())
                if x:
                    out.append(("synth-multiplex-opus+" + name0, x))
        elif kind.name == "OggOpus":
            import os
            from .kinds import DATA
            p = os.path.join(DATA, "empty.ogg")
            if os.path.exists(p):
                x = ogg_multiplex(d0, open(p, "rb").read())
                if x:
                    out.append(("synth-multiplex-vorbis+" + name0, x))
    except Exception:
        pass
    if kind.family == "ogg":
        try:
            from . import synth_ogg
            out += synth_ogg.layouts(kind, base)
        except Exception:
            pass
    return out
