"""File objects used by the harness: minimal documented interface, fault injection, capacity limit, tracing."""
import errno, io


class Minimal:
    """Only the documented interface (read, seek, tell, write, truncate, flush); any other attribute
    request is recorded.  neg: 'clamp' (BytesIO-like) or 'raise' (real-file-like) for negative seek targets."""
    def __init__(self, data, neg="clamp"):
        self._d = bytearray(data); self._p = 0; self.asked = set(); self._neg = neg

    def tell(self):
        return self._p

    def read(self, size=-1):
        if size is None or size < 0:
            size = max(0, len(self._d) - self._p)
        r = bytes(self._d[self._p:self._p + size]); self._p += len(r)
        return r

    def seek(self, offset, whence=0):
        base = {0: 0, 1: self._p, 2: len(self._d)}[whence]
        t = base + offset
        if t < 0:
            if self._neg == "raise" or whence == 0:
                raise OSError(22, "Invalid argument")
            t = 0
        self._p = t

    def write(self, data):
        # the documented interface says how the file grows -- by writing at its end -- and nothing about a write positioned
        # BEHIND the end creating a zero-filled hole: a store that can only be extended at its end conforms
        if self._p > len(self._d):
            raise OSError(22, "write behind the end of the file: this store can only be grown by writing at its end")
        self._d[self._p:self._p + len(data)] = data; self._p += len(data)

    def truncate(self, size=None):
        if size is None:
            size = self._p
        # documented: "The current position or given size will never be larger than the file size"
        if size > len(self._d):
            raise OSError(22, "truncate beyond the end of the file is outside the documented interface")
        del self._d[size:]

    def flush(self):
        pass

    def __getattr__(self, name):
        if not name.startswith("_"):
            self.asked.add(name)
        raise AttributeError(name)

    def getvalue(self):
        return bytes(self._d)


class Faulty:
    """Wraps a BytesIO: the call with index fail_at (0-based, counting read/seek/tell/write/truncate/flush)
    raises IOError (once, or on every later call with sticky=True); reads stop returning data after
    stop_after bytes in total (short reads)."""
    def __init__(self, f, fail_at=-1, stop_after=-1, sticky=True, kinds=None, err=errno.EIO):
        self.f = f; self.fail_at = fail_at; self.ops = 0; self.stop_after = stop_after; self.err = err
        self.dataread = 0; self.closed = False; self.sticky = sticky; self.kinds = kinds; self.log = []

    def _chk(self, name):
        i = self.ops
        self.ops += 1
        self.log.append(name)
        if self.fail_at != -1 and (i == self.fail_at or (self.sticky and i > self.fail_at)):
            if self.kinds is None or name in self.kinds:
                if self.err is None:
                    raise IOError("injected fault")            # an I/O error without an errno
                raise IOError(self.err, "injected fault")

    def tell(self):
        self._chk("tell"); return self.f.tell()

    def seek(self, o, w=0):
        self._chk("seek"); return self.f.seek(o, w)

    def read(self, n=-1):
        if n == 0:
            return self.f.read(0)       # verify_fileobj's usability probe (a failing probe is a documented ValueError)
        self._chk("read")
        d = self.f.read(n)
        self.dataread += len(d)
        if self.stop_after != -1 and self.dataread > self.stop_after:
            cut = self.dataread - self.stop_after
            d = d[:max(0, len(d) - cut)]
        return d

    def write(self, d):
        if len(d) == 0:
            return self.f.write(d)      # verify_fileobj's usability probe
        self._chk("write"); return self.f.write(d)

    def truncate(self, *a):
        self._chk("truncate"); return self.f.truncate(*a)

    def flush(self):
        self._chk("flush"); return self.f.flush()

    def close(self):
        self.closed = True

    def getvalue(self):
        return self.f.getvalue()


class Cap(io.BytesIO):
    """The device holds at most `cap` bytes: a write that would extend the file beyond cap writes
    `partial` bytes at most (never beyond cap) and raises OSError(ENOSPC)."""
    def __init__(self, d, cap, partial=0):
        super().__init__(d); self.cap = cap; self.partial = partial; self.enospc = 0

    def write(self, b):
        end = self.tell() + len(b)
        if max(end, len(self.getbuffer())) > self.cap and end > len(self.getbuffer()):
            room = max(0, min(self.partial, len(b), self.cap - self.tell()))
            if room:
                super().write(bytes(b[:room]))
            self.enospc += 1
            raise OSError(errno.ENOSPC, "No space left on device")
        return super().write(b)


class Tracing(io.BytesIO):
    """records (name, args) of every call"""
    def __init__(self, d):
        super().__init__(d); self.trace = []

    def seek(self, o, w=0):
        self.trace.append(("seek", o, w)); return super().seek(o, w)

    def tell(self):
        self.trace.append(("tell",)); return super().tell()

    def read(self, n=-1):
        self.trace.append(("read", n)); return super().read(n)

    def write(self, b):
        self.trace.append(("write", self.tell() if False else None, len(b))); return super().write(b)

    def truncate(self, *a):
        self.trace.append(("truncate",) + a); return super().truncate(*a)

    def flush(self):
        self.trace.append(("flush",)); return super().flush()


class ReadOnlyMinimal:
    """Only the documented LOADING interface: read, seek, tell (docs/user/examples/fileobj-iface.py)."""
    def __init__(self, data, neg="clamp"):
        self._m = Minimal(data, neg); self.asked = set()

    def tell(self):
        return self._m.tell()

    def read(self, size=-1):
        return self._m.read(size)

    def seek(self, offset, whence=0):
        return self._m.seek(offset, whence)

    def __getattr__(self, name):
        if not name.startswith("_"):
            self.asked.add(name)
        raise AttributeError(name)
