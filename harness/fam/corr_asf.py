"""Correspondence of the ASF family model (coq/model/Fam_asf.v, extracted) with mutagen.asf.

Route taken for the steps of the shared engine (the engine's `st.mem` is sorted and folds None/0 of language and
stream, so mutagen's list order is not available there): the attributes that were saved are decoded from
`st.after` by the independent Python walker (walkers.asf), per tag object in file order, and handed to the model
as the tag list  CD ++ ECD ++ Metadata ++ MetadataLibrary  with the language/stream fields a reload would give
them.  The model's asf_save(st.before, that list, padding callback of the mode) places them again (ASF.save's
placement loop is the identity on such a list), re-renders the whole header (object order, re-rendered tag
objects, appended missing objects, sizes, count, header-extension data size, padding object and its arithmetic)
and must equal st.after byte for byte; the (info.padding, info.size) pair seen by the callback must agree too.
For these steps the correspondence therefore checks the re-rendering of the header, not the placement decision.

The placement decision itself (library-only by size/GUID/language, stream -> Metadata, the five
ContentDescription names, first value per name, overflow to the library) is checked on every `fresh` step by an
additional scenario (`layout_scenario`): a layout built by the model's asf_build (tag objects missing / duplicated /
at the wrong level, padding and unknown objects at both levels, permuted order), loaded by mutagen (loaded tags
compared with the model's mirror reader asf_open), given an explicit ordered attribute list with duplicates, all
seven types, language/stream None/0/n and values around the 65535-byte limit, saved through mutagen and compared
byte for byte with asf_save(layout, that list, callback); then deleted through mutagen and compared with asf_delete.

After every save/delete: asf_wf and asf_canon of the bytes mutagen wrote, the model's independent reader asf_load
against the walker's decoding (file order) and against what was set (st.exp_indep, as a sorted multiset),
no attribute and no padding after delete."""
import io
import mutagen
from common import hx, unhx, zs, zp
from . import walkers as W

KINDS = {"ASF"}
LIMIT = 300_000
MODES = {"default": "default", "none": "default", "zero": "c0", "one": "c1", "odd": "c" + zs(777),
         "large": "c" + zs(50000), "keep": "keep"}
CLS = {"CD": 0, "ECD": 1, "META": 2, "LIB": 3}
TYN = {"str": 0, "bytes": 1, "bool": 2, "dword": 3, "qword": 4, "word": 5, "guid": 6}
TYNAME = {v: k for k, v in TYN.items()}
_GUIDS_CHECKED = False


def check_constants(ctx):
    """the GUID constants of the model are those of the implementation"""
    global _GUIDS_CHECKED
    if _GUIDS_CHECKED:
        return
    _GUIDS_CHECKED = True
    from mutagen.asf import _objects as O
    want = {"G_HDR": W.ASF_HDR, "G_CD": W.G_CD, "G_ECD": W.G_ECD, "G_HEXT": W.G_HEXT, "G_PAD": W.G_PAD,
            "G_META": W.G_META, "G_LIB": W.G_METALIB}
    got = {"G_HDR": O.HeaderObject.GUID, "G_CD": O.ContentDescriptionObject.GUID, "G_ECD": O.ExtendedContentDescriptionObject.GUID,
           "G_HEXT": O.HeaderExtensionObject.GUID, "G_PAD": O.PaddingObject.GUID, "G_META": O.MetadataObject.GUID,
           "G_LIB": O.MetadataLibraryObject.GUID}
    if want != got:
        ctx.disagree("fam.asf", "GUID constants of mutagen differ from the format's", {"diff": [k for k in want if want[k] != got[k]]})
    if list(O.ContentDescriptionObject.NAMES) != ["Title", "Author", "Copyright", "Description", "Rating"]:
        ctx.disagree("fam.asf", "ContentDescription names differ", {"names": list(O.ContentDescriptionObject.NAMES)})


# ---------------------------------------------------------------------------------- tokens
def enc_text(s):
    return hx(s.encode("utf-16-le"))


def enc_value(ty, v):
    if ty == 0:
        return enc_text(v)
    if ty in (1, 6):
        return hx(bytes(v))
    if ty == 2:
        return "1" if v else "0"
    return zs(int(v))


def enc_attr(name, lang, stream, ty, v):
    return "%s/%s/%s/%d/%s" % (enc_text(name), "-" if lang is None else zs(lang), "-" if stream is None else zs(stream), ty, enc_value(ty, v))


def enc_attrs(l):
    return ",".join(enc_attr(*a) for a in l) or "-"


def dec_value(ty, v):
    if ty == 0:
        return unhx(v).decode("utf-16-le", "surrogatepass")
    if ty in (1, 6):
        return unhx(v)
    if ty == 2:
        return v == "1"
    return zp(v)


def dec_attrs(s):
    """name/lang/stream/type/value,... -> [(name, lang|None, stream|None, ty, value)]"""
    out = []
    if s == "-":
        return out
    for a in s.split(","):
        n, l, st, ty, v = a.split("/")
        ty = int(ty)
        out.append((unhx(n).decode("utf-16-le", "surrogatepass"), None if l == "-" else zp(l), None if st == "-" else zp(st), ty, dec_value(ty, v)))
    return out


def dec_ltags(s):
    """cls/name/lang/stream/type/value,... -> [(cls, name, lang, stream, ty, value)]"""
    out = []
    if s == "-":
        return out
    for a in s.split(","):
        c, n, l, st, ty, v = a.split("/")
        ty = int(ty)
        out.append((zp(c), unhx(n).decode("utf-16-le", "surrogatepass"), zp(l), zp(st), ty, dec_value(ty, v)))
    return out


def enc_tree(objs):
    out = []
    for o in objs:
        if o[0] == "L":
            out.append("L/%s/%s" % (hx(o[1]), hx(o[2])))
        else:
            out.append("E/%s/%s" % (hx(o[1]), ";".join("%s:%s" % (hx(g), hx(d)) for g, d in o[2]) or "-"))
    return ",".join(out) or "-"


def dec_tree(s):
    out = []
    if s == "-":
        return out
    for o in s.split(","):
        p = o.split("/")
        if p[0] == "L":
            out.append(["L", unhx(p[1]), unhx(p[2])])
        else:
            ch = [] if p[2] == "-" else [tuple(unhx(x) for x in c.split(":")) for c in p[2].split(";")]
            out.append(["E", unhx(p[1]), ch])
    return out


def walker_attrs(w):
    """the walker's decoding as the tag list a reload would produce: CD ++ ECD ++ Metadata ++ MetadataLibrary"""
    out = []
    for cls in ("CD", "ECD", "META", "LIB"):
        for c, name, lang, stream, (ty, val) in w["tags"]:
            if c != cls:
                continue
            out.append((name, lang if cls == "LIB" else None, stream if cls in ("META", "LIB") else None, TYN[ty], val))
    return out


def walker_ltags(w):
    return [(CLS[c], name, lang, stream, TYN[ty], val) for c, name, lang, stream, (ty, val) in w["tags"]]


def exc_name(st_exc):
    if st_exc is None:
        return None
    return "MutagenError" if st_exc[0] == "MutagenError" else st_exc[1]


# ---------------------------------------------------------------------------------- extraction cross-check
_VM_DONE = False


def _gl(b):
    return "[" + ";".join(str(x) for x in b) + "]"


def _gunits(s):
    b = s.encode("utf-16-le")
    return "[" + ";".join(str(b[i] + 256 * b[i + 1]) for i in range(0, len(b), 2)) + "]"


def _gattr(name, lang, stream, ty, v):
    val = {0: lambda: "VText " + _gunits(v), 1: lambda: "VBytes " + _gl(v), 2: lambda: "VBool " + ("true" if v else "false"),
           3: lambda: "VDword %d" % v, 4: lambda: "VQword %d" % v, 5: lambda: "VWord %d" % v, 6: lambda: "VGuid " + _gl(v)}[ty]()
    opt = lambda x: "None" if x is None else "(Some %d)" % x
    return "mkA %s (%s) %s %s" % (_gunits(name), val, opt(lang), opt(stream))


def _gtree(tree):
    out = []
    for o in tree:
        if o[0] == "L":
            out.append("OLeaf %s %s" % (_gl(o[1]), _gl(o[2])))
        else:
            out.append("OExt %s [%s]" % (_gl(o[1]), ";".join("(%s, %s)" % (_gl(g), _gl(d)) for g, d in o[2])))
    return "[" + ";".join(out) + "]"


def _vm_bytes(res):
    """'Ok [1; 2]' -> b'..', 'Raise EMutagen' -> 'raise'"""
    import re
    if res.startswith("Ok") or res.startswith("["):
        return bytes(int(x) for x in re.findall(r"-?\d+", res.lstrip("Ok")))
    return "raise"


def vm_crosscheck(ctx):
    """the same small cases evaluated by vm_compute inside Coq and by the extracted binary (extraction + driver)"""
    global _VM_DONE
    if _VM_DONE or not ctx.use_model:
        return
    _VM_DONE = True
    import common
    hext_fixed = bytes.fromhex("11D2D3ABBAA9CF118EE600C00C2053650600")
    unk = bytes(range(16))
    trees = [
        [],
        [["L", bytes.fromhex("A1DCAB8C47A9CF118EE400C00C205365"), bytes(64)], ["L", W.G_PAD, bytes(5)]],
        [["E", hext_fixed, [(W.G_PAD, b"\0"), (unk, b"xy"), (W.G_META, b"\0\0")]], ["L", unk, b"abc"], ["L", W.G_CD, bytes(10)]],
        [["L", W.G_ECD, b"\0\0"], ["E", bytes(18), []]],
    ]
    tagsets = [
        [],
        [("Title", None, None, 0, "Hi"), ("Title", None, None, 0, "x"), ("F", None, 1, 2, True), ("G", 2, None, 4, 2 ** 40)],
        [("WM/X", None, None, 1, b"\x01\x02"), ("Author", None, None, 5, 7), ("N", None, 0, 3, 9), ("WM/X", None, None, 6, bytes(16))],
    ]
    modes = [("default", "cb_default"), ("c3", "(cb_const 3)"), ("keep", "cb_keep")]
    cases, want = [], []
    for i, tree in enumerate(trees):
        data = b"DATA"[: i]
        r = ctx.model.call("asf_build", enc_tree(tree), hx(data))
        f0 = unhx(r[3:])
        g0 = "(asf_build %s %s)" % (_gtree(tree), _gl(data))
        cases.append(g0); want.append(f0)
        for j, tags in enumerate(tagsets):
            mode, gmode = modes[(i + j) % 3]
            r = ctx.model.call("asf_save", hx(f0), enc_attrs(tags), mode)
            want.append(unhx(r.split(" ")[1]) if r.startswith("ok ") else "raise")
            cases.append("asf_save %s [%s] %s" % (g0, ";".join(_gattr(*a) for a in tags), gmode))
        r = ctx.model.call("asf_delete", hx(f0))
        want.append(unhx(r.split(" ")[1]) if r.startswith("ok ") else "raise")
        cases.append("asf_delete %s" % g0)
    pre = ("From Coq Require Import ZArith List Bool.\nImport ListNotations.\nRequire Import Base.Py Model.Fam_asf.\n"
           "Open Scope Z_scope.")
    res, out = common.vm_shard("fam_asf", pre, cases, timeout=300)
    if res is None or len(res) != len(cases):
        ctx.disagree("fam.asf.vm", "vm_compute shard failed", {"out": (out or "")[-300:]})
        return
    for c, r, w in zip(cases, res, want):
        ctx.vm_cases += 1
        if _vm_bytes(r) != w:
            ctx.disagree("fam.asf.vm", "extracted binary and vm_compute differ", {"case": c[:200], "coq": r[:120]})


# ---------------------------------------------------------------------------------- comparisons
def compare_bytes(ctx, what, reply, after, exc, data):
    want_exc = exc_name(exc)
    if reply.startswith("raise "):
        got = reply[6:]
        if got == "FUEL":
            ctx.count("asf:outside-model")
            return None
        if want_exc is None:
            ctx.disagree("fam.asf", "%s: model raises %s, mutagen succeeds" % (what, got), data)
        elif got != want_exc:
            ctx.disagree("fam.asf", "%s: model raises %s, mutagen raises %s" % (what, got, want_exc), data)
        return None
    if not reply.startswith("ok "):
        ctx.disagree("fam.asf", "%s: model error" % what, dict(data, reply=reply[:200]))
        return None
    if want_exc is not None:
        ctx.disagree("fam.asf", "%s: mutagen raises %s, model succeeds" % (what, want_exc), data)
        return None
    parts = reply.split(" ")
    out = unhx(parts[1])
    if out != after:
        k = next((i for i in range(min(len(out), len(after))) if out[i] != after[i]), min(len(out), len(after)))
        ctx.disagree("fam.asf", "%s: file bytes differ" % what,
                     dict(data, model_len=len(out), impl_len=len(after), first_diff=k,
                          model_at=out[max(0, k - 8):k + 16].hex(), impl_at=after[max(0, k - 8):k + 16].hex()))
    return parts


def canon_set(ltags):
    """sorted multiset in the shape of kinds.expected_indep"""
    return sorted([(n, (TYNAME[ty], v), l, s) for _, n, l, s, ty, v in ltags], key=repr)


def check_after(ctx, what, after, data, walker=None, expect=None, expect_empty=False):
    """structure and independent reading of the bytes mutagen wrote"""
    r = ctx.model.call("asf_wf", hx(after))
    if r != "ok 1":
        ctx.disagree("fam.asf", "%s: file written by mutagen is not well-formed for the model (asf_wf)" % what, dict(data, reply=r))
        return
    r = ctx.model.call("asf_canon", hx(after))
    if r != "ok 1":
        if data.get("canon", True):
            ctx.disagree("fam.asf", "%s: tag objects not unique / at the wrong level after the operation (asf_canon)" % what, dict(data, reply=r))
    r = ctx.model.call("asf_load", hx(after))
    if not r.startswith("ok "):
        ctx.disagree("fam.asf", "%s: the independent reader (asf_load) rejects the bytes mutagen wrote" % what, dict(data, reply=r[:100]))
        return
    got = dec_ltags(r[3:])
    if walker is not None and got != walker_ltags(walker):
        ctx.disagree("fam.asf", "%s: model reader (asf_load) and Python walker decode the file differently" % what,
                     dict(data, model=repr(got)[:300], walker=repr(walker_ltags(walker))[:300]))
    if expect is not None and canon_set(got) != expect:
        ctx.disagree("fam.asf", "%s: independent reader (asf_load) does not return the attributes that were saved" % what,
                     dict(data, model=repr(canon_set(got))[:300], want=repr(expect)[:300]))
    if expect_empty:
        if got:
            ctx.disagree("fam.asf", "%s: attributes remain in the file" % what, dict(data, left=repr(got)[:200]))
        p = ctx.model.call("asf_parse", hx(after))
        if p.startswith("ok ") and zp(p.split(" ")[3]) != 0:
            ctx.disagree("fam.asf", "%s: padding left after delete" % what, dict(data, padding=zp(p.split(" ")[3])))


def check_step(ctx, kind, st):
    check_constants(ctx)
    vm_crosscheck(ctx)
    op = st.op
    if op not in ("save", "fresh", "delete", "moddelete"):
        return
    data = {"kind": kind.name, "op": st.brief(), "before_len": len(st.before), "before_head": st.before[:48].hex()}
    if len(st.before) > LIMIT or len(st.after) > LIMIT:
        ctx.count("asf:skip-large")
        return
    if op in ("save", "fresh"):
        mode = MODES[st.arg if op == "save" else "none"]
        if st.exc is not None:
            # the attributes of a failed save cannot be read back from the file; the file must be unchanged
            ctx.count("asf:save-raised")
            if st.after != st.before:
                ctx.disagree("fam.asf", "save raised %s but changed the file" % exc_name(st.exc), data)
            return
        if st.wafter is None:
            ctx.count("asf:after-not-walkable")
            r = ctx.model.call("asf_wf", hx(st.after))
            if r == "ok 1":
                ctx.disagree("fam.asf", "save: Python walker rejects a file the model calls well-formed", dict(data, walker=st.walk_err))
            return
        attrs = walker_attrs(st.wafter)
        reply = ctx.model.call("asf_save", hx(st.before), enc_attrs(attrs), mode)
        ctx.corr_cases += 1
        parts = compare_bytes(ctx, "save", reply, st.after, st.exc, data)
        if parts and st.cb and len(parts) >= 4 and parts[2] != "-":
            p_in, size_in, _ = st.cb[0]
            if (zp(parts[2]), zp(parts[3])) != (p_in, size_in):
                ctx.disagree("fam.asf", "save: padding callback received different (info.padding, info.size)",
                             dict(data, model=[zp(parts[2]), zp(parts[3])], impl=[p_in, size_in]))
        expect = None
        if st.exp_indep is not None:
            expect = sorted(st.exp_indep, key=repr)
        check_after(ctx, "save", st.after, data, walker=st.wafter, expect=expect)
        ctx.count("asf:save-compared")
        if op == "fresh":
            layout_scenario(ctx, st, data)
    else:
        reply = ctx.model.call("asf_delete", hx(st.before))
        ctx.corr_cases += 1
        compare_bytes(ctx, "delete", reply, st.after, st.exc, data)
        if st.exc is None:
            check_after(ctx, "delete", st.after, data, walker=st.wafter, expect_empty=True)
            ctx.count("asf:delete-compared")


# ---------------------------------------------------------------------------------- synthetic layouts + placement
def model_parse(ctx, f):
    r = ctx.model.call("asf_parse", hx(f))
    if not r.startswith("ok "):
        return None
    _, tree, dlen, pad = r.split(" ")
    return dict(tree=dec_tree(tree), dlen=zp(dlen), padding=zp(pad))


def mutagen_attrs(tags):
    out = []
    for name, v in tags:
        out.append((name, v.language, v.stream, v.TYPE, v.value))
    return out


def random_attrs(rng):
    from mutagen.asf import (ASFUnicodeAttribute as U, ASFByteArrayAttribute as B, ASFBoolAttribute as Bo, ASFDWordAttribute as D,
                             ASFQWordAttribute as Q, ASFWordAttribute as Wd, ASFGUIDAttribute as G)
    names = ["Title", "Author", "Copyright", "Description", "Rating", "WM/Foo", "WM/Foo", "title", "ä\U0001F600", ""]
    out = []
    for _ in range(rng.choice([0, 1, 2, 3, 5, 8, 12])):
        name = rng.choice(names)
        r = rng.random()
        kw = {}
        x = rng.random()
        if x < 0.15:
            kw["language"] = rng.choice([0, 1, 65535])
        elif x < 0.35:
            kw["stream"] = rng.choice([0, 1, 127])
        elif x < 0.45:
            kw["language"] = rng.choice([0, 3]); kw["stream"] = rng.choice([0, 2])
        if r < 0.4:
            n = rng.choice([0, 1, 4, 30, 32765, 32766, 32767, 32768, 40000])
            v = U(("Zq" + rng.choice(["", "ä", "\U0001F600", "あ"]) + "x" * n)[:n], **kw)
        elif r < 0.55:
            n = rng.choice([0, 1, 17, 17, 65535, 65536, 70000])
            v = B(bytes(rng.randrange(256) for _ in range(min(n, 64))) + bytes(max(0, n - 64)), **kw)
        elif r < 0.65:
            v = Bo(rng.random() < 0.5, **kw)
        elif r < 0.75:
            v = D(rng.choice([0, 1, 2 ** 32 - 1]), **kw)
        elif r < 0.85:
            v = Q(rng.choice([0, 2 ** 40, 2 ** 64 - 1]), **kw)
        elif r < 0.93:
            v = Wd(rng.choice([0, 1, 65535]), **kw)
        else:
            v = G(bytes(range(16)), **kw)
        out.append((name, v))
    return out


def mutate_tree(rng, tree):
    """a layout variant: tag objects removed / duplicated / misplaced, padding and unknown objects added, order permuted"""
    t = []
    canon = True
    for o in tree:
        if o[0] == "L":
            if o[1] == W.G_PAD:
                continue
            if o[1] in (W.G_CD, W.G_ECD) and rng.random() < 0.4:
                continue
            t.append(["L", o[1], o[2]])
            if o[1] == W.G_CD and rng.random() < 0.15:
                t.append(["L", o[1], o[2]]); canon = False
        else:
            if rng.random() < 0.25:
                continue
            ch = []
            for g, d in o[2]:
                if g == W.G_PAD:
                    continue
                if g in (W.G_META, W.G_METALIB) and rng.random() < 0.4:
                    continue
                ch.append((g, d))
                if g == W.G_META and rng.random() < 0.1:
                    t.append(["L", g, d]); canon = False
            if rng.random() < 0.5:
                ch.insert(rng.randrange(len(ch) + 1), (W.G_PAD, bytes(rng.choice([0, 1, 100]))))
            if rng.random() < 0.5:
                ch.insert(rng.randrange(len(ch) + 1), (bytes([rng.randrange(256) for _ in range(16)]), bytes(rng.choice([0, 3, 50]))))
            rng.shuffle(ch)
            t.append(["E", o[1], ch])
    if rng.random() < 0.5:
        t.insert(rng.randrange(len(t) + 1), ["L", W.G_PAD, bytes(rng.choice([0, 1, 24, 2000]))])
    if rng.random() < 0.5:
        t.insert(rng.randrange(len(t) + 1), ["L", bytes([rng.randrange(256) for _ in range(16)]), bytes([rng.randrange(256) for _ in range(rng.choice([0, 1, 40]))])])
    if rng.random() < 0.4:
        rng.shuffle(t)
    return t, canon


def layout_scenario(ctx, st, data):
    from mutagen.asf import ASF
    from .engine import pad_callback
    if len(st.after) > 80_000:
        return
    p = model_parse(ctx, st.after)
    if p is None:
        return
    rng = ctx.rng
    tree, canon = mutate_tree(rng, p["tree"])
    audio = st.after[len(st.after) - p["dlen"]:][:rng.choice([0, 1, 5000])]
    r = ctx.model.call("asf_build", enc_tree(tree), hx(audio))
    if not r.startswith("ok "):
        ctx.disagree("fam.asf", "asf_build failed", dict(data, reply=r[:100]))
        return
    f0 = unhx(r[3:])
    d2 = dict(data, runner="fam.asf.layout", canon=canon,
              layout=[(o[0] + ":" + (o[1][:4].hex() if o[0] == "L" else ",".join(g[:4].hex() for g, _ in o[2]))) for o in tree])
    if ctx.model.call("asf_wf", hx(f0)) != "ok 1":
        ctx.disagree("fam.asf", "layout built by asf_build is not asf_wf", d2)
        return
    try:
        W.asf(f0)
    except W.Bad as e:
        ctx.disagree("fam.asf", "Python walker rejects a layout the model calls well-formed", dict(d2, walker=str(e)))
        return
    ropen = ctx.model.call("asf_open", hx(f0))
    try:
        o = ASF(io.BytesIO(f0))
    except Exception as e:
        if not ropen.startswith("raise "):
            ctx.disagree("fam.asf", "mutagen cannot load a layout the model loads: %s" % type(e).__name__, d2)
        return
    ctx.count("asf:layout")
    if not ropen.startswith("ok "):
        ctx.disagree("fam.asf", "model mirror reader (asf_open) fails on a layout mutagen loads", dict(d2, reply=ropen[:100]))
        return
    mt = dec_attrs(ropen.split(" ")[2])
    if mt != mutagen_attrs(o.tags):
        ctx.disagree("fam.asf", "layout: tags loaded by mutagen differ from the model's mirror reader",
                     dict(d2, model=repr(mt)[:300], impl=repr(mutagen_attrs(o.tags))[:300]))
    # an explicit ordered attribute list (sometimes on top of the loaded ones)
    new = random_attrs(rng)
    if rng.random() < 0.7:
        del o.tags[:]
    o.tags.extend(new)
    attrs = mutagen_attrs(o.tags)
    mode_name = rng.choice(["default", "zero", "one", "odd", "large", "keep"])
    log = []
    b = io.BytesIO(f0)
    exc = None
    try:
        o.save(b, padding=pad_callback(mode_name, log))
    except mutagen.MutagenError as e:
        exc = ("MutagenError", type(e).__name__)
    except Exception as e:
        exc = ("OTHER", type(e).__name__)
    f1 = b.getvalue()
    reply = ctx.model.call("asf_save", hx(f0), enc_attrs(attrs), MODES[mode_name])
    ctx.corr_cases += 1
    d2["attrs"] = [(n, l, s, ty, (v if not isinstance(v, (str, bytes)) else len(v))) for n, l, s, ty, v in attrs][:20]
    d2["mode"] = mode_name
    parts = compare_bytes(ctx, "layout save", reply, f1, exc, d2)
    if parts and log and parts[2] != "-" and (zp(parts[2]), zp(parts[3])) != (log[0][0], log[0][1]):
        ctx.disagree("fam.asf", "layout save: padding callback received different (info.padding, info.size)",
                     dict(d2, model=[zp(parts[2]), zp(parts[3])], impl=list(log[0][:2])))
    if exc is not None:
        return
    # placement: the model's placement of the list, read independently
    pl = ctx.model.call("asf_place", enc_attrs(attrs)).split(" ")
    placed = [dec_attrs(x) for x in pl[1:5]]
    try:
        w1 = W.asf(f1)
    except W.Bad as e:
        ctx.disagree("fam.asf", "layout save: file written by mutagen rejected by the walker", dict(d2, walker=str(e)))
        return
    expect = canon_set([(0, n, l or 0, s or 0, ty, v) for n, l, s, ty, v in attrs])
    if canon:
        check_after(ctx, "layout save", f1, d2, walker=w1, expect=expect)
        got = walker_ltags(w1)
        for ci, lst in enumerate(placed):
            want = [(ci, n, (l or 0) if ci == 3 else 0, (s or 0) if ci >= 2 else 0, ty, v) for n, l, s, ty, v in lst]
            if [x for x in got if x[0] == ci] != want:
                ctx.disagree("fam.asf", "layout save: attributes of object class %d in the file differ from the model's placement" % ci,
                             dict(d2, file=repr([x for x in got if x[0] == ci])[:300], model=repr(want)[:300]))
    else:
        # the Python walker only decodes tag objects at their canonical level; the model reads them wherever they are
        check_after(ctx, "layout save", f1, d2)
    # placement is the identity on a reloaded list
    rr = ctx.model.call("asf_reload_attrs", enc_attrs(attrs))
    if rr.startswith("ok ") and canon:
        try:
            o2 = ASF(io.BytesIO(f1))
            if dec_attrs(rr[3:]) != mutagen_attrs(o2.tags):
                ctx.disagree("fam.asf", "layout save: reloaded tags differ from the model's reload form of the placement",
                             dict(d2, model=repr(dec_attrs(rr[3:]))[:300], impl=repr(mutagen_attrs(o2.tags))[:300]))
        except Exception as e:
            ctx.disagree("fam.asf", "layout save: mutagen cannot reload its own file: %s" % type(e).__name__, d2)
    # delete
    b = io.BytesIO(f1)
    exc2 = None
    try:
        o.delete(b)
    except mutagen.MutagenError as e:
        exc2 = ("MutagenError", type(e).__name__)
    except Exception as e:
        exc2 = ("OTHER", type(e).__name__)
    f2 = b.getvalue()
    reply = ctx.model.call("asf_delete", hx(f1))
    ctx.corr_cases += 1
    compare_bytes(ctx, "layout delete", reply, f2, exc2, d2)
    if exc2 is None:
        check_after(ctx, "layout delete", f2, d2, expect_empty=True)
