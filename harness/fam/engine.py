"""Edit-history engine shared by the whole-file properties (C01 C02 C03 C07 C08 C09 ...).
A history is a list of operations applied through mutagen's public API to an in-memory file; after each
operation the file bytes are segmented/validated/decoded by the independent walkers and the per-property
predicates are evaluated.  Every random choice comes from the rng passed in."""
import io, os, copy, traceback
import mutagen
from . import kinds as KM
from . import walkers as W
from .kinds import KINDS

PADMODES = ["default", "none", "zero", "one", "odd", "large", "keep"]


def pad_callback(mode, log):
    def cb(info):
        if mode == "default":
            r = info.get_default_padding()
        elif mode == "zero":
            r = 0
        elif mode == "one":
            r = 1
        elif mode == "odd":
            r = 777
        elif mode == "large":
            r = 50000
        elif mode == "keep":
            r = max(info.padding, 0)
        log.append((info.padding, info.size, r))
        return r
    return cb


class Step:
    __slots__ = ("op", "arg", "before", "after", "exc", "cb", "mem", "exp_indep", "v2", "v1", "obj_tags_after", "wbefore", "wafter", "walk_err", "v23conv")

    def __init__(self, op, arg, before):
        self.op, self.arg, self.before = op, arg, before
        self.after = before; self.exc = None; self.cb = []; self.mem = None; self.exp_indep = None
        self.v2 = 4; self.v1 = 1; self.obj_tags_after = None; self.wbefore = None; self.wafter = None; self.walk_err = None; self.v23conv = False

    def brief(self):
        return "%s(%s)" % (self.op, self.arg) if self.arg is not None else self.op


def gen_history(rng, kind, nops):
    ops = []
    for _ in range(nops):
        r = rng.random()
        if r < 0.35:
            ops.append(("set", rng.choice(["tiny", "tiny", "mid", "mid", "huge"])))
        elif r < 0.65:
            ops.append(("save", rng.choice(PADMODES if kind.padding else ["none"])))
        elif r < 0.72:
            ops.append(("fresh", None))
        elif r < 0.82:
            ops.append(("delete", None))
        elif r < 0.88:
            ops.append(("moddelete", None))
        elif r < 0.94:
            ops.append(("clear", None))
        else:
            ops.append(("reload", None))
    return ops


def save_kwargs(kind, rng, mode, log, allow_versions=True):
    kw = {}
    if kind.padding and mode != "none":
        kw["padding"] = pad_callback(mode, log)
    return kw


class Runner:
    """applies operations; keeps the current bytes and the live object"""
    def __init__(self, kind, data, rng, id3_opts=False):
        self.kind, self.cur, self.rng = kind, data, rng
        self.obj = None
        self.id3_opts = id3_opts
        self.v23shape = False
        self.steps = []

    def _open(self):
        self.obj = self.kind.open(io.BytesIO(self.cur))
        self.v23shape = False

    def apply(self, op, arg):
        k = self.kind
        st = Step(op, arg, self.cur)
        b = io.BytesIO(self.cur)
        try:
            if self.obj is None or op in ("fresh", "reload"):
                self._open()
            o = self.obj
            if op == "set":
                KM.apply_tags(k, o, self.rng, arg)
            elif op == "clear":
                KM.clear_tags(k, o)
            elif op in ("save", "fresh"):
                mode = arg if op == "save" else "none"
                kw = save_kwargs(k, self.rng, mode, st.cb)
                if k.style == "id3" and self.id3_opts:
                    st.v2 = self.rng.choice([4, 4, 3])
                    if self.v23shape:
                        st.v2 = 3       # frames converted by update_to_v23 belong in a v2.3 tag
                    kw["v2_version"] = st.v2
                    if k.family == "id3":
                        st.v1 = self.rng.choice([0, 1, 2])
                        kw["v1"] = st.v1
                    if st.v2 == 3 and k.tags_of(o) is not None and self.rng.random() < 0.6:
                        # the documented way of writing v2.3: convert the frames first
                        k.tags_of(o).update_to_v23()
                        st.v23conv = True
                        self.v23shape = True
                if k.name == "FLAC" and self.cur[:3] == b"ID3" and self.rng.random() < 0.5:
                    kw["deleteid3"] = True
                    st.v1 = "deleteid3"
                st.mem = KM.canon_mem(k, o)
                st.exp_indep = KM.expected_indep(k, o, st.v2)
                b.seek(0)
                o.save(b, **kw)
                st.after = b.getvalue()
            elif op == "delete":
                b.seek(0)
                o.delete(b)
                st.after = b.getvalue()
                st.obj_tags_after = KM.canon_mem(k, o)
            elif op == "moddelete":
                fn = k.module_delete()
                if fn is None:
                    b.seek(0); o.delete(b)
                else:
                    b.seek(0); fn(b)
                    self.obj = None
                st.after = b.getvalue()
        except mutagen.MutagenError as e:
            st.exc = ("MutagenError", type(e).__name__, str(e)[:100])
            st.after = b.getvalue()
            self.obj = None
        except Exception as e:
            st.exc = ("OTHER", type(e).__name__, str(e)[:100], traceback.format_exc()[-400:])
            st.after = b.getvalue()
            self.obj = None
        self.cur = st.after
        self.steps.append(st)
        return st


def safe_walk(kind, data):
    try:
        return kind.walk(data), None
    except W.Bad as e:
        return None, str(e)


def load_info(kind, data):
    if kind.is_tagclass:
        return None
    try:
        return KM.info_of(kind.cls(io.BytesIO(data)))
    except Exception as e:
        return ("LOADFAIL", type(e).__name__, str(e)[:80])


# ------------------------------------------------------------------------------------ predicates
ALLOWED_NEW = {
    "mp4": ("moov/udta/meta/hdlr", "moov/udta/meta/free", "moov/udta/meta", "moov/udta/free", "moov/free"),
    "asf": ("hext-fixed",),
}


def foreign_preserved(kind, wb, wa, deleteid3=False):
    """C02: every foreign element byte-identical and in the same relative order (None = ok, else message)"""
    fb, fa = wb["foreign"], wa["foreign"]
    if deleteid3:
        # the call asked for the removal of the ID3v2 prefix (and of a trailing ID3v1 tag)
        fb = [(l, (b"" if l == "id3-prefix" else (d[:-128] if l == "audio" and len(d) >= 128 and d[-128:-125] == b"TAG" else d))) for l, d in fb]
    if fb == fa:
        return None
    allowed = ALLOWED_NEW.get(kind.family)
    if allowed:
        i = 0
        for lab, data in fa:
            if i < len(fb) and (lab, data) == fb[i]:
                i += 1
            elif lab in allowed:
                continue
            else:
                break
        else:
            if i == len(fb):
                return None
    # describe the first difference
    for j in range(max(len(fb), len(fa))):
        x = fb[j] if j < len(fb) else None
        y = fa[j] if j < len(fa) else None
        if x != y:
            lx = x[0] if x else None
            ly = y[0] if y else None
            if x and y and lx == ly:
                a, b2 = x[1], y[1]
                k = next((i for i in range(min(len(a), len(b2))) if a[i] != b2[i]), min(len(a), len(b2)))
                return "element %r changed (len %d -> %d, first difference at byte %d)" % (lx, len(a), len(b2), k)
            return "element list differs at index %d: %r vs %r" % (j, lx, ly)
    return "foreign data differs"


def measured_padding(kind, w):
    return w["padding"]


def has_tags(kind, w):
    t = w["tags"]
    if t is None:
        return False
    if kind.style == "vc":
        return bool(t["items"])
    if kind.style == "id3":
        return True      # a tag header is present
    if kind.style in ("ape", "mp4", "asf"):
        return bool(t)
    return False
