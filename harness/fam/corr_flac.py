"""Correspondence of the FLAC family model (coq/model/Fam_flac.v, extracted) with mutagen.flac / mutagen._vorbis.

For every step of every history of the shared engine on kind FLAC the module keeps a *shadow* of the live
mutagen object (its metadata_blocks list as the model's flac_open returns it, and the vendor string of its
tags object) and
  * save / fresh : model flac_save_obj(before, shadow blocks, tags actually saved, padding callback of the mode)
                   must equal st.after byte for byte (and raise the same exception class); the (info.padding,
                   info.size) pair handed to the callback must be what the model's callback saw;
  * delete       : model flac_delete_obj(before, shadow blocks) == st.after;   moddelete: flac_delete(before);
  * afterwards   : the model's independent reader flac_load(st.after) must return exactly vendor + comments that
                   were set (None after a delete), flac_wf(st.after) must hold, and no padding may be left by a
                   delete that removed a comment block.
A difference confined to the payload of a STREAMINFO / SEEKTABLE / CUESHEET / PICTURE / secondary VORBIS_COMMENT
block (which mutagen re-renders from parsed fields and the model keeps raw) is counted as an observation
(`flac:rerender-diff`), everything else is a disagreement.
On `fresh` steps an additional scenario exercises layouts the samples do not have (ID3v2 prefix, deleteid3,
ID3v1 trailer, several padding / comment blocks, unknown block types, pictures) built by the model's flac_build."""
import io, re
import mutagen
from common import hx, unhx, zs, zp, coq_bytes, vm_shard

KINDS = {"FLAC"}
LIMIT = 300_000
MODES = {"default": "default", "none": "none", "zero": "c0", "one": "c1", "odd": "c" + zs(777),
         "large": "c" + zs(50000), "keep": "keep"}
RERENDERED = (0, 3, 5, 6)


class _S:
    prev_w = None        # identity of the walker result after the previous step (continuation test)
    obj = None           # None: no live object; "?": live object with unknown shadow; else list of [code, ovf, payload]
    vendor = None        # vendor bytes of the object's tags (None: object has no tags)
    vm_done = False


def default_vendor():
    from mutagen._vorbis import VComment
    return VComment.vendor.encode("utf-8")


def enc_blocks(bs):
    return ",".join("%s/%s/%s" % (zs(c), zs(o), hx(d)) for c, o, d in bs) or "-"


def dec_blocks(s):
    if s == "-":
        return []
    out = []
    for b in s.split(","):
        c, o, d = b.split("/")
        out.append([zp(c), zp(o), unhx(d)])
    return out


def enc_comments(cs):
    return ",".join("%s=%s" % (hx(k), hx(v)) for k, v in cs) or "-"


def dec_comments(s):
    if s == "-":
        return []
    return [tuple(unhx(x) for x in kv.split("=")) for kv in s.split(",")]


def vendor_of_payload(pl):
    n = int.from_bytes(pl[:4], "little")
    return pl[4:4 + n].decode("utf-8", "replace").encode("utf-8")


def model_open(ctx, data):
    r = ctx.model.call("flac_open", hx(data))
    if r.startswith("ok "):
        return dec_blocks(r[3:]), None
    return None, r


def model_parse(ctx, data):
    r = ctx.model.call("flac_parse", hx(data))
    if not r.startswith("ok "):
        return None
    _, plen, bs, alen, pad = r.split(" ")
    return dict(plen=zp(plen), blocks=dec_blocks(bs), alen=zp(alen), padding=zp(pad))


def exc_name(st_exc):
    if st_exc is None:
        return None
    return "MutagenError" if st_exc[0] == "MutagenError" else st_exc[1]


def only_rerender_diff(ctx, a, b):
    """a, b: file bytes; True when they differ only inside the payload of blocks mutagen re-renders"""
    pa, pb = model_parse(ctx, a), model_parse(ctx, b)
    if pa is None or pb is None:
        return False
    if a[:pa["plen"]] != b[:pb["plen"]] or a[len(a) - pa["alen"]:] != b[len(b) - pb["alen"]:]:
        return False
    if len(pa["blocks"]) != len(pb["blocks"]):
        return False
    seen_vc = False
    diff = False
    for x, y in zip(pa["blocks"], pb["blocks"]):
        if x[0] != y[0]:
            return False
        secondary = x[0] == 4 and seen_vc
        if x[0] == 4:
            seen_vc = True
        if x[2] != y[2]:
            if x[0] in RERENDERED or secondary:
                diff = True
            else:
                return False
    return diff


def compare_bytes(ctx, what, model_reply, after, exc, data):
    """model_reply: 'ok x.. [p s]' or 'raise Name'"""
    want_exc = exc_name(exc)
    if model_reply.startswith("raise "):
        got = model_reply[6:]
        if want_exc is None:
            ctx.disagree("fam.flac", "%s: model raises %s, mutagen succeeds" % (what, got), data)
        elif got != want_exc:
            ctx.disagree("fam.flac", "%s: model raises %s, mutagen raises %s" % (what, got, want_exc), data)
        return None
    if not model_reply.startswith("ok "):
        ctx.disagree("fam.flac", "%s: model error" % what, dict(data, reply=model_reply[:200]))
        return None
    if want_exc is not None:
        ctx.disagree("fam.flac", "%s: mutagen raises %s, model succeeds" % (what, want_exc), data)
        return None
    parts = model_reply.split(" ")
    out = unhx(parts[1])
    if out != after:
        if only_rerender_diff(ctx, out, after):
            ctx.count("flac:rerender-diff")
        else:
            k = next((i for i in range(min(len(out), len(after))) if out[i] != after[i]), min(len(out), len(after)))
            ctx.disagree("fam.flac", "%s: file bytes differ" % what,
                         dict(data, model_len=len(out), impl_len=len(after), first_diff=k,
                              model_at=out[max(0, k - 4):k + 12].hex(), impl_at=after[max(0, k - 4):k + 12].hex()))
    return parts


def check_after(ctx, what, after, expect_tags, data, expect_nopad=False):
    """independent reader + well-formedness of the bytes mutagen wrote; expect_tags: None | (vendor, comments) | 'skip'"""
    r = ctx.model.call("flac_wf", hx(after))
    if r != "ok 1":
        ctx.disagree("fam.flac", "%s: file written by mutagen is not well-formed for the model (flac_wf)" % what, dict(data, reply=r))
    if expect_tags != "skip":
        r = ctx.model.call("flac_load", hx(after))
        if expect_tags is None:
            if r != "ok none":
                ctx.disagree("fam.flac", "%s: independent reader still finds a comment block" % what, dict(data, reply=r[:200]))
        else:
            want = "ok %s %s" % (hx(expect_tags[0]), enc_comments(expect_tags[1]))
            if r != want:
                ctx.disagree("fam.flac", "%s: independent reader (flac_load) does not return the tags that were saved" % what,
                             dict(data, reply=r[:300], want=want[:300]))
    if expect_nopad:
        p = model_parse(ctx, after)
        if p is not None and p["padding"] != 0:
            ctx.disagree("fam.flac", "%s: padding left after delete" % what, dict(data, padding=p["padding"]))


def sess_step(ctx, f, obj, op, tags=None, mode="none"):
    """one step of the Coq session model (Model.Fam_flac.sess_step): returns (file', obj' or None)"""
    r = ctx.model.call("flac_sess_step", hx(f), "none" if obj is None else enc_blocks(obj), op,
                       hx(tags[0]) if tags is not None else "none", enc_comments(tags[1]) if tags is not None else "-", mode)
    if not r.startswith("ok "):
        return None, None
    _, f2, ob = r.split(" ")
    return unhx(f2), (None if ob == "none" else dec_blocks(ob))


def same_or_rerender(ctx, a, b):
    if a == b:
        return True
    if only_rerender_diff(ctx, a, b):
        ctx.count("flac:rerender-diff")
        return True
    return False


def check_step(ctx, kind, st):
    """The live mutagen object is shadowed by the object component of the Coq session model: every operation of the
    engine is also performed by Model.Fam_flac.sess_step (the function the history theorems C02/C03_flac_session are
    about) and must produce the same file."""
    S = _S
    if not S.vm_done:
        S.vm_done = True
        vm_crosscheck(ctx)
        lenient_stream(ctx)
    if st.wbefore is not S.prev_w or S.prev_w is None:
        S.obj = None          # a new history starts with a new Runner
        S.vendor = None
    S.prev_w = st.wafter
    data = {"kind": kind.name, "op": st.brief(), "before_len": len(st.before), "before_head": st.before[:64].hex()}
    big = len(st.before) > LIMIT or len(st.after) > LIMIT
    op = st.op
    # ---- the engine (re)opens the file before any operation when it holds no object
    opened = False
    if S.obj is None or op in ("fresh", "reload"):
        if big:
            ctx.count("flac:skip-large")
            S.obj = "?"
        else:
            _, bs = sess_step(ctx, st.before, None, "reload")
            ctx.corr_cases += 1
            if bs is None:
                # the model cannot load the file: mutagen must have failed too
                r = ctx.model.call("flac_open", hx(st.before))
                if st.exc is None or exc_name(st.exc) != r[6:]:
                    ctx.disagree("fam.flac", "open: model %s, mutagen %s" % (r[:40], exc_name(st.exc)), data)
                S.obj = None
                return
            S.obj = bs
            vcs = [b for b in bs if b[0] == 4]
            S.vendor = vendor_of_payload(vcs[0][2]) if vcs else None
            opened = True
    if st.exc is not None and S.obj != "?" and op in ("set", "clear", "reload"):
        ctx.disagree("fam.flac", "%s raised %s although the model loads the file" % (op, exc_name(st.exc)), data)
    if S.obj == "?":
        if st.exc is not None or op == "moddelete":
            S.obj = None
        if big:
            return
        # shadow unknown (object opened on a file too large for the model): only the checks on the result
        if op in ("save", "fresh") and st.exc is None:
            check_after(ctx, op, st.after, "skip", data)
        return
    obj = S.obj
    if op == "set":
        if S.vendor is None:
            S.vendor = default_vendor()       # add_tags(): a new VCFLACDict appended to metadata_blocks
            _, S.obj = sess_step(ctx, st.before, obj, "addtags", (S.vendor, []))
    elif op in ("save", "fresh"):
        if big:
            ctx.count("flac:skip-large")
            S.obj = "?"
        else:
            mode = MODES[st.arg if op == "save" else "none"]
            tags = None if st.mem is None else (S.vendor, list(st.exp_indep))
            did3 = "1" if st.v1 == "deleteid3" else "0"      # the engine passes deleteid3=True on some ID3-prefixed files
            if did3 == "1":
                ctx.count("flac:save-deleteid3")
            if tags is None:
                reply = ctx.model.call("flac_save_obj", hx(st.before), enc_blocks(obj), "none", "-", mode, did3)
            elif opened and op == "fresh" and any(b[0] == 4 for b in obj):
                reply = ctx.model.call("flac_save", hx(st.before), hx(tags[0]), enc_comments(tags[1]), mode, did3)
            else:
                reply = ctx.model.call("flac_save_obj", hx(st.before), enc_blocks(obj), hx(tags[0]), enc_comments(tags[1]), mode, did3)
            ctx.corr_cases += 1
            parts = compare_bytes(ctx, "save", reply, st.after, st.exc, data)
            if parts and st.cb and len(parts) >= 4 and parts[2] != "-":
                p_in, size_in, _ = st.cb[0]
                if (zp(parts[2]), zp(parts[3])) != (p_in, size_in):
                    ctx.disagree("fam.flac", "save: padding callback received different (info.padding, info.size)",
                                 dict(data, model=[zp(parts[2]), zp(parts[3])], impl=[p_in, size_in]))
            f2, obj2 = sess_step(ctx, st.before, obj, "save", tags, mode)
            if did3 == "1":
                # sess_step (the function of the session theorems) models saves without deleteid3; the object it leaves
                # behind does not depend on the option, the file of this step is the one of flac_save_obj compared above
                if parts:
                    f2 = unhx(parts[1])
            if f2 is None or not same_or_rerender(ctx, f2, st.after):
                ctx.disagree("fam.flac", "save: session model (sess_step) gives a different file", data)
            S.obj = obj2
            if st.exc is None:
                check_after(ctx, "save", st.after, tags if tags is not None else "skip", data)
                ctx.count("flac:save-compared")
            if op == "fresh" and st.exc is None:
                extra_layouts(ctx, st, data)
    elif op == "delete":
        if big:
            ctx.count("flac:skip-large")
            S.obj = "?"
        else:
            reply = ctx.model.call("flac_delete_obj", hx(st.before), enc_blocks(obj))
            ctx.corr_cases += 1
            compare_bytes(ctx, "delete", reply, st.after, st.exc, data)
            had = any(b[0] == 4 for b in obj)
            f2, obj2 = sess_step(ctx, st.before, obj, "delete")
            if f2 is None or not same_or_rerender(ctx, f2, st.after):
                ctx.disagree("fam.flac", "delete: session model (sess_step) gives a different file", data)
            S.obj = obj2
            if st.exc is None:
                # a live object that got its tags from add_tags and was never saved has a comment block the file lacks
                p = model_parse(ctx, st.before)
                infile = p is not None and any(b[0] == 4 for b in p["blocks"])
                check_after(ctx, "delete", st.after, None if (had or not infile) else "skip", data, expect_nopad=had or S.vendor is not None)
                ctx.count("flac:delete-compared")
    elif op == "moddelete":
        if big:
            ctx.count("flac:skip-large")
        else:
            reply = ctx.model.call("flac_delete", hx(st.before))
            ctx.corr_cases += 1
            compare_bytes(ctx, "module delete", reply, st.after, st.exc, data)
            f2, _ = sess_step(ctx, st.before, obj, "moddelete")
            if f2 is None or not same_or_rerender(ctx, f2, st.after):
                ctx.disagree("fam.flac", "module delete: session model (sess_step) gives a different file", data)
            if st.exc is None:
                p = model_parse(ctx, st.before)
                had = p is not None and any(b[0] == 4 for b in p["blocks"])
                check_after(ctx, "module delete", st.after, None, data, expect_nopad=had)
                ctx.count("flac:moddelete-compared")
        S.obj = None
    if st.exc is not None:
        S.obj = None


# ---------------------------------------------------------------------------------- synthetic layouts
def extra_layouts(ctx, st, data):
    """layouts built by the model's flac_build from the blocks of the current file; saved and deleted through
    mutagen with and without deleteid3 and compared with the model"""
    from mutagen.flac import FLAC, delete as flac_module_delete
    p = model_parse(ctx, st.after)
    if p is None or len(st.after) > 60_000:
        return
    rng = ctx.rng
    audio = st.after[len(st.after) - p["alen"]:]
    base = [b for b in p["blocks"] if b[0] != 1]
    si, rest = base[:1], base[1:]
    extra = []
    if rng.random() < 0.6:
        extra.append([2, -1, b"APPL" + bytes(range(rng.choice([0, 3, 40])))])
    if rng.random() < 0.5:
        extra.append([rng.choice([9, 30, 126]), -1, bytes([rng.randrange(256) for _ in range(rng.choice([0, 1, 17]))])])
    if rng.random() < 0.5:
        extra.append([1, -1, bytes(rng.choice([0, 5, 1000]))])
    if rng.random() < 0.4:
        mime, desc, img = b"image/png", "dä".encode("utf-8"), bytes(range(200)) * rng.choice([0, 1, 3])
        extra.append([6, -1, (3).to_bytes(4, "big") + len(mime).to_bytes(4, "big") + mime + len(desc).to_bytes(4, "big") + desc +
                      b"".join(x.to_bytes(4, "big") for x in (1, 2, 24, 0, len(img))) + img])
    if rng.random() < 0.3:
        v = b"second"
        extra.append([4, -1, len(v).to_bytes(4, "little") + v + (1).to_bytes(4, "little") + (3).to_bytes(4, "little") + b"a=b"])
    blocks = si + rest + extra
    tail = blocks[1:]
    rng.shuffle(tail)
    blocks = blocks[:1] + tail
    if rng.random() < 0.5:
        blocks.append([1, -1, bytes(rng.choice([0, 1, 300, 4000]))])
    id3 = None
    if rng.random() < 0.6:
        id3 = bytes([rng.randrange(256) for _ in range(rng.choice([0, 1, 127, 128, 300]))])
    r = rng.random()
    if r < 0.3:
        audio = audio + b"TAG" + bytes(125)
    elif r < 0.45:
        audio = audio[:rng.choice([0, 2, 10, 100, 127, 128, 130])]      # (nearly) no audio: the ID3v1 test of deleteid3 looks into the metadata
    tiny = rng.random() < 0.12
    if tiny:
        # a file shorter than 128 bytes (regression: deleteid3 used to seek(-128, 2) and to look into the metadata blocks)
        blocks, id3, audio = si, None, audio[:rng.choice([0, 2, 10])]
    r = ctx.model.call("flac_build", hx(id3) if id3 is not None else "none", enc_blocks(blocks), hx(audio))
    if not r.startswith("ok "):
        ctx.disagree("fam.flac", "flac_build failed", dict(data, reply=r[:100]))
        return
    f0 = unhx(r[3:])
    d2 = dict(data, layout=[b[0] for b in blocks], id3=None if id3 is None else len(id3), runner="fam.flac.layout")
    if ctx.model.call("flac_wf", hx(f0)) != "ok 1":
        ctx.disagree("fam.flac", "layout built by flac_build is not flac_wf", d2)
        return
    try:
        o = FLAC(io.BytesIO(f0))
    except Exception as e:
        ctx.disagree("fam.flac", "mutagen cannot load a layout the model calls well-formed: %s" % type(e).__name__, d2)
        return
    ctx.count("flac:layout")
    mode_name = rng.choice(["default", "zero", "one", "odd", "large", "keep"])
    did3 = rng.random() < 0.5
    from .engine import pad_callback
    log = []
    if o.tags is None:
        o.add_tags()
        vendor = default_vendor()
    else:
        vendor = o.tags.vendor.encode("utf-8")
    if tiny:
        did3 = rng.random() < 0.8
        if rng.random() < 0.5:
            mode_name = "zero"
        o.tags["title"] = [rng.choice(["Zq", "TAG" + "x" * 111])]     # the second one put "TAG" 128 bytes before EOF
        ctx.count("flac:layout-tiny")
    else:
        o.tags["title"] = ["Zq" + "ä" * rng.choice([0, 1, 200, 3000])]
    if not tiny and rng.random() < 0.3:
        o.tags["x y"] = ["", "=="]
    comments = [(k.encode("ascii"), v.encode("utf-8")) for k, v in list(o.tags)]
    b = io.BytesIO(f0)
    exc = None
    try:
        o.save(b, deleteid3=did3, padding=pad_callback(mode_name, log))
    except mutagen.MutagenError as e:
        exc = ("MutagenError", type(e).__name__)
    except Exception as e:
        exc = ("OTHER", type(e).__name__)
    f1 = b.getvalue()
    reply = ctx.model.call("flac_save", hx(f0), hx(vendor), enc_comments(comments), MODES[mode_name], "1" if did3 else "0")
    ctx.corr_cases += 1
    parts = compare_bytes(ctx, "layout save (deleteid3=%d)" % did3, reply, f1, exc, d2)
    if parts and log and parts[2] != "-" and (zp(parts[2]), zp(parts[3])) != (log[0][0], log[0][1]):
        ctx.disagree("fam.flac", "layout save: padding callback received different (info.padding, info.size)",
                     dict(d2, model=[zp(parts[2]), zp(parts[3])], impl=list(log[0][:2])))
    if exc is None:
        check_after(ctx, "layout save", f1, (vendor, comments), d2)
        # module-level delete and delete again
        b = io.BytesIO(f1)
        try:
            flac_module_delete(b)
            exc2 = None
        except mutagen.MutagenError as e:
            exc2 = ("MutagenError", type(e).__name__)
        f2 = b.getvalue()
        reply = ctx.model.call("flac_delete", hx(f1))
        ctx.corr_cases += 1
        compare_bytes(ctx, "layout delete", reply, f2, exc2, d2)
        if exc2 is None:
            check_after(ctx, "layout delete", f2, None, d2, expect_nopad=True)


# ---------------------------------------------------------------------------------- vm_compute cross-check
def coq_vc(vendor, comments):
    return "(mkVC %s [%s])" % (coq_bytes(vendor), "; ".join("(%s, %s)" % (coq_bytes(k), coq_bytes(v)) for k, v in comments))


def vm_crosscheck(ctx):
    """the extracted binary and Coq's own evaluator must agree on flac_save / flac_delete / flac_wf / flac_load for small
    synthetic files (once per run)"""
    rng = ctx.rng
    si = bytes([16, 0, 16, 0, 0, 0, 0, 0, 0, 0, 10, 196, 66, 240, 0, 0, 0, 0]) + bytes(16)
    cases, keys = [], []
    for i in range(14):
        blocks = [[0, -1, si]]
        if rng.random() < 0.7:
            v = b"v" * rng.choice([0, 2])
            blocks.append([4, -1, len(v).to_bytes(4, "little") + v + (1).to_bytes(4, "little") + (3).to_bytes(4, "little") + b"a=b"])
        if rng.random() < 0.5:
            blocks.append([rng.choice([2, 9]), -1, bytes(rng.randrange(256) for _ in range(rng.choice([0, 5])))])
        if rng.random() < 0.7:
            blocks.append([1, -1, bytes(rng.choice([0, 9, 40]))])
        id3 = bytes(rng.choice([0, 3])) if rng.random() < 0.4 else None
        audio = bytes([255, 248, 1, 2, 3])
        if i == 13:
            audio = b"\x00\x01"            # not well-formed (no frame sync)
        r = ctx.model.call("flac_build", hx(id3) if id3 is not None else "none", enc_blocks(blocks), hx(audio))
        f0 = unhx(r[3:])
        vendor = b"m"
        comments = [(b"title", "ä=".encode("utf-8") + b"x" * rng.choice([0, 1, 30]))] + ([(b"a b", b"")] if rng.random() < 0.5 else [])
        if i == 12:
            comments = [(b"a=b", b"c")]          # invalid key
        mode, cb = rng.choice([("none", "None"), ("default", "(Some cb_default)"), ("keep", "(Some cb_keep)"),
                               ("c0", "(Some (cb_const 0))"), ("c" + zs(777), "(Some (cb_const 777))")])
        F = coq_bytes(f0)
        cases.append("match flac_save %s %s (mkOpts %s false) with Ok d => (0, d) | Raise _ => (1, []) end" % (F, coq_vc(vendor, comments), cb))
        keys.append(("save", f0, vendor, comments, mode))
        cases.append("match flac_delete %s with Ok d => (0, d) | Raise _ => (1, []) end" % F)
        keys.append(("delete", f0))
        cases.append("flac_wf %s" % F)
        keys.append(("wf", f0))
    pre = "From Coq Require Import ZArith List. Import ListNotations. Require Import Base.Py Model.Fam_flac. Open Scope Z_scope."
    res, log = vm_shard("fam_flac", pre, cases)
    if res is None or len(res) != len(cases):
        ctx.disagree("fam.flac.vm_shard", "vm_compute shard failed to run", {"log": str(log)[-300:]})
        return
    for key, r in zip(keys, res):
        ctx.vm_cases += 1
        r = r.replace("%Z", "")
        if key[0] == "wf":
            want = ctx.model.call("flac_wf", hx(key[1]))
            if want != ("ok 1" if r == "true" else "ok 0"):
                ctx.disagree("fam.flac.vm_shard", "flac_wf: extracted %s, vm_compute %s" % (want, r), {"file": key[1].hex()})
            continue
        if key[0] == "save":
            rm = ctx.model.call("flac_save", hx(key[1]), hx(key[2]), enc_comments(key[3]), key[4], "0")
        else:
            rm = ctx.model.call("flac_delete", hx(key[1]))
        m = re.match(r"\((\d), \[([^\]]*)\]\)", r)
        if not m:
            ctx.disagree("fam.flac.vm_shard", "unparsable vm_compute result", {"result": r[:200]})
            continue
        if m.group(1) == "1":
            ok = rm.startswith("raise")
        else:
            bts = bytes(int(x) for x in m.group(2).split(";") if x.strip())
            ok = rm.startswith("ok ") and unhx(rm.split(" ")[1]) == bts
        if not ok:
            ctx.disagree("fam.flac.vm_shard", "%s: extracted binary and vm_compute differ" % key[0], {"file": key[1].hex(), "binary": rm[:120], "vm": r[:120]})


# ---------------------------------------------------------------------------------- malformed stream
def lenient_stream(ctx):
    """the mirror of mutagen's lenient reader (flac_open: _distrust_size blocks read by content, load-time checks) against
    FLAC(fileobj) on every tests/data/*.flac -- including the malformed ones the theorems exclude -- and on truncated /
    corrupted / stretched variants: same outcome class, same block types, same raw sizes of the blocks kept raw (once per run)"""
    import glob, os
    from mutagen.flac import FLAC
    from .kinds import DATA
    rng = ctx.rng
    for pth in sorted(glob.glob(os.path.join(DATA, "*.flac"))):
        d0 = open(pth, "rb").read()
        if len(d0) > 60_000:
            continue
        for i in range(16 if ctx.thorough else 7):
            d = bytearray(d0)
            k = rng.random()
            if i == 0:
                pass
            elif k < 0.3:
                d = d[:rng.randrange(0, min(len(d), 900))]
            elif k < 0.8:
                for _ in range(rng.choice([1, 1, 2, 4])):
                    pos = rng.randrange(0, min(len(d), rng.choice([8, 50, 300, 900])))
                    d[pos] = rng.choice([0, 1, 2, 3, 4, 5, 6, 7, 0x7f, 0x80, 0x81, 0x84, 0xff, rng.randrange(256)])
            else:
                pos = rng.randrange(0, min(len(d), 600))
                d[pos:pos] = bytes(rng.randrange(256) for _ in range(rng.choice([1, 4, 40])))
            d = bytes(d)
            try:
                o = FLAC(io.BytesIO(d))
                exc = None
            except mutagen.MutagenError:
                exc = "MutagenError"
            except Exception as e:
                exc = type(e).__name__
            bs, err = model_open(ctx, d)
            ctx.corr_cases += 1
            ctx.count("flac:malformed-stream")
            mexc = None if bs is not None else err[6:]
            info = {"sample": os.path.basename(pth), "variant": i, "head": d[:80].hex(), "len": len(d)}
            if exc != mexc:
                ctx.disagree("fam.flac", "lenient reader: mutagen %s, model %s" % (exc, mexc), info)
            elif exc is None:
                shape = [(b.code, len(b.write()) if b.code not in (0, 3, 4, 5, 6) else None) for b in o.metadata_blocks]
                mshape = [(b[0], len(b[2]) if b[0] not in (0, 3, 4, 5, 6) else None) for b in bs]
                if shape != mshape:
                    ctx.disagree("fam.flac", "lenient reader: block lists differ", dict(info, impl=str(shape)[:200], model=str(mshape)[:200]))
