"""Correspondence of the APEv2 family model (coq/model/Fam_ape.v, extracted) with mutagen.apev2.

For every step of every history of the shared engine on the APEv2 kinds (Musepack, WavPack, MonkeysAudio,
OptimFROG, TAK through APEv2File-style FileTypes, and the bare tag class mutagen.apev2.APEv2):
  * save / fresh : model ape_save(before, items actually saved) must equal st.after byte for byte (and raise
                   the same exception class).  The items are st.exp_indep = (key bytes in the case given at set
                   time -- `tags.keys()` goes through the casemap --, kind, value bytes) computed by kinds.py
                   from the live object before the save; a FileType whose `tags` is None does not write
                   (FileType.save), the file must then be unchanged.
  * delete       : model ape_delete(before) == st.after (FileType.delete is a no-op while `tags` is None);
    moddelete    : model ape_moddelete(before) == st.after (module-level delete loads the tag first: an empty
                   tag reads as "no tag" and is left in the file);
  * afterwards   : the model's strict independent reader ape_load(st.after) must return exactly what was set
                   (none after a delete / for an empty tag), the mirror reader ape_mut_load likewise, and
                   ape_wf(st.after) must hold whenever ape_wf(st.before) did (C03 one step).
The engine works on io.BytesIO, so the model runs with real=0 (relative seeks clamp at 0).
On a sample of the steps extra layouts the samples do not have are built from st.after and pushed through
mutagen.apev2.APEv2 directly (save, delete, module delete) and through the model: ID3v1 trailer, Lyrics3v2 +
ID3v1 trailer, odd Lyrics3 size fields (int() syntax), tag at the start of the file, duplicated PyMusepack
preamble, header-less (APEv1-style) tag, a second stacked tag, tiny files (BytesIO clamping; also with real
files, real=1), random corruption of the last bytes.  Direct oracles on those layouts (independent of the
model): after a save the file ends with exactly the tag that the independent Python walker decodes to the
items set, the bytes before the old tag start are untouched, and after a delete of a clean layout no APETAGEX
remains.  Python's int() and bytes.decode('utf-8') are compared with ape_pyint / ape_utf8_valid once per run."""
import io, os, re, struct, tempfile
import mutagen
from mutagen.apev2 import APEv2, APEValue
import mutagen.apev2 as A
from common import hx, unhx, zs, zp, coq_bytes, vm_shard
from . import walkers as W

KINDS = {"Musepack", "WavPack", "MonkeysAudio", "OptimFROG", "TAK", "APEv2"}
LIMIT = 300_000
RUNNER = "fam.ape"


class _S:
    prims_done = False
    vm_done = False
    nstep = 0


# ------------------------------------------------------------------ protocol helpers
def enc_items(items):
    return ",".join("%s/%s/%s" % (hx(k), zs(kind), hx(v)) for k, kind, v in items) or "-"


def dec_items(s):
    if s == "-":
        return []
    out = []
    for it in s.split(","):
        k, kind, v = it.split("/")
        out.append((unhx(k), zp(kind), unhx(v)))
    return out


def dec_tags(reply):
    """'ok none' | 'ok items' | 'raise X' -> None | sorted list | ('raise', X)"""
    if reply.startswith("raise "):
        return ("raise", reply[6:])
    if not reply.startswith("ok "):
        return ("error", reply)
    if reply[3:] == "none":
        return None
    return sorted(dec_items(reply[3:]))


def exc_name(e):
    if e is None:
        return None
    return "MutagenError" if e[0] == "MutagenError" else e[1]


def run_impl(fn, data, real=False):
    """apply fn(fileobj) to a file holding data; -> (bytes after, exc tuple or None)"""
    if not real:
        b = io.BytesIO(data)
        try:
            fn(b)
            return b.getvalue(), None
        except mutagen.MutagenError as e:
            return b.getvalue(), ("MutagenError", type(e).__name__)
        except Exception as e:
            return b.getvalue(), ("OTHER", type(e).__name__)
    fd, path = tempfile.mkstemp(prefix="verif_ape_")
    try:
        with os.fdopen(fd, "wb") as f:
            f.write(data)
        exc = None
        try:
            with open(path, "rb+") as f:
                fn(f)
        except mutagen.MutagenError as e:
            exc = ("MutagenError", type(e).__name__)
        except Exception as e:
            exc = ("OTHER", type(e).__name__)
        with open(path, "rb") as f:
            return f.read(), exc
    finally:
        os.unlink(path)


def compare(ctx, what, reply, after, exc, data):
    """reply: model's 'ok x..' / 'raise Name'; after/exc: the implementation's result"""
    ctx.corr_cases += 1
    want = exc_name(exc)
    if reply.startswith("raise "):
        got = reply[6:]
        if want is None:
            ctx.disagree(RUNNER, "%s: model raises %s, implementation succeeds" % (what, got), data)
            return False
        if (got == "MutagenError") != (want == "MutagenError") or (got != "MutagenError" and got != want):
            ctx.disagree(RUNNER, "%s: exception differs (model %s, implementation %s)" % (what, got, want), data)
            return False
        return True
    if not reply.startswith("ok "):
        ctx.disagree(RUNNER, "%s: model error %s" % (what, reply[:60]), data)
        return False
    if want is not None:
        ctx.disagree(RUNNER, "%s: implementation raises %s, model succeeds" % (what, want), data)
        return False
    m = unhx(reply[3:])
    if m != after:
        k = next((i for i in range(min(len(m), len(after))) if m[i] != after[i]), min(len(m), len(after)))
        d = dict(data); d.update(model_len=len(m), impl_len=len(after), first_diff=k,
                                 model_at=m[max(0, k - 8):k + 24].hex(), impl_at=after[max(0, k - 8):k + 24].hex())
        ctx.disagree(RUNNER, "%s: file bytes differ" % what, d)
        return False
    return True


# ------------------------------------------------------------------ primitives (once per run)
def check_prims(ctx):
    rng = ctx.rng
    alphabet = [b"0", b"1", b"9", b" ", b"\t", b"\n", b"\x0b", b"\x0c", b"\r", b"+", b"-", b"_", b"a", b"\x00", b"\xff", b".", b"x", b"5"]
    fixed = [b"000123", b"  12  ", b"+00012", b"-12345", b"1_2_34", b"_12345", b"12345_", b"1__234", b"      ", b"", b"12 345",
             b"0x1234", b"\x0012345", b"12345\x00", b"+ 1234", b"-_1234", b"999999", b"000000", b"1e5   ", b" -1_0 "]
    cases = fixed + [b"".join(rng.choice(alphabet) for _ in range(rng.choice([6, 6, 6, 3, 0, 7]))) for _ in range(150)]
    for c in cases:
        try:
            want = zs(int(c))
        except ValueError:
            want = "none"
        got = ctx.model.call("ape_pyint", hx(c))
        ctx.corr_cases += 1
        if got != "ok " + want:
            ctx.disagree(RUNNER, "ape_pyint differs from int()", {"input": c.hex(), "model": got, "python": want})
    u = ["", "a", "\u00e9", "\u20ac", "\U0001F600", "\u07ff", "\u0800", "\ud7ff", "\ue000", "\uffff", "\U00010000", "\U0010ffff"]
    ucases = [x.encode("utf-8") for x in u] + [b"\xc0\x80", b"\xc1\xbf", b"\xe0\x80\x80", b"\xe0\x9f\xbf", b"\xed\xa0\x80", b"\xed\x9f\xbf",
              b"\xf0\x80\x80\x80", b"\xf0\x8f\xbf\xbf", b"\xf4\x90\x80\x80", b"\xf5\x80\x80\x80", b"\x80", b"\xc2", b"\xe2\x82", b"\xf0\x9f\x98",
              b"a\xffb", b"\xc2\x41", b"\xe2\x28\xa1", b"\xf0\x28\x8c\xbc", b"\xf8\x88\x80\x80\x80"]
    ucases += [bytes(rng.choice([0x41, 0x80, 0xbf, 0xc2, 0xe0, 0xed, 0xf0, 0xf4, 0xa0, 0x9f, 0x90, 0x8f, 0xff]) for _ in range(rng.randrange(1, 6)))
               for _ in range(150)]
    for c in ucases:
        try:
            c.decode("utf-8"); want = "1"
        except UnicodeDecodeError:
            want = "0"
        got = ctx.model.call("ape_utf8_valid", hx(c))
        ctx.corr_cases += 1
        if got != "ok " + want:
            ctx.disagree(RUNNER, "ape_utf8_valid differs from bytes.decode('utf-8')", {"input": c.hex(), "model": got, "python": want})


# ------------------------------------------------------------------ the engine's steps
def model_tags_after(ctx, kind, st, what, expected, base):
    """ape_load / ape_mut_load / ape_wf on st.after"""
    if len(st.after) > LIMIT:
        return
    exp = sorted(expected) if expected else None
    got = dec_tags(ctx.model.call("ape_load", hx(st.after)))
    ctx.corr_cases += 1
    if got != exp:
        d = dict(base); d.update(expected=repr(exp)[:300], model=repr(got)[:300])
        ctx.disagree(RUNNER, "%s: ape_load(after) differs from what was set" % what, d)
    got = dec_tags(ctx.model.call("ape_mut_load", "0", hx(st.after)))
    ctx.corr_cases += 1
    if got != exp:
        d = dict(base); d.update(expected=repr(exp)[:300], model=repr(got)[:300])
        ctx.disagree(RUNNER, "%s: ape_mut_load(after) differs from what was set" % what, d)
    wfb = ctx.model.call("ape_wf", hx(st.before)) if len(st.before) <= LIMIT else "skip"
    wfa = ctx.model.call("ape_wf", hx(st.after))
    ctx.corr_cases += 1
    if wfb == "ok 1" and wfa != "ok 1":
        ctx.disagree(RUNNER, "%s: ape_wf(before) holds but ape_wf(after) does not" % what, dict(base, wf_after=wfa))
    if wfb == "ok 0":
        ctx.count("ape:before-not-wf")
    if wfa == "ok 0":
        ctx.count("ape:after-not-wf")


def check_step(ctx, kind, st):
    if not _S.prims_done:
        _S.prims_done = True
        check_prims(ctx)
    if not _S.vm_done:
        _S.vm_done = True
        vm_crosscheck(ctx)
    if st.op not in ("save", "fresh", "delete", "moddelete"):
        return
    base = {"kind": kind.name, "op": st.brief(), "before_len": len(st.before), "before_tail": st.before[-200:].hex()}
    if len(st.before) > LIMIT:
        ctx.count("ape:skipped-large")
        return
    _S.nstep += 1
    what = "%s %s" % (kind.name, st.op)
    if st.op in ("save", "fresh"):
        if st.mem is None:
            # FileType.save with tags None writes nothing
            ctx.corr_cases += 1
            ctx.count("ape:save-without-tags")
            if st.after != st.before or st.exc:
                ctx.disagree(RUNNER, "%s: save with tags None changed the file" % what, base)
            return
        items = list(st.exp_indep or [])
        base["items"] = enc_items([(k, kd, v[:40]) for k, kd, v in items])[:400]
        r = ctx.model.call("ape_save", "0", hx(st.before), enc_items(items))
        ok = compare(ctx, what, r, st.after, st.exc, base)
        ctx.count("ape:save")
        if ok and not st.exc:
            model_tags_after(ctx, kind, st, what, items, base)
            # C07 inside the model: saving what the strict reader returns gives the same bytes again
            r2 = ctx.model.call("ape_save", "0", hx(st.after), enc_items(items[::-1]))
            ctx.corr_cases += 1
            if r2 != "ok " + hx(st.after):
                ctx.disagree(RUNNER, "%s: model save is not idempotent / order independent" % what, base)
    elif st.op == "delete":
        if st.obj_tags_after is None and not st.exc:
            ctx.corr_cases += 1
            ctx.count("ape:delete-without-tags")
            if st.after != st.before:
                ctx.disagree(RUNNER, "%s: delete with tags None changed the file" % what, base)
            return
        r = ctx.model.call("ape_delete", "0", hx(st.before))
        ok = compare(ctx, what, r, st.after, st.exc, base)
        ctx.count("ape:delete")
        if ok and not st.exc:
            model_tags_after(ctx, kind, st, what, None, base)
    else:
        r = ctx.model.call("ape_moddelete", "0", hx(st.before))
        ok = compare(ctx, what, r, st.after, st.exc, base)
        ctx.count("ape:moddelete")
        if ok and not st.exc:
            model_tags_after(ctx, kind, st, what, None, base)
    if _S.nstep % 7 == 1 and len(st.after) <= 100_000:
        layouts(ctx, kind, st)


# ------------------------------------------------------------------ synthetic layouts
def id3v1(rng):
    t = b"TAG" + bytes(rng.choice([0x20, 0x41, 0x00, 0x7a]) for _ in range(125))
    return t


def lyrics3(rng, sizefield=None):
    body = b"LYRICSBEGIN" + b"IND0000200" + b"LYR" + b"%05d" % 12 + b"[00:01]hello"
    size = b"%06d" % len(body) if sizefield is None else sizefield(len(body))
    return body + size + b"LYRICS200"


def rand_items(rng):
    out = {}
    for _ in range(rng.randrange(0, 5)):
        k = rng.choice(["Title", "ARTIST", "x y", "~~", "Cover Art (Front)", "ab", "K" * 255, "Zq"])
        kind = rng.choice([0, 0, 1, 2])
        n = rng.choice([0, 1, 3, 7, 8, 9, 40, 300])
        if kind == 1:
            v = bytes(rng.randrange(256) for _ in range(n))
        else:
            v = ("".join(rng.choice(["a", "b", "\x00", "é", "\U0001F600", "TAG", "APETAGEX"]) for _ in range(n))).encode("utf-8")
        out[k.lower()] = (k.encode("ascii"), kind, v)
    return list(out.values())


def set_items(t, items):
    for k, kind, v in items:
        t[k.decode("ascii")] = APEValue(v if kind == 1 else v.decode("utf-8"), kind)


def indep_tail_check(ctx, what, after, items, prefix, data):
    """direct oracle on a saved file: it ends with one tag that decodes (independent walker) to the items set,
    and the prefix (bytes before the old tag start) is unchanged"""
    ctx.oracle_cases += 1
    try:
        loc = W.ape_locate(after)
        if loc is None or loc[1] != len(after):
            ctx.violation("oracle", "C03 APEv2: no APEv2 tag at the very end of the file after save (%s)" % what, data)
            return
        got = sorted(W.ape_items(after, loc[2], loc[3], loc[4]))
        start = loc[0]
    except W.Bad as e:
        ctx.violation("oracle", "C03 APEv2: tag structurally invalid after save (%s): %s" % (what, str(e)[:50]), data)
        return
    if got != sorted(items):
        ctx.violation("oracle", "C01 APEv2: independent decoding of the saved tag differs from what was set (%s)" % what, data)
    if prefix is not None and after[:start] != prefix:
        if after[:start].startswith(prefix) and after[len(prefix):start][:3] in (b"TAG", b"LYR"):
            ctx.violation("oracle", "C03 APEv2: save left the old trailing ID3v1/Lyrics3 block in front of the new tag (%s)" % what, data)
        else:
            ctx.violation("oracle", "C02 APEv2: bytes before the tag changed by save (%s)" % what, data)
    # items sorted by (length, bytes) -- the canonical order C07 relies on
    raw = []
    p = loc[2]
    for k, kind, v in W.ape_items(after, loc[2], loc[3], loc[4]):
        n = 8 + len(k) + 1 + len(v)
        raw.append(after[p:p + n]); p += n
    if raw != sorted(raw, key=lambda t: (len(t), t)):
        ctx.violation("oracle", "C07 APEv2: items are not written in (length, bytes) order (%s)" % what, data)


def layouts(ctx, kind, st):
    rng = ctx.rng
    try:
        loc = W.ape_locate(st.after)
    except W.Bad:
        return
    end = len(st.after)
    body = st.after[:loc[0]] if loc else st.after
    if W.id3v1_at_end(st.after) or b"APETAGEX" in body:
        return
    body = body[-rng.choice([0, 5, 23, 24, 31, 100, 127, 128, 159, 160, 400, 100000]):] if rng.random() < 0.7 else body
    if rng.random() < 0.15:
        body = b""
    its0 = rand_items(rng)
    tag = unhx(ctx.model.call("ape_render_tag", enc_items(its0))[3:])
    tag1 = unhx(ctx.model.call("ape_build", "x", zs(1000), "0", enc_items(its0), "x")[3:])
    v1 = id3v1(rng)
    ly = lyrics3(rng)
    variants = [
        ("tag", body + tag, body, True),
        ("tag+id3v1", body + tag + v1, body, True),
        ("tag+lyrics3+id3v1", body + tag + ly + v1, body, True),
        ("tag+lyrics3(size syntax)+id3v1", body + tag + lyrics3(rng, rng.choice([
            lambda n: b"%5d " % n, lambda n: b" %05d" % n, lambda n: b"+%05d" % n, lambda n: b"%d_%02d" % (n // 100, n % 100) if n >= 100 else b"0_00%02d" % n,
            lambda n: b"-%05d" % n, lambda n: b"00x%03d" % n, lambda n: b"%06d" % (n + 1), lambda n: b"999999"])) + v1, None, False),
        ("headerless", body + tag1, body, True),
        ("headerless+id3v1", body + tag1 + v1, body, True),
        ("at-start", tag + body, None, False),
        ("at-start headerless-footerless", tag[:len(tag) - 32] + body, None, False),
        ("pymusepack", body + b"APETAGEX" + bytes(16) + tag, None, False),
        ("pymusepack x2", body + b"APETAGEX" + bytes(16) + b"APETAGEX" + bytes(16) + tag, None, False),
        ("stacked", body + tag + tag, None, False),
        ("id3v1 only", body + v1, body + v1, True),
        ("lyrics3+id3v1 only", body + ly + v1, body + ly + v1, True),
        ("tiny", rng.choice([b"", b"APETAGEX", b"APETAGEX" + bytes(16), b"APETAGEX" + bytes(24), b"x" * 31, b"TAG" + b"y" * 125,
                              b"APETAGEX" + bytes(20) + b"TAG" + b"y" * 125, b"q" * 23 + b"LYRICS200" + b"TAG" + b"y" * 125,
                              b"APETAGEX" + b"q" * 9 + b"000001" + b"LYRICS200" + b"TAG" + b"y" * 125,
                              b"q" * 17 + b"-00099" + b"LYRICS200" + b"z" * 80 + b"APETAGEX" + b"TAG" + b"y" * 125,
                              b"q" * 40 + b"TAG" + b"y" * 125, tag[:40], tag[-40:], tag[-32:]]), None, False),
    ]
    # random corruption of the tail of a tagged layout
    base_l = bytearray(body + tag + (v1 if rng.random() < 0.5 else b""))
    for _ in range(rng.randrange(1, 4)):
        if base_l:
            i = len(base_l) - 1 - rng.randrange(min(len(base_l), 230))
            base_l[i] = rng.choice([0, 0xff, 0x80, base_l[i] ^ 1, 0x41])
    variants.append(("corrupt", bytes(base_l), None, False))
    new_items = rand_items(rng)

    def do_save(f):
        t = APEv2()
        set_items(t, new_items)
        f.seek(0)
        t.save(f)

    def do_delete(f):
        f.seek(0)
        APEv2().delete(f)

    def do_moddelete(f):
        f.seek(0)
        A.delete(f)

    for name, data, prefix, clean in variants:
        if len(data) > LIMIT:
            continue
        for real in ([False, True] if (name == "tiny" or rng.random() < 0.1) else [False]):
            rflag = "1" if real else "0"
            d = {"layout": name, "real": real, "data_len": len(data), "data_tail": data[-260:].hex(), "new_items": enc_items(new_items)[:300]}
            ctx.count("ape:layout:" + name)
            after, exc = run_impl(do_save, data, real)
            r = ctx.model.call("ape_save", rflag, hx(data), enc_items(new_items))
            compare(ctx, "layout %s save" % name, r, after, exc, d)
            ctx.count("ape:layout-save-" + ("raises" if exc else "ok"))
            if clean and exc is None:
                indep_tail_check(ctx, name, after, new_items, prefix, d)
                wf = ctx.model.call("ape_wf", hx(data))
                wfa = ctx.model.call("ape_wf", hx(after))
                ld = dec_tags(ctx.model.call("ape_load", hx(after)))
                ctx.corr_cases += 1
                if wf != "ok 1" or wfa != "ok 1" or ld != (sorted(new_items) or None):
                    ctx.disagree(RUNNER, "layout %s: model wf/load after save" % name, dict(d, wf_before=wf, wf_after=wfa, load=repr(ld)[:200]))
            after, exc = run_impl(do_delete, data, real)
            r = ctx.model.call("ape_delete", rflag, hx(data))
            compare(ctx, "layout %s delete" % name, r, after, exc, d)
            if clean and exc is None:
                ctx.oracle_cases += 1
                if b"APETAGEX" in after:
                    ctx.violation("oracle", "C08 APEv2: APETAGEX remains after delete (%s)" % name, d)
                if prefix is not None and not after.startswith(prefix):
                    ctx.violation("oracle", "C02 APEv2: bytes before the tag changed by delete (%s)" % name, d)
                if len(data) - len(after) != (len(tag1 if name.startswith("headerless") else tag) if name.startswith(("tag", "headerless")) else 0):
                    ctx.violation("oracle", "C08 APEv2: delete removed a different number of bytes than the tag has (%s)" % name, d)
                after2, exc2 = run_impl(do_delete, after, real)
                if after2 != after or exc2:
                    ctx.violation("oracle", "C08 APEv2: second delete changes the file (%s)" % name, d)
            after, exc = run_impl(do_moddelete, data, real)
            r = ctx.model.call("ape_moddelete", rflag, hx(data))
            compare(ctx, "layout %s moddelete" % name, r, after, exc, d)


# ------------------------------------------------------------------ vm_compute cross-check
def coq_items(items):
    return "[" + "; ".join("mkItem %s %d %s" % (coq_bytes(k), kind, coq_bytes(v)) for k, kind, v in items) + "]"


def vm_crosscheck(ctx):
    """the extracted binary and Coq's own evaluator must agree on ape_save / ape_delete / ape_moddelete / ape_wf for
    small synthetic files (once per run)"""
    rng = ctx.rng
    cases, keys = [], []
    pool = [(b"Ti", 0, b"x"), (b"Cover", 1, b"\x00\xffAPE"), (b"Url", 2, b"http"), (b"ab", 0, b""), (b"Zz", 0, "\u00e4".encode("utf-8"))]
    for i in range(12):
        body = bytes(rng.randrange(256) for _ in range(rng.choice([0, 3, 9, 30])))
        if b"APETAGEX" in body:
            body = b""
        its = rng.sample(pool, rng.randrange(0, 4))
        new = rng.sample(pool, rng.randrange(0, 4))
        trailer = rng.choice([b"", b"", b"TAG" + bytes(125)])
        hdr = rng.random() < 0.8
        r = ctx.model.call("ape_build", hx(body), zs(2000 if hdr else 1000), "1" if hdr else "0", enc_items(its), hx(trailer))
        f0 = unhx(r[3:])
        if i == 9:
            f0 = f0[len(body):] + body                      # tag at the start
        if i == 10:
            f0 = body + b"APETAGEX" + bytes(16) + f0[len(body):]   # stray preamble
        if i == 11:
            f0 = f0[:-5] + b"\x00" + f0[-4:]                # corrupt footer
        real = rng.random() < 0.5
        F = coq_bytes(f0)
        R = "true" if real else "false"
        cases.append("match ape_save %s %s %s with Ok d => (0, d) | Raise _ => (1, []) end" % (R, F, coq_items(new)))
        keys.append(("ape_save", real, f0, new))
        cases.append("match ape_delete %s %s with Ok d => (0, d) | Raise _ => (1, []) end" % (R, F))
        keys.append(("ape_delete", real, f0))
        cases.append("match ape_moddelete %s %s with Ok d => (0, d) | Raise _ => (1, []) end" % (R, F))
        keys.append(("ape_moddelete", real, f0))
        cases.append("ape_wf %s" % F)
        keys.append(("ape_wf", real, f0))
    pre = "From Coq Require Import ZArith List. Import ListNotations. Require Import Base.Py Model.Fam_ape. Open Scope Z_scope."
    res, log = vm_shard("fam_ape", pre, cases)
    if res is None or len(res) != len(cases):
        ctx.disagree("fam.ape.vm_shard", "vm_compute shard failed to run", {"log": str(log)[-300:]})
        return
    for key, r in zip(keys, res):
        ctx.vm_cases += 1
        r = r.replace("%Z", "")
        rflag = "1" if key[1] else "0"
        if key[0] == "ape_wf":
            want = ctx.model.call("ape_wf", hx(key[2]))
            if want != ("ok 1" if r == "true" else "ok 0"):
                ctx.disagree("fam.ape.vm_shard", "ape_wf: extracted %s, vm_compute %s" % (want, r), {"file": key[2].hex()})
            continue
        if key[0] == "ape_save":
            rm = ctx.model.call("ape_save", rflag, hx(key[2]), enc_items(key[3]))
        else:
            rm = ctx.model.call(key[0], rflag, hx(key[2]))
        m = re.match(r"\((\d), \[([^\]]*)\]\)", r)
        if not m:
            ctx.disagree("fam.ape.vm_shard", "unparsable vm_compute result", {"result": r[:200]})
            continue
        if m.group(1) == "1":
            ok = rm.startswith("raise")
        else:
            body = bytes(int(x) for x in m.group(2).split(";") if x.strip())
            ok = rm == "ok " + hx(body)
        if not ok:
            ctx.disagree("fam.ape.vm_shard", "%s: extracted binary and vm_compute differ" % key[0],
                         {"file": key[2].hex(), "real": key[1], "vm": r[:200], "extracted": rm[:200]})
