"""python -m fam.selftest <family-or-kind,...> [histories] [seed]  -- development aid for family modules"""
import sys, time, os
sys.path.insert(0, os.path.dirname(os.path.dirname(os.path.abspath(__file__))))
import common
from common import Ctx
from fam import shared
from fam.kinds import KINDS

sel = sys.argv[1].split(",") if len(sys.argv) > 1 else None
n = int(sys.argv[2]) if len(sys.argv) > 2 else 10
seed = int(sys.argv[3]) if len(sys.argv) > 3 else 1
kinds = [k for k, v in KINDS.items() if sel is None or k in sel or v.family in sel or v.style in sel]
ctx = Ctx("SELFTEST", "quick", seed)
with common.Lock():
    ok, out = common.build_model()
if not ok:
    print("model build failed:", out)
    ctx.use_model = False
t = time.time()
shared.shared_run(ctx, {"C01", "C02", "C03", "C07", "C08", "C09"}, n, 6, kinds=kinds)
print("kinds", kinds)
print("time %.1fs cases %d nontrivial %d corr_cases %d" % (time.time() - t, ctx.evaluations, len(ctx.nontrivial), ctx.corr_cases))
seen = set()
for d in ctx.disagreements[:10]:
    print("DISAGREE", d["runner"], d["what"], str(d["data"])[:600])
for v in ctx.violations:
    if v["what"] in seen:
        continue
    seen.add(v["what"])
    print("VIOLATION", v["what"], {k: str(x)[:200] for k, x in v["data"].items() if k not in ("runner", "property")})
print({k: v for k, v in ctx.hist.items() if not k.startswith("kind:")})
if ctx._model is not None:
    ctx._model.close()
common.cleanup_run()
