"""The shared whole-file run: random edit histories on every well-formed sample of every kind, with the
predicates of C01 C02 C03 C07 C08 C09 evaluated after each operation.  A check passes the set of property
ids it is responsible for; only those predicates report violations."""
import io, copy, os, struct, zlib, time
import mutagen
from . import kinds as KM
from . import walkers as W
from .kinds import KINDS, MARK
from .engine import Runner, Step, gen_history, pad_callback, safe_walk, load_info, foreign_preserved, has_tags

_CORR = None


def corr_modules():
    """correspondence modules harness/fam/corr_*.py, discovered once"""
    global _CORR
    if _CORR is None:
        import glob, importlib
        _CORR = []
        here = os.path.dirname(os.path.abspath(__file__))
        for pth in sorted(glob.glob(os.path.join(here, "corr_*.py"))):
            name = os.path.basename(pth)[:-3]
            _CORR.append(importlib.import_module("fam." + name))
    return _CORR


MARK_FORMS = [MARK.encode("utf-8"), MARK.encode("utf-16-le"), MARK.encode("utf-16-be")]
FLAC_MAXPAD = 2 ** 24 - 1
CONTIGUOUS = ("id3", "flac", "mp4", "asf", "dsf")


def usable_samples(kind):
    out = []
    for name, data in kind.samples():
        w, err = safe_walk(kind, data)
        if w is None:
            continue
        try:
            kind.open(io.BytesIO(data))
        except Exception:
            continue
        out.append((name, data))
    return out


def hist_desc(steps):
    return [s.brief() for s in steps]


def _v(ctx, prop, checks, what, kind, sample, runner, extra=None):
    if prop not in checks:
        return
    data = {"runner": "fam.history", "property": prop, "kind": kind.name, "sample": sample,
            "history": hist_desc(runner.steps), "hseed": runner.hseed, "core": runner.core, "id3_opts": runner.id3_opts, "nops": runner.nops}
    if extra:
        data.update(extra)
    ctx.violation("oracle", "%s %s: %s" % (prop, kind.name, what), data)


V23SHAPE = {"TYER", "TDAT", "TIME", "TORY", "IPLS"}


def expected_tdrc(mem):
    """the recording time a reload must report after a v2.3 save: TDRC itself when it was written as such, else
    TYER [+ TDAT [+ TIME]] combined (ID3v2.4 4.2.5 / v2.3 4.2.1; minute precision)"""
    import ast
    def txt(name):
        for m in mem:
            if m[0] == name:
                v = ast.literal_eval(dict(m[2]).get("text", "[]"))
                return v[0] if v else ""
        return None
    t = [m for m in mem if m[0] == "TDRC"]
    if t:
        return t
    y = txt("TYER")
    if not y:
        return []
    d, tm = txt("TDAT"), txt("TIME")
    s = y
    if d:
        s = "%s-%s-%s" % (y, d[2:], d[:2])
        if tm:
            s += " %s:%s:00" % (tm[:2], tm[2:])
    return [("TDRC", "TDRC", [("text", repr([s]))])]


def join23(x):
    """v2.3 canonical form of an independent-decoding tuple: multi-values joined by '/'"""
    if x[0] in ("T",):
        return (x[0], x[1], ["/".join(x[2])])
    if x[0] == "TXXX":
        return (x[0], x[1], ["/".join(x[2])])
    if x[0] == "COMM":
        return (x[0], x[1], x[2], ["/".join(x[3])])
    return x


def evaluate(ctx, checks, kind, sample, runner, st, info0):
    """predicates after one step"""
    if st.exc and st.exc[0] == "OTHER":
        # a non-mutagen exception from a public call on a well-formed file: C03 (the file no longer loads/saves)
        _v(ctx, "C03", checks, "operation raised %s on a well-formed file" % st.exc[1], kind, sample, runner, {"exc": st.exc[:3]})
        return False
    wb = st.wbefore
    wa, err = safe_walk(kind, st.after)
    st.wafter, st.walk_err = wa, err
    if wa is None:
        short = err.split(":")[0] + ":" + err.split(":", 1)[1][:60] if ":" in err else err
        _v(ctx, "C03", checks, "file structurally invalid after %s: %s" % (st.op, short), kind, sample, runner, {"walker": err})
        # the other whole-file properties presuppose a file the independent reader can walk
        if st.op in ("save", "fresh"):
            _v(ctx, "C01", checks, "saved bytes do not decode under the independent reader (%s)" % short, kind, sample, runner, {"walker": err})
            if kind.padding and st.cb:
                _v(ctx, "C09", checks, "padding of the saved file cannot be located: the tag region is not followed by the audio/foreign data (%s)" % short,
                   kind, sample, runner, {"walker": err, "returned": st.cb[0][2]})
        if st.op in ("save", "fresh", "delete", "moddelete"):
            _v(ctx, "C02", checks, "foreign/audio data cannot be located after %s (%s)" % (st.op, short), kind, sample, runner, {"walker": err})
        if st.op in ("delete", "moddelete"):
            _v(ctx, "C08", checks, "file cannot be walked after delete (%s)" % short, kind, sample, runner, {"walker": err})
        return False
    changed = st.after != st.before
    if st.op in ("save", "fresh", "delete", "moddelete"):
        # ---- C02
        msg = foreign_preserved(kind, wb, wa, deleteid3=(st.v1 == "deleteid3"))
        if msg:
            _v(ctx, "C02", checks, "foreign/audio data altered by %s: %s" % (st.op, msg.split("(")[0].strip()), kind, sample, runner, {"detail": msg})
        # ---- C03 info
        if info0 is not None:
            i1 = load_info(kind, st.after)
            if i1 != info0:
                _v(ctx, "C03", checks, "stream info changed or file no longer loads after %s" % st.op, kind, sample, runner,
                   {"before": repr(info0), "after": repr(i1)})
    if st.exc:
        return True
    # ---- C01
    if st.op in ("save", "fresh") and st.mem is not None and "C01" in checks:
        try:
            re = KM.canon_mem(kind, kind.open(io.BytesIO(st.after)))
        except Exception as e:
            re = ("LOADFAIL", type(e).__name__)
        mem = st.mem
        if kind.style == "id3":
            mem = [m for m in mem if not (m[0][0] == "T" and m[0] != "TXXX" and dict(m[2]).get("text") in ("[]", "['']"))]
            if kind.family == "id3" and W.id3v1_at_end(st.after):
                # documented merge: the comment field of an ID3v1 tag is loaded as a separate frame
                # 'COMM:ID3v1 Comment:eng' (upstream keeps COMM frames with different HashKeys apart)
                mem = [m for m in mem if m[1] != "COMM:ID3v1 Comment:eng"]
                if isinstance(re, list):
                    re = [m for m in re if m[1] != "COMM:ID3v1 Comment:eng"]
            if st.v2 != 3 and any(m[0] in V23SHAPE for m in mem):
                # frames left in v2.3 shape in memory (after update_to_v23) come back converted on every load
                drop = V23SHAPE | {"TDRC", "TDOR", "TIPL", "TMCL"}
                mem = sorted([m for m in mem if m[0] not in drop] + expected_tdrc(mem), key=lambda m: m[1])
                if isinstance(re, list):
                    re = sorted([m for m in re if m[0] not in drop or m[0] == "TDRC"], key=lambda m: m[1])
            if st.v2 == 3:
                # v2.3 conversions are C13's subject; here the independent decoding is compared, and of the reloaded
                # tags only the recording time (it must come back at full precision through TYER+TDAT+TIME)
                mem = expected_tdrc(mem)
                if isinstance(re, list):
                    re = [m for m in re if m[0] == "TDRC"]
                elif re is None:
                    re = []
        if kind.style == "ape" and mem == []:
            mem = None
        if kind.style == "ape" and re == []:
            re = None
        if kind.style == "id3" and mem == [] and re is None:
            re = []
        if mem is not None and re != mem:
            _v(ctx, "C01", checks, "reloaded tags differ from what was set", kind, sample, runner,
               {"set": repr(mem)[:300], "reloaded": repr(re)[:300]})
        exp = st.exp_indep
        got = KM.indep_decode(kind, wa)
        if exp is not None:
            if kind.style == "id3" and st.v2 == 3:
                exp = sorted([join23(x) for x in exp], key=repr)
                got = sorted([join23(x) for x in (got or [])], key=repr)
            if kind.style in ("ape",) and exp == []:
                exp = None
            if kind.style in ("ape",) and got == []:
                got = None
            if kind.style == "id3" and got is None and exp == []:
                got = []
            if kind.style == "mp4" and got is None and exp == []:
                got = []
            if got != exp:
                _v(ctx, "C01", checks, "independent decoding of the saved bytes differs from what was set", kind, sample, runner,
                   {"expected": repr(exp)[:300], "decoded": repr(got)[:300]})
    # ---- C08 (a save never brings back tag blocks that a delete removed)
    if st.op in ("save", "fresh") and "C08" in checks and kind.family == "flac":
        if len(wa["extra"].get("more_vc", [])) > len(wb["extra"].get("more_vc", [])):
            _v(ctx, "C08", checks, "a comment block removed by an earlier delete is back in the file after a later save", kind, sample, runner)
    if st.op in ("delete", "moddelete") and "C08" in checks and kind.family == "flac" and wa["extra"].get("more_vc"):
        _v(ctx, "C08", checks, "a further comment block remains in the file after delete", kind, sample, runner)
    # ---- C08
    if st.op in ("delete", "moddelete") and "C08" in checks:
        if has_tags(kind, wa):
            _v(ctx, "C08", checks, "tags still present in the file after delete", kind, sample, runner)
        try:
            o2 = kind.open(io.BytesIO(st.after))
            t2 = KM.canon_mem(kind, o2)
        except Exception as e:
            t2 = ("LOADFAIL", type(e).__name__)
        if t2 not in (None, [], {}):
            _v(ctx, "C08", checks, "file loads with tags after delete", kind, sample, runner, {"tags": repr(t2)[:200]})
        if st.op == "delete" and st.obj_tags_after not in (None, [], {}):
            _v(ctx, "C08", checks, "in-memory tags of the object not cleared by delete", kind, sample, runner)
        had = wb["tags"] is not None and (kind.style != "ape" or bool(wb["tags"]))
        if wa["padding"] not in (None, 0) and had:
            _v(ctx, "C08", checks, "tag padding left in the file after delete", kind, sample, runner, {"padding": wa["padding"]})
        for m in MARK_FORMS:
            if m in st.after:
                _v(ctx, "C08", checks, "bytes of a removed value remain in the file after delete", kind, sample, runner)
                break
        if kind.family == "id3" and st.after[:3] == b"ID3" and st.before[:3] == b"ID3" and not st.before[10 + W.syncsafe(st.before[6:10]):][:3] == b"ID3":
            _v(ctx, "C08", checks, "ID3v2 header remains after delete", kind, sample, runner)
        if kind.family == "id3" and wb["extra"].get("v1") and wa["extra"].get("v1") and st.exc is None:
            _v(ctx, "C08", checks, "ID3v1 tag remains at the end of the file after delete", kind, sample, runner)
        if kind.family == "ape" and had and wb["extra"].get("tag_region") and b"APETAGEX" in st.after[len(wa["foreign"][0][1]):]:
            _v(ctx, "C08", checks, "APEv2 header/footer remains after delete", kind, sample, runner)
        # deleting again does not change the bytes
        try:
            b2 = io.BytesIO(st.after)
            o3 = kind.open(io.BytesIO(st.after))
            b2.seek(0)
            o3.delete(b2)
            if b2.getvalue() != st.after and had:
                _v(ctx, "C08", checks, "second delete changes the file", kind, sample, runner)
        except mutagen.MutagenError:
            pass
        except Exception as e:
            _v(ctx, "C08", checks, "second delete raised %s" % type(e).__name__, kind, sample, runner)
    # ---- C09
    if st.op == "save" and kind.padding and "C09" in checks and st.arg != "none" and st.mem:
        if kind.family == "ogg" and not st.cb and ogg_opaque_trailer(wb):
            # data behind the Opus comment list that has to be preserved (RFC 7845 5.2, judged by the independent walker:
            # first byte odd): nothing may be added behind it, so there is no padding to ask the callback about
            ctx.count("c09:ogg-opaque-trailer")
        elif len(st.cb) != 1:
            _v(ctx, "C09", checks, "padding callback called %d times" % len(st.cb), kind, sample, runner)
        else:
            p_in, size_in, r = st.cb[0]
            # info.size: "the amount of data following the padding" - never negative, never more than the file,
            # and for the formats with one contiguous tag region exactly what lies behind that region
            after_region = None
            if kind.family in ("flac", "id3") and wb["extra"].get("tag_region"):
                after_region = len(st.before) - wb["extra"]["tag_region"][1]
            elif kind.family == "mp4" and wb["extra"].get("tag_end") is not None:
                after_region = len(st.before) - wb["extra"]["tag_end"]
            if not (0 <= size_in <= len(st.before)) or (after_region is not None and size_in != after_region):
                _v(ctx, "C09", checks, "info.size given to the callback is not the amount of data following the tag region", kind, sample, runner,
                   {"info_size": size_in, "file_size": len(st.before), "data_after_region": after_region})
            meas = wa["padding"]
            if meas is not None:
                want = min(r, FLAC_MAXPAD) if kind.family == "flac" else r
                if meas != want:
                    _v(ctx, "C09", checks, "padding found in the saved file differs from what the callback returned", kind, sample, runner,
                       {"returned": r, "measured": meas, "info_padding": p_in})
            v1d = 0
            if kind.family == "id3":
                v1d = (128 if wa["extra"]["v1"] else 0) - (128 if wb["extra"]["v1"] else 0)
            if st.arg == "keep" and p_in >= 0 and kind.family != "ogg":
                if len(st.after) - v1d != len(st.before):
                    _v(ctx, "C09", checks, "returning info.padding changed the file size", kind, sample, runner,
                       {"info_padding": p_in, "delta": len(st.after) - len(st.before)})
            if (st.arg == "keep" or r == p_in) and p_in >= 0 and kind.family == "ogg" and wb["padding"] is not None:
                # whatever the policy, a callback answering info.padding asks for a comment packet of the old size
                if len(st.after) != len(st.before):
                    _v(ctx, "C09", checks, "returning info.padding changed the file size", kind, sample, runner,
                       {"info_padding": p_in, "delta": len(st.after) - len(st.before)})
                else:
                    msg = ogg_pages_in_place(wb, wa, st.before, st.after)
                    if msg:
                        _v(ctx, "C09", checks, "returning info.padding moved or altered data outside the comment packet", kind, sample, runner,
                           {"info_padding": p_in, "detail": msg})
            if st.arg == "zero" and kind.family in CONTIGUOUS and wb["tags"] is not None and not (kind.family == "mp4" and wb["padding"] is None):
                # with zero padding requested the file shrinks/grows by exactly info.padding
                delta = len(st.before) - len(st.after)
                v1fix = 0
                if kind.family == "id3":
                    v1fix = (128 if wb["extra"]["v1"] else 0) - (128 if wa["extra"]["v1"] else 0)
                if delta - v1fix != p_in:
                    _v(ctx, "C09", checks, "info.padding is not the space left in the old tag region", kind, sample, runner,
                       {"info_padding": p_in, "size_delta": delta - v1fix})
    return True


def ogg_opaque_trailer(w):
    """the walker (not mutagen) found data behind the Opus comment list whose first byte is odd"""
    return any(lab.endswith("-comment-trailer") and data and data[0] & 1 for lab, data in w["foreign"])


def ogg_pages_in_place(wb, wa, before, after):
    """Ogg, same-size save: every page keeps its offset and size, and the pages that carry no part of the comment packet
    are byte-identical (None = ok, else message)"""
    gb, ga = wb["extra"].get("geometry"), wa["extra"].get("geometry")
    if gb is None or ga is None:
        return None
    if gb != ga:
        k = next((i for i in range(min(len(gb), len(ga))) if gb[i] != ga[i]), min(len(gb), len(ga)))
        return "page boundaries differ from page %d on (%d pages before, %d after)" % (k, len(gb), len(ga))
    tagpages = set(wb["extra"].get("comment_pages") or [])
    for i, (off, n) in enumerate(gb):
        if i not in tagpages and before[off:off + n] != after[off:off + n]:
            return "page %d at offset %d carries no comment data and was rewritten" % (i, off)
    return None


def c09_default_equivalence(ctx, checks, kind, sample, runner, st):
    """save() without a callback == save(padding=default policy); fitting edits do not resize (run on copies)"""
    if "C09" not in checks or not kind.padding:
        return
    try:
        o1 = copy.deepcopy(runner.obj)
        o2 = copy.deepcopy(runner.obj)
    except Exception:
        return
    if o1 is None:
        return
    b1, b2 = io.BytesIO(st.before), io.BytesIO(st.before)
    log = []
    try:
        o1.save(b1)
        o2.save(b2, padding=pad_callback("default", log))
    except Exception:
        return
    ctx.count("c09:default-equivalence")
    if b1.getvalue() != b2.getvalue():
        _v(ctx, "C09", checks, "save() without callback differs from save(padding=default policy)", kind, sample, runner)
    if log and 0 <= log[0][0] <= 1024 and len(b1.getvalue()) != len(st.before) and kind.family != "ogg":
        v1 = 0
        if kind.family == "id3":
            v1 = (128 if W.id3v1_at_end(b1.getvalue()) else 0) - (128 if W.id3v1_at_end(st.before) else 0)
        if len(b1.getvalue()) - v1 != len(st.before):
            _v(ctx, "C09", checks, "an edit fitting into existing padding (<= 1 KiB) resized the file", kind, sample, runner,
               {"info_padding": log[0][0], "delta": len(b1.getvalue()) - len(st.before)})


def run_history(ctx, checks, kind, sample, data, hseed, nops, id3_opts=False, ops=None, core=None, corr=True):
    import random
    rng = random.Random(hseed)
    runner = Runner(kind, data, rng, id3_opts=id3_opts)
    runner.hseed = hseed
    runner.core = core
    runner.nops = nops
    if core is not None:
        ops = [(op, (arg if kind.padding or op != "save" else "none")) for op, arg in CORE[core]]
    info0 = load_info(kind, data)
    if isinstance(info0, tuple):
        info0 = None
    ops = ops or gen_history(rng, kind, nops)
    w, err = safe_walk(kind, data)
    nontrivial = False
    for op, arg in ops:
        st_before_walk = w
        if op == "save" and arg == "none":
            # differential part of C09 needs the state before the save
            tmp = Step(op, arg, runner.cur)
            try:
                if runner.obj is None:
                    runner._open()
                c09_default_equivalence(ctx, checks, kind, sample, runner, tmp)
            except Exception:
                pass
        st = runner.apply(op, arg)
        st.wbefore = st_before_walk
        ctx.count("op:" + op)
        if st.exc:
            ctx.count("exc:" + st.exc[0])
        ok = evaluate(ctx, checks, kind, sample, runner, st, info0)
        if ctx.use_model and corr:
            for cm in corr_modules():
                if kind.name in cm.KINDS and (not getattr(cm, "PROPS", None) or set(cm.PROPS) & set(checks)):
                    try:
                        _t0 = time.time()
                        cm.check_step(ctx, kind, st)
                        ctx.hist["corr_seconds:" + cm.__name__] = round(ctx.hist.get("corr_seconds:" + cm.__name__, 0) + time.time() - _t0, 2)
                    except Exception as e:
                        import traceback
                        ctx.disagree("fam." + cm.__name__, "correspondence module crashed: %s" % type(e).__name__,
                                     {"trace": traceback.format_exc()[-600:], "kind": kind.name, "sample": sample,
                                      "history": hist_desc(runner.steps), "hseed": hseed})
        if st.after != st.before:
            nontrivial = True
            ctx.count("resized" if len(st.after) != len(st.before) else "rewritten-same-size")
        if not ok or st.wafter is None:
            break
        w = st.wafter
    return runner, nontrivial


def c07_scenario(ctx, checks, kind, sample, data):
    """load + save unchanged: lossless; second and third save byte-identical"""
    if "C07" not in checks:
        return
    def v(what, extra=None):
        d = {"runner": "fam.c07", "property": "C07", "kind": kind.name, "sample": sample}
        d.update(extra or {})
        ctx.violation("oracle", "C07 %s: %s" % (kind.name, what), d)
    w0, err = safe_walk(kind, data)
    if w0 is None:
        return
    try:
        o = kind.open(io.BytesIO(data))
        if kind.tags_of(o) is None:
            return
        c0 = KM.canon_mem(kind, o)
        unk0 = raw_unknown(kind, o)
        b = io.BytesIO(data); o.save(b); d1 = b.getvalue()
        try:
            o1 = kind.open(io.BytesIO(d1))
        except mutagen.MutagenError as e:
            v("the file an unmodified load+save leaves no longer loads (%s)" % type(e).__name__, {"error": str(e)[:120]})
            return
        c1 = KM.canon_mem(kind, o1)
        unk1 = raw_unknown(kind, o1)
        b = io.BytesIO(d1); o.save(b); d2_same = b.getvalue()      # the SAME object saves again
        b = io.BytesIO(d1); o1.save(b); d2 = b.getvalue()
        o2 = kind.open(io.BytesIO(d2))
        b = io.BytesIO(d2); o2.save(b); d3 = b.getvalue()
    except mutagen.MutagenError as e:
        return
    except Exception as e:
        v("load/save of an unmodified well-formed file raised %s" % type(e).__name__, {"error": str(e)[:120]})
        return
    ctx.count("c07:scenario")
    w1, err = safe_walk(kind, d1)
    if w1 is None:
        # the file was well-formed for the independent walker before: whatever makes it undecodable now was lost or mangled
        v("the file an unmodified load+save leaves can no longer be decoded independently", {"error": str(err)[:160]})
    pics = lambda x: [(p.type, p.mime, p.desc, p.width, p.height, p.depth, p.colors, bytes(p.data)) for p in getattr(x, "pictures", None) or []]
    if kind.name in ("FLAC", "OggFLAC") and pics(o1) != pics(o):
        v("pictures changed by load+save without modification", {"before": repr(pics(o))[:200], "after": repr(pics(o1))[:200]})
    if c1 != c0:
        v("tags changed by load+save without modification", {"before": repr(c0)[:200], "after": repr(c1)[:200]})
    if unk1 != unk0:
        v("uninterpreted tag data lost by load+save", {"before": repr(unk0)[:200], "after": repr(unk1)[:200]})
    if w1 is not None and foreign_preserved(kind, w0, w1):
        v("foreign container elements changed by load+save")
    if w1 is not None and kind.style in ("ape", "vc", "asf"):
        # the independent decoding of the file (keys, value KINDS, values) is the same before and after
        i0, i1 = KM.indep_decode(kind, w0), KM.indep_decode(kind, w1)
        if kind.style == "ape":
            i0, i1 = i0 or None, i1 or None
        if i0 != i1:
            v("independent decoding of the file differs after an unmodified load+save", {"before": repr(i0)[:200], "after": repr(i1)[:200]})
    if w1 is not None:
        u0, u1 = uninterpreted_raw(kind, w0, o), uninterpreted_raw(kind, w1, o)
        lost = list(u0)
        for x in u1:
            if x in lost:
                lost.remove(x)
        if u0:
            ctx.count("c07:uninterpreted-items")
        if lost:
            v("tag data mutagen cannot interpret lost by an unmodified load+save", {"lost": repr(lost)[:300]})
    if d2 != d1:
        v("second save changes the file")
    elif d2_same != d1:
        v("second save through the same object changes the file")
    if d3 != d2:
        v("third save changes the file")


def uninterpreted_raw(kind, w, o):
    """raw tag items of the walked file that mutagen does not interpret (independent of the loader's own
    bookkeeping): MP4 ilst items whose key is not among the loaded tags, ID3v2.4 frames with an unknown id"""
    t = w.get("tags")
    try:
        if kind.style == "mp4" and t:
            keys = set(kind.tags_of(o).keys())
            out = []
            for name, sub in t:
                key = name.decode("latin-1")
                if name == b"----":
                    mean = b"".join(x[4:] for n, x in sub if n == b"mean")
                    nm = b"".join(x[4:] for n, x in sub if n == b"name")
                    key = "----:" + mean.decode("latin-1") + ":" + nm.decode("latin-1")
                if key not in keys:
                    out.append((name, tuple(sub)))
            return out
        if kind.style == "id3" and isinstance(t, dict) and t.get("version") == 4:
            from mutagen.id3 import Frames
            # unknown frame ids, and frames of any id with the (unsupported) encryption flag
            return [f for f in t["frames"] if f[0] not in Frames or f[1] & 0x0004]
    except Exception:
        return []
    return []


def fixpoint_scenario(ctx, checks, kind, sample, data):
    """second save and second delete leave the file byte-identical (no claim about padding or foreign elements)"""
    def v(pid, what):
        if pid in checks:
            ctx.violation("oracle", "%s %s: %s" % (pid, kind.name, what), {"runner": "fam.fixpoint", "property": pid, "kind": kind.name, "sample": sample})
    try:
        cur = data
        outs = []
        for i in range(3):
            b = io.BytesIO(cur); kind.open(io.BytesIO(cur)).save(b); cur = b.getvalue(); outs.append(cur)
        ctx.count("c07:fixpoint-layout")
        if outs[1] != outs[0] or outs[2] != outs[1]:
            v("C07", "second save changes the file")
        cur = data
        outs = []
        for i in range(3):
            b = io.BytesIO(cur); kind.open(io.BytesIO(cur)).delete(b); cur = b.getvalue(); outs.append(cur)
        if outs[1] != outs[0] or outs[2] != outs[1]:
            v("C08", "second delete changes the file")
    except mutagen.MutagenError:
        return
    except Exception as e:
        v("C07", "load/save/delete of a well-formed layout raised %s" % type(e).__name__)


def raw_unknown(kind, o):
    t = kind.tags_of(o)
    if kind.style == "id3":
        return [bytes(x) for x in getattr(t, "unknown_frames", [])]
    if kind.style == "mp4":
        fa = getattr(t, "_failed_atoms", {})
        return sorted((k, [bytes(x) for x in v]) for k, v in fa.items())
    return None


def c07_order(ctx, checks, rng):
    """ID3 and APEv2: bytes written depend only on the tag contents, not on insertion order"""
    if "C07" not in checks:
        return
    from mutagen.id3 import ID3, TIT2, TPE1, TXXX, COMM, APIC, TALB, TRCK
    from mutagen.apev2 import APEv2
    for rep in range(30):
        frames = [TIT2(encoding=3, text=["t" * rng.randrange(1, 9)]), TPE1(encoding=3, text=["a" * rng.randrange(1, 9)]),
                  TALB(encoding=1, text=["b"]), TRCK(encoding=0, text=["1/2"]),
                  TXXX(encoding=3, desc="d1", text=["x"]), TXXX(encoding=3, desc="d2", text=["x"]),
                  COMM(encoding=3, lang="eng", desc="", text=["c"]), APIC(encoding=0, mime="i", type=3, desc="p", data=b"12345"),
                  COMM(encoding=3, lang="deu", desc="zeta", text=["zeta comment"]), COMM(encoding=3, lang="eng", desc="alpha", text=["alpha comment"])]
        if rep % 3 == 0:
            frames = [f for f in frames if not (type(f).__name__ == "COMM" and f.desc == "")]      # no plain COMM: the ID3v1 comment must still be chosen deterministically
        frames = frames[:rng.randrange(2, len(frames) + 1)]
        outs = []
        for perm in range(3):
            fs = list(frames); rng.shuffle(fs)
            t = ID3()
            for f in fs:
                t.add(copy.deepcopy(f))
            b = io.BytesIO(); t.save(b, v1=(2 if rep % 2 else 1)); outs.append(b.getvalue())
        ctx.count("c07:order-id3")
        if len(set(outs)) != 1:
            ctx.violation("oracle", "C07 ID3: bytes written depend on frame insertion order",
                          {"runner": "fam.c07order", "property": "C07", "kind": "ID3", "frames": [type(f).__name__ for f in frames]})
        items = [("Title", "t" * rng.randrange(1, 6)), ("Artist", "a"), ("Album", "bb"), ("Year", "2000"), ("Zed", "a"), ("Abc", "a")]
        items = items[:rng.randrange(2, len(items) + 1)]
        outs = []
        for perm in range(3):
            its = list(items); rng.shuffle(its)
            t = APEv2()
            for k, val in its:
                t[k] = val
            b = io.BytesIO(b"audio"); t.save(b); outs.append(b.getvalue())
        ctx.count("c07:order-ape")
        if len(set(outs)) != 1:
            ctx.violation("oracle", "C07 APEv2: bytes written depend on item insertion order",
                          {"runner": "fam.c07order", "property": "C07", "kind": "APEv2", "items": [k for k, _ in items]})


CORE = [
    [("set", "tiny"), ("save", "default"), ("save", "keep"), ("save", "zero"), ("save", "one"), ("save", "odd"), ("save", "large"),
     ("save", "keep"), ("delete", None), ("set", "mid"), ("save", "none"), ("moddelete", None)],
    [("set", "huge"), ("save", "none"), ("set", "tiny"), ("save", "none"), ("save", "keep"), ("delete", None), ("delete", None)],
    [("set", "mid"), ("save", "zero"), ("fresh", None), ("clear", None), ("save", "none"), ("set", "tiny"), ("save", "default"),
     ("set", "mid"), ("save", "zero"), ("reload", None), ("save", "keep")],
]


def shared_run(ctx, checks, nhist, nops, kinds=None, id3_opts=True, corr_policy="all"):
    """corr_policy: 'all' = the family correspondence modules run on every history; 'core' = only on the
    deterministic core histories of the first two samples (and every synthetic layout) of each kind"""
    """the shared run restricted to the predicates in `checks`"""
    base = ctx.rng.randrange(1 << 30)
    n = 0
    import time
    budget = float(os.environ.get("VERIF_HISTORY_BUDGET_S", "2700" if corr_policy == "all" else "1e9"))
    t_start = time.time()
    targets = []
    for kname, kind in KINDS.items():
        if kinds and kname not in kinds:
            continue
        if "C07" in checks or "C08" in checks:
            from . import synth
            for sample, data in synth.idempotence_layouts(kind, [(s_, d_) for s_, d_ in kind.samples() if not s_.startswith("synth")]):
                fixpoint_scenario(ctx, checks, kind, sample, data)
        for si, (sample, data) in enumerate(usable_samples(kind)):
            if "C07" in checks:
                c07_scenario(ctx, checks, kind, sample, data)
            targets.append((kname, kind, si, sample, data))
    # history index outermost: the deterministic core histories of every kind/sample first, then round after round of
    # random histories, so that a wall-clock budget (thorough tier) thins every kind alike
    rounds_done = 0
    for h in range(-len(CORE), nhist):
        if h >= 0 and time.time() - t_start > budget:
            break
        rounds_done += 1
        for kname, kind, si, sample, data in targets:
            corr = corr_policy == "all" or (h < 0 and (si < 2 or sample.startswith("synth") or sample.startswith("id3prefix")) and len(data) < 40000)
            hseed = (base + zlib.crc32(repr((kname, sample, h)).encode())) & 0x7FFFFFFF
            runner, nontrivial = run_history(ctx, checks, kind, sample, data, hseed, nops, id3_opts=id3_opts and h % 2 == 1,
                                             core=(-h - 1 if h < 0 else None), corr=corr)
            n += 1
            ctx.oracle_cases += 1
            ctx.count("kind:" + kname)
            ctx.case((kname, sample, tuple(hist_desc(runner.steps))) if nontrivial else None,
                     {"kind": kname, "sample": sample, "history": hist_desc(runner.steps), "final_size": len(runner.cur)} if n % 97 == 1 else None)
            if "C07" in checks and runner.steps and not any(s.exc for s in runner.steps):
                c07_scenario(ctx, checks, kind, sample + "+history", runner.cur)
    ctx.notes["history_rounds"] = "%d of %d rounds of histories per sample run (core histories included; wall-clock budget %s s)" % (
        rounds_done, nhist + len(CORE), "none" if budget > 1e8 else int(budget))
    if "C07" in checks:
        c07_order(ctx, checks, ctx.rng)
        if not kinds or "ID3" in kinds:
            c07_id3_v1_threshold(ctx, checks)
    if not kinds:
        from . import directed
        directed.run(ctx, checks)
    elif any(KINDS[k].family == "ogg" for k in kinds):
        from . import directed
        directed.run(ctx, checks, only=directed.OGG_SCENARIOS)


C07_V1_WHAT = "C07 ID3: second save with the default policy changes the file (threshold moved by the ID3v1 tag removed by the first save)"


def c07_id3_v1_threshold(ctx, checks):
    """ID3 at file start: boundary sweep of the default padding policy's upper threshold 10240 + size/100, where size is
    what lies behind the ID3v2 tag INCLUDING an ID3v1 tag.  First save with a fixed padding P, then load + save with the
    default policy three times; the second default save must leave the file byte-identical to the first.
    Known finding (class id3-v1-removal-moves-default-padding-threshold, Coq: C07_id3f_default_v1_removed_refuted): with
    v1=0 the first default save removes the ID3v1 tag, the size shrinks by 128, the threshold drops below a padding it
    has just kept, and the second save cuts the padding.  Everything else that is not idempotent is a fresh violation."""
    if "C07" not in checks:
        return
    from mutagen.id3 import ID3, TIT2
    v1tag = b"TAG" + bytes(125)
    for n in (472, 872, 899, 1000):
        payload = b"\xff\xfb\x90\x64" + bytes(n - 4)
        t_removed = 10240 + n // 100              # threshold once the ID3v1 tag is gone
        t_present = 10240 + (n + 128) // 100      # threshold while it counts
        for has_v1 in (True, False):
            for P in range(t_removed - 3, t_present + 4):
                for v1 in (0, 1, 2):
                    f = io.BytesIO(payload + (v1tag if has_v1 else b""))
                    t = ID3()
                    t.add(TIT2(encoding=3, text=["x"]))
                    t.save(f, v1=1, padding=lambda info: P)
                    states, seen = [], []
                    try:
                        for i in range(3):
                            f.seek(0)
                            t2 = ID3(f)
                            f.seek(0)
                            t2.save(f, v1=v1, padding=lambda info: (seen.append((info.padding, info.size)), info.get_default_padding())[1])
                            states.append(f.getvalue())
                    except Exception as e:
                        ctx.violation("oracle", "C07 ID3: default-policy save raised %s in the padding threshold sweep" % type(e).__name__,
                                      {"runner": "fam.c07v1", "property": "C07", "class": "id3-default-sweep-raised", "payload": n, "padding": P,
                                       "v1": v1, "id3v1_present": has_v1})
                        continue
                    ctx.oracle_cases += 1
                    ctx.count("c07:id3-v1-threshold")
                    if states[1] == states[0] and states[2] == states[1]:
                        continue
                    removed = has_v1 and not W.id3v1_at_end(states[0])
                    data = {"runner": "fam.c07v1", "property": "C07", "payload": n, "padding": P, "v1": v1, "id3v1_present": has_v1,
                            "id3v1_removed_by_first_default_save": removed, "sizes": [len(x) for x in states],
                            "callback_saw": [list(x) for x in seen], "thresholds": [t_removed, t_present]}
                    if states[1] != states[0] and v1 == 0 and removed and t_removed < P <= t_present:
                        ctx.violation("oracle", C07_V1_WHAT, dict(data, **{"class": "id3-v1-removal-moves-default-padding-threshold"}))
                    else:
                        ctx.violation("oracle", "C07 ID3: repeated save with the default policy changes the file",
                                      dict(data, **{"class": "id3-default-not-idempotent"}))


def replay_history(ctx, checks, data):
    kind = KINDS[data["kind"]]
    name = data["sample"].replace("+history", "")
    for sample, d in kind.samples():
        if sample == name:
            before = len(ctx.violations)
            run_history(ctx, checks, kind, sample, d, data.get("hseed", 0), data.get("nops", len(data["history"])), id3_opts=data.get("id3_opts", False),
                        core=data.get("core"))
            if "C07" in checks:
                c07_scenario(ctx, checks, kind, sample, d)
            return len(ctx.violations) > before
    return False
