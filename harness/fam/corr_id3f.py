"""Correspondence of the id3f family model (coq/model/Fam_id3f.v, extracted) with mutagen.id3 (ID3.save / delete,
find_id3v1, ID3Header) for the kinds MP3, TrueAudio and the bare ID3 tag class.

The frames are opaque for the model.  For every save / fresh step of the shared engine the frame bytes the
implementation wrote are cut out of st.after with the independent Python walker (walkers.id3v2_walk), the ID3v1
bytes are the last 128 bytes of st.after, and
  * model id3f_save(st.before, frame bytes, v2, v1 mode + ID3v1 bytes, padding mode, Frames keys) must equal st.after
    byte for byte; the (info.padding, info.size) pair seen by the padding callback must be the model's;
  * delete / moddelete : model id3f_delete(st.before) == st.after (objects without tags: nothing happens);
  * afterwards : id3f_wf(st.after) must hold, the model's independent reader id3f_load(st.after) must return the
    frame bytes (none after a delete) and id3f_parse must agree with the Python walker on tag size, padding,
    payload and ID3v1 presence.
On `fresh` steps synthetic layouts (model's id3f_build: v2.2/2.3/2.4/unsupported headers, flag bits, extended
headers, non-syncsafe and overlong sizes, payloads shorter than the ID3v1 search window, TAG / APETAGEX tokens at
the window offsets, legacy short ID3v1 tags) are saved and deleted through mutagen.id3.ID3 / mutagen.id3.delete with
all option combinations (incl. negative and >= 2^28 padding) and compared with the model, exceptions included.
After every successful layout save the result is deleted again through mutagen.id3.delete and compared; ID3Header and
find_id3v1(start=...) are compared with the model's mirrors directly.  A vm_compute shard re-evaluates 36 small cases
inside Coq (once per run).
Regression oracles (no model involved) rebuild the concrete inputs of the genuine defects this family found and /repo
fixed: classes tag-in-apev2 (TAG inside a trailing APEv2 tag taken for ID3v1, save destroyed the APEv2 footer),
tag-in-id3v2 (TAG inside the freshly written ID3v2 frames, short payload), tag-in-id3v2-delete (same, module-level
delete) and default-policy-size-includes-tag (second default save changed the file).  A regression is a VIOLATION."""
import io
import mutagen
from common import hx, unhx, zs, zp
from . import walkers as W

KINDS = {"MP3", "TrueAudio", "ID3"}
LIMIT = 300_000
MODES = {"default": "default", "none": "default", "zero": "c0", "one": "c1", "odd": "c" + zs(777),
         "large": "c" + zs(50000), "keep": "keep"}
R = "fam.id3f"
_known = None
_oracles_done = set()
_vm_done = False


def known_frames():
    global _known
    if _known is None:
        from mutagen.id3 import Frames
        _known = hx(b"".join(k.encode("ascii") for k in sorted(Frames) if len(k) == 4))
    return _known


def exc_name(st_exc):
    if st_exc is None:
        return None
    return "MutagenError" if st_exc[0] == "MutagenError" else st_exc[1]


def first_diff(a, b):
    return next((i for i in range(min(len(a), len(b))) if a[i] != b[i]), min(len(a), len(b)))


def compare(ctx, what, reply, after, exc, data):
    """reply: 'ok x.. [p s]' | 'raise Name [p s]'; returns the reply parts when both sides succeeded"""
    want = exc_name(exc)
    parts = reply.split(" ")
    if parts[0] == "raise":
        if want is None:
            ctx.disagree(R, "%s: model raises %s, mutagen succeeds" % (what, parts[1]), data)
        elif parts[1] != want:
            ctx.disagree(R, "%s: model raises %s, mutagen raises %s" % (what, parts[1], want), data)
        return None
    if parts[0] != "ok":
        ctx.disagree(R, "%s: model error" % what, dict(data, reply=reply[:200]))
        return None
    if want is not None:
        ctx.disagree(R, "%s: mutagen raises %s, model succeeds" % (what, want), data)
        return None
    out = unhx(parts[1])
    if out != after:
        k = first_diff(out, after)
        ctx.disagree(R, "%s: file bytes differ" % what,
                     dict(data, model_len=len(out), impl_len=len(after), first_diff=k,
                          model_at=out[max(0, k - 4):k + 12].hex(), impl_at=after[max(0, k - 4):k + 12].hex()))
    return parts


def frames_of(after):
    """frame bytes of the ID3v2 tag at the start of `after` by the independent walker; None when there is none"""
    if after[:3] != b"ID3":
        return None
    t = W.id3v2_walk(after, "id3")
    return after[10:t["size"] - t["padding"]], t


def v1bytes_of(after):
    return after[-128:] if len(after) >= 128 else bytes(128)


def check_after(ctx, what, after, frames, data):
    """model's independent reader / wf / parse on the bytes mutagen wrote; frames: bytes | None (no tag expected)"""
    r = ctx.model.call("id3f_wf", hx(after))
    if r != "ok 1":
        ctx.disagree(R, "%s: file written by mutagen is not well-formed for the model (id3f_wf)" % what,
                     dict(data, reply=r, parse=ctx.model.call("id3f_parse", hx(after))[:80]))
    r = ctx.model.call("id3f_load", hx(after))
    want = "ok none" if frames is None else "ok " + hx(frames)
    if r != want:
        ctx.disagree(R, "%s: independent reader (id3f_load) does not return the frame bytes that were written" % what,
                     dict(data, reply=r[:200], want=want[:200]))
    try:
        w = W.id3file(after)
    except W.Bad:
        return
    p = ctx.model.call("id3f_parse", hx(after))
    t = w["tags"]
    mid = w["foreign"][0][1]
    if t is None:
        want = "ok none 0 0 0 %x %d" % (len(mid), 1 if w["extra"]["v1"] else 0)
    else:
        want = "ok %s %s %x %s %x %d" % (zs(t["version"]), zs(t["size"]), t["size"] - 10 - t["padding"], zs(t["padding"]),
                                       len(mid), 1 if w["extra"]["v1"] else 0)
    if p != want:
        ctx.disagree(R, "%s: id3f_parse and the Python walker segment the file differently" % what, dict(data, model=p, walker=want))


def check_step(ctx, kind, st):
    global _vm_done
    if not _vm_done:
        _vm_done = True
        vm_crosscheck(ctx)
    data = {"kind": kind.name, "op": st.brief(), "before_len": len(st.before), "before_head": st.before[:32].hex(),
            "v1": st.v1, "v2": st.v2}
    op = st.op
    if op not in ("save", "fresh", "delete", "moddelete"):
        return
    big = len(st.before) > LIMIT or len(st.after) > LIMIT
    if big:
        ctx.count("id3f:skip-large")
        return
    if op in ("save", "fresh"):
        if st.exc is not None:
            ctx.count("id3f:skip-save-raised")
            return
        if st.mem is None:
            # a file type object without tags: save() does nothing
            ctx.corr_cases += 1
            if st.after != st.before:
                ctx.disagree(R, "save on an object without tags changed the file", data)
            return
        try:
            fw = frames_of(st.after)
        except W.Bad as e:
            ctx.disagree(R, "save: the ID3v2 tag of the saved file cannot be walked (%s)" % str(e).split(":")[-1].strip()[:40], data)
            return
        if fw is None:
            ctx.disagree(R, "save: no ID3v2 tag at the start of the saved file", data)
            return
        frames, t = fw
        mode = MODES[st.arg if op == "save" else "none"]
        reply = ctx.model.call("id3f_save", hx(st.before), hx(frames), zs(st.v2), zs(st.v1), hx(v1bytes_of(st.after)),
                               mode, known_frames())
        ctx.corr_cases += 1
        parts = compare(ctx, "save", reply, st.after, st.exc, data)
        if parts and st.cb and len(parts) >= 4 and parts[2] != "-":
            p_in, size_in, _ = st.cb[0]
            if (zp(parts[2]), zp(parts[3])) != (p_in, size_in):
                ctx.disagree(R, "save: padding callback received different (info.padding, info.size)",
                             dict(data, model=[zp(parts[2]), zp(parts[3])], impl=[p_in, size_in]))
        if ctx.model.call("id3f_frames_ok", zs(st.v2), hx(frames)) != "ok 1":
            ctx.disagree(R, "save: frame bytes written by mutagen are not frames_ok (hypothesis of the theorems)", data)
        check_after(ctx, "save", st.after, frames, data)
        ctx.count("id3f:save-compared")
        if op == "fresh":
            extra_layouts(ctx, st, data)
            oracles(ctx, kind, st)
    else:
        no_tags = op == "delete" and not kind.is_tagclass and st.obj_tags_after is None and st.after == st.before
        ctx.corr_cases += 1
        if no_tags:
            ctx.count("id3f:delete-without-tags")
            return
        reply = ctx.model.call("id3f_delete", hx(st.before))
        compare(ctx, op, reply, st.after, st.exc, data)
        if st.exc is None:
            check_after(ctx, op, st.after, None, data)
            r2 = ctx.model.call("id3f_delete", hx(st.after))
            if r2 != "ok " + hx(st.after):
                ctx.disagree(R, "%s: model's delete is not idempotent on the result" % op, data)
            ctx.count("id3f:delete-compared")


# ---------------------------------------------------------------------------------- synthetic layouts
def frame(fid, payload, ver):
    n = len(payload)
    if ver == 2:
        return fid[:3] + n.to_bytes(3, "big") + payload
    if ver == 4:
        sz = bytes([(n >> 21) & 127, (n >> 14) & 127, (n >> 7) & 127, n & 127])
    else:
        sz = n.to_bytes(4, "big")
    return fid + sz + b"\x00\x00" + payload


def rand_payload(rng):
    r = rng.random()
    if r < 0.2:
        return b""
    if r < 0.5:
        n = rng.choice([1, 3, 9, 10, 100, 123, 124, 127, 128, 129, 130, 131, 132, 200])
        return bytes(rng.choice([0xFF, 0xFB, 0x00, 0x41]) for _ in range(n))
    if r < 0.75:
        # tokens at the offsets the ID3v1 search looks at
        n = rng.choice([131, 140, 300])
        b = bytearray(rng.choice([0x00, 0x55]) for _ in range(n))
        for _ in range(rng.choice([1, 1, 2])):
            tok = rng.choice([b"TAG", b"APETAGEX", b"TAGTAG", b"APE"])
            off = rng.choice([124, 125, 127, 128, 129, 130, 131, 32, 3, 256, 133])
            if off <= n and off - len(tok) >= 0:
                b[n - off:n - off + len(tok)] = tok
        return bytes(b)
    return b"\xff\xfb\x90\x64" + bytes(rng.choice([200, 1000, 5000]))


def rand_v1(rng):
    r = rng.random()
    if r < 0.5:
        return None
    if r < 0.8:
        return b"TAG" + bytes(rng.choice([0x00, 0x20, 0x41]) for _ in range(125))
    # legacy short tags written by old mutagen versions (124..127 bytes) and near misses
    return b"TAG" + bytes(rng.choice([120, 121, 122, 123, 124, 126]))


def extra_layouts(ctx, st, data0):
    from mutagen.id3 import ID3, TIT2, PRIV, delete as id3_delete
    from .engine import pad_callback
    rng = ctx.rng
    for rep in range(3):
        valid = rng.random() < 0.5           # a layout the theorems speak about (id3f_wf)
        ver = rng.choice([2, 3, 4, 4]) if valid else rng.choice([2, 3, 3, 4, 4, 4, 5, 1])
        flags = 0 if valid else rng.choice([0, 0, 0, 0, 0x40, 0x40, 0x80, 0x10, 0x20, 0x01, 0xC0])
        tagdesc = None
        if rng.random() < 0.75:
            ids = [b"TIT2", b"TPE1", b"XXXX", b"A1B2"] if valid else [b"TIT2", b"TPE1", b"XXXX", b"TT2\x00", b"tit2"]
            fr = b"".join(frame(rng.choice(ids), bytes([3]) + bytes(rng.choice([1, 5, 40, 200]) * [0x61]), ver)
                          for _ in range(rng.choice([0, 1, 2, 3])))
            if flags & 0x40 and rng.random() < 0.7:
                ext = rng.choice([b"\x00\x00\x00\x06" + bytes(6), b"\x00\x00\x00\x0a" + bytes(10), b"\x00\x00\x00\x02", b"\x00\x00\x7f\x7f",
                                  b"\x00\x00\x00\x80", b"\xff\xff\xff\xff", b"\x00\x00"])
                fr = ext + fr
            pad = rng.choice([0, 0, 1, 10, 100, 1024])
            tagdesc = [ver, flags, fr, pad]
        audio = rand_payload(rng)
        v1 = rand_v1(rng)
        if valid:
            audio = b"\xff\xfb\x90\x64" + bytes(rng.choice([0x00, 0x55, 0x54]) for _ in range(rng.choice([0, 1, 20, 127, 128, 140, 1000])))
            v1 = rng.choice([None, b"TAG" + bytes(rng.choice([0x00, 0x20, 0x41]) for _ in range(125))])
            if rng.random() < 0.2:
                # a trailing APEv2-like block: footer preamble 32 bytes before the end, TAG 128 bytes before the end
                tail = bytearray(b"\x01" * 200); tail[-128:-125] = b"TAG"; tail[-32:-24] = b"APETAGEX"
                audio, v1 = audio + bytes(tail), None
        if rep == 0 and rng.random() < 0.3:
            audio, v1 = bytes(rng.choice([0x00, 0x55]) for _ in range(rng.choice([0, 0, 4, 20]))), None
        r = ctx.model.call("id3f_build", "none" if tagdesc is None else "%s/%s/%s/%s" % (zs(tagdesc[0]), zs(tagdesc[1]), hx(tagdesc[2]), zs(tagdesc[3])),
                           hx(audio), "none" if v1 is None else hx(v1))
        if not r.startswith("ok "):
            ctx.disagree(R, "id3f_build failed", dict(data0, reply=r[:100]))
            return
        f0 = unhx(r[3:])
        # corruptions of the header the builder cannot express
        c = 1.0 if valid else rng.random()
        if tagdesc is not None and c < 0.12:
            f0 = f0[:6] + bytes([rng.choice([0x80, 0xFF])]) + f0[7:]           # size not syncsafe
        elif tagdesc is not None and c < 0.24:
            f0 = f0[:rng.choice([3, 9, 10, 12, max(10, len(f0) // 2)])]          # truncated
        elif tagdesc is not None and c < 0.3:
            f0 = f0[:6] + b"\x00\x7f\x7f\x7f" + f0[10:]                          # size beyond the end of the file
        d = dict(data0, runner="fam.id3f.layout", layout=f0[:600].hex(), layout_len=len(f0))
        ctx.count("id3f:layout")
        # ---- save through a fresh ID3 object
        v2 = rng.choice([3, 4, 4])
        v1mode = rng.choice([0, 1, 1, 2])
        mode_name = rng.choice(["default", "zero", "one", "odd", "large", "keep", "neg", "wide", "none"])
        t = ID3()
        if rng.random() < 0.85:
            t.add(TIT2(encoding=3, text=["Zq" + "ä" * rng.choice([0, 1, 60, 500])]))
        if rng.random() < 0.4:
            k = rng.choice([100, 117, 118, 119, 120, 121, 122, 123, 124, 125, 126, 127, 128, 130])
            t.add(PRIV(owner="o", data=rng.choice([b"TAG", b"APETAGEX", b"xTAG"]) + bytes([0x78]) * k))
        if rep == 0 and len(f0) < 100 and v1 is None:
            # aimed at the ID3v1 search window: only frame data with TAG 124..128 bytes before the end of the saved file
            t = ID3()
            t.add(PRIV(owner="o", data=b"TAG" + bytes([0x78]) * (125 - len(audio) - rng.choice([0, 0, 1, 4]))))
            mode_name = "zero"
        # the frame bytes of this object: saved in front of 200 zero bytes (an empty or short file would let the
        # ID3v1 search look into the new tag itself, see oracles())
        b0 = io.BytesIO(bytes(200))
        t.save(b0, v1=0, v2_version=v2, padding=lambda info: 0)
        frames = b0.getvalue()[10:-200]
        log = []
        kw = {"v1": v1mode, "v2_version": v2}
        if mode_name == "neg":
            kw["padding"] = lambda info: (log.append((info.padding, info.size, -1)), -1)[1]
            mode = "c-1"
        elif mode_name == "wide":
            kw["padding"] = lambda info: (log.append((info.padding, info.size, 1 << 28)), 1 << 28)[1]
            mode = "c" + zs(1 << 28)
        elif mode_name == "none":
            mode = "default"
        else:
            kw["padding"] = pad_callback(mode_name, log)
            mode = MODES[mode_name]
        b = io.BytesIO(f0)
        exc = None
        try:
            t.save(b, **kw)
        except mutagen.MutagenError as e:
            exc = ("MutagenError", type(e).__name__)
        except ValueError as e:
            exc = ("OTHER", "ValueError")
        f1 = b.getvalue()
        reply = ctx.model.call("id3f_save", hx(f0), hx(frames), zs(v2), zs(v1mode), hx(v1bytes_of(f1) if exc is None else bytes(128)),
                               mode, known_frames())
        ctx.corr_cases += 1
        d1 = dict(d, save=dict(v2=v2, v1=v1mode, mode=mode_name, frames_len=len(frames)))
        parts = compare(ctx, "layout save", reply, f1, exc, d1)
        parts2 = reply.split(" ")
        if log and len(parts2) >= 4 and parts2[-2] != "-" and (zp(parts2[-2]), zp(parts2[-1])) != (log[0][0], log[0][1]):
            ctx.disagree(R, "layout save: padding callback received different (info.padding, info.size)",
                         dict(d1, model=[zp(parts2[-2]), zp(parts2[-1])], impl=list(log[0][:2])))
        if exc is not None:
            ctx.count("id3f:layout-save-raises-" + exc[1])
        if len(f1) > LIMIT:
            ctx.count("id3f:layout-result-too-large")
            continue
        # ---- what the theorems promise on well-formed layouts
        wf0 = ctx.model.call("id3f_wf", hx(f0)) == "ok 1"
        if wf0:
            ctx.count("id3f:layout-wf")
        if wf0 and exc is None:
            p0 = ctx.model.call("id3f_parse", hx(f0)).split(" ")
            midlen = zp(p0[5]); had_v1 = p0[6] == "1"; off0 = zp(p0[2])
            mid = f0[off0:off0 + midlen]
            writes_v1 = v1mode == 2 or (v1mode == 1 and had_v1)
            fits = (not writes_v1) or ctx.model.call("id3f_v1_fits", hx(mid), hx(f1[-128:])) == "ok 1"
            if fits:
                if ctx.model.call("id3f_wf", hx(f1)) != "ok 1":
                    ctx.disagree(R, "layout save: result of saving a well-formed layout is not well-formed (C03 theorem instance)", d1)
                p1 = ctx.model.call("id3f_parse", hx(f1)).split(" ")
                if p1[0] == "ok":
                    off1 = zp(p1[2]); m1 = f1[off1:off1 + zp(p1[5])]
                    if m1 != mid:
                        ctx.disagree(R, "layout save: payload between the tags changed (C02 theorem instance)", d1)
                if ctx.model.call("id3f_load", hx(f1)) != "ok " + hx(frames):
                    ctx.disagree(R, "layout save: independent reader does not return the frames (C01 theorem instance)", d1)
        # ---- module-level delete of what was just saved, and of the layout itself
        if exc is None:
            b = io.BytesIO(f1)
            exc3 = None
            try:
                id3_delete(b)
            except mutagen.MutagenError as e:
                exc3 = ("MutagenError", type(e).__name__)
            except ValueError as e:
                exc3 = ("OTHER", "ValueError")
            ctx.corr_cases += 1
            compare(ctx, "delete after layout save", ctx.model.call("id3f_delete", hx(f1)), b.getvalue(), exc3, d1)
        b = io.BytesIO(f0)
        exc2 = None
        try:
            id3_delete(b)
        except mutagen.MutagenError as e:
            exc2 = ("MutagenError", type(e).__name__)
        except ValueError as e:
            exc2 = ("OTHER", "ValueError")
        f2 = b.getvalue()
        reply = ctx.model.call("id3f_delete", hx(f0))
        ctx.corr_cases += 1
        compare(ctx, "layout delete", reply, f2, exc2, d)
        if wf0 and exc2 is None:
            p0 = ctx.model.call("id3f_parse", hx(f0)).split(" ")
            off0 = zp(p0[2]); mid = f0[off0:off0 + zp(p0[5])]
            if f2 != mid:
                ctx.disagree(R, "layout delete: deleting from a well-formed layout does not leave exactly the payload (C08 theorem instance)", d)
        # ---- the header mirror and the ID3v1 finder against the implementation, directly
        from mutagen.id3._tags import ID3Header
        from mutagen.id3._id3v1 import find_id3v1
        from mutagen.id3 import ID3NoHeaderError
        try:
            h = ID3Header(io.BytesIO(f0))
            want = "ok " + zs(h.size)
        except ID3NoHeaderError:
            want = "ok none"
        except mutagen.MutagenError:
            want = "raise MutagenError"
        got = ctx.model.call("id3f_header", known_frames(), hx(f0))
        ctx.corr_cases += 1
        if got != want:
            ctx.disagree(R, "ID3Header: model %s, mutagen %s" % (got, want), d)
        for start in (0, rng.choice([0, 1, 10, len(f0) - 131, len(f0) - 130, len(f0) - 128, len(f0) - 127, len(f0) - 124, len(f0)])):
            tag, offset = find_id3v1(io.BytesIO(f0), start=start)
            want = "ok none" if tag is None else "ok " + zs(-offset)
            got = ctx.model.call("id3f_find_v1", zs(start), hx(f0))
            ctx.corr_cases += 1
            if got != want:
                ctx.disagree(R, "find_id3v1(start=%d): model %s, mutagen %s" % (start, got, want), d)


# ---------------------------------------------------------------------------------- direct oracles (no model involved)
def ape_tag_with_token(token_off):
    """an APEv2 tag (header + one binary item + footer) whose item value has b'TAG' exactly `token_off` bytes before
    the end of the tag"""
    import struct
    key = b"Cover Art (Front)"
    vlen = 300
    value = bytearray(b"\x01" * vlen)
    # footer 32 bytes; the value ends right before the footer
    pos = vlen + 32 - token_off
    value[pos:pos + 3] = b"TAG"
    item = struct.pack("<II", vlen, 2) + key + b"\x00" + bytes(value)
    size = len(item) + 32
    head = b"APETAGEX" + struct.pack("<IIII", 2000, size, 1, (1 << 31) | (1 << 29)) + bytes(8)
    foot = b"APETAGEX" + struct.pack("<IIII", 2000, size, 1, (1 << 31)) + bytes(8)
    return head + item + foot


def oracles(ctx, kind, st):
    key = kind.name
    if key in _oracles_done:
        return
    _oracles_done.add(key)
    try:
        _oracles(ctx, kind, st)
    except Exception as e:
        import traceback
        ctx.violation("oracle", "C03 ID3: regression scenario of the id3f family raised %s" % type(e).__name__,
                      {"class": "id3f-oracle-raised", "runner": "fam.id3f.oracle", "property": "C03", "kind": kind.name,
                       "trace": traceback.format_exc()[-500:]})


def _oracles(ctx, kind, st):
    from mutagen.id3 import ID3, TIT2, PRIV
    audio = b"\xff\xfb\x90\x64" + bytes(413)
    # ---- C02: TAG inside a trailing APEv2 tag, 128 bytes before the end of the file
    ape = ape_tag_with_token(128)
    f0 = audio * 3 + ape
    if W.id3v1_at_end(f0) is False and W.ape_locate(f0) is not None:
        b = io.BytesIO(f0)
        t = ID3()
        t.add(TIT2(encoding=3, text=["title"]))
        try:
            t.save(b, v1=1)
            f1 = b.getvalue()
            ctx.oracle_cases += 1
            if f1[-len(ape):] != ape:
                ctx.violation("oracle", "C02 MP3: ID3 save overwrote a trailing APEv2 tag (TAG inside the APEv2 data taken for ID3v1)",
                              {"class": "tag-in-apev2", "runner": "fam.id3f.oracle", "property": "C02", "kind": kind.name,
                               "recipe": "audio(3*417 bytes: fffb9064 + 413 zero bytes) + APEv2 tag {header, one binary item "
                                         "'Cover Art (Front)' of 300 bytes 0x01 with b'TAG' at value offset 204, footer}",
                               "file_len": len(f0), "file_tail_160": f0[-160:].hex(), "call": "ID3 with TIT2 'title' .save(file, v1=1)",
                               "token_offset_from_eof": 128, "first_changed_byte_from_eof": len(ape) - first_diff(f1[-len(ape):], ape),
                               "footer_before": f0[-32:-24].hex(), "footer_after": f1[-32:-24].hex()})
        except Exception as e:
            ctx.violation("oracle", "C02 MP3: ID3 save raised on a file with a trailing APEv2 tag", {"class": "tag-in-apev2", "exc": type(e).__name__})
    # ---- C01: TAG inside the ID3v2 frame data written by this very save, payload shorter than the search window
    t = ID3()
    t.add(PRIV(owner="o", data=b"TAG" + b"x" * 125))
    for payload in (b"", b"\xff\xfb\x90\x64" + bytes(20)):
        k = 125 - len(payload)
        t = ID3()
        t.add(PRIV(owner="o", data=b"TAG" + b"x" * k))
        b = io.BytesIO(payload)
        t.save(b, padding=lambda info: 0)
        f1 = b.getvalue()
        ctx.oracle_cases += 1
        try:
            fr = frames_of(f1)
            ok = fr is not None and fr[1]["frames"] == [("PRIV", 0, b"o\x00TAG" + b"x" * k)] and f1[len(f1) - len(payload):] == payload
        except W.Bad:
            ok = False
        if not ok:
            ctx.violation("oracle", "C01 ID3: ID3 save overwrote its own frame data with an ID3v1 tag (TAG inside the new ID3v2 tag taken for ID3v1)",
                          {"class": "tag-in-id3v2", "runner": "fam.id3f.oracle", "property": "C01", "kind": kind.name,
                           "payload": payload.hex(), "call": "ID3 with PRIV(owner='o', data=b'TAG'+b'x'*%d).save(file, padding=lambda i: 0)" % k,
                           "saved_tail": f1[-128:-100].hex()})
            break
    # ---- C08: module-level delete on a file that is nothing but an ID3v2 tag whose frame data has TAG 128 bytes before EOF
    from mutagen.id3 import delete as id3_delete
    for payload in (b"", b"\xff\xfb\x90\x64" + bytes(20)):
        k = 125 - len(payload)
        t = ID3()
        t.add(PRIV(owner="o", data=b"TAG" + b"x" * k))
        b = io.BytesIO(bytes(300))
        t.save(b, v1=0, padding=lambda info: 0)
        f0 = b.getvalue()[:-300] + payload          # a valid file: tag + short payload
        b = io.BytesIO(f0)
        ctx.oracle_cases += 1
        try:
            id3_delete(b)
            bad = b.getvalue() != payload
            exc = None
        except Exception as e:
            bad, exc = True, type(e).__name__
        if bad:
            ctx.violation("oracle", "C08 ID3: delete did not remove exactly the ID3v2 tag (TAG inside the ID3v2 tag taken for ID3v1 by delete)",
                          {"class": "tag-in-id3v2-delete", "runner": "fam.id3f.oracle", "property": "C08", "kind": kind.name,
                           "payload": payload.hex(), "file_len": len(f0), "exc": exc, "left_len": len(b.getvalue()),
                           "call": "mutagen.id3.delete(file) on ID3v2.4 tag {PRIV owner 'o' data b'TAG'+b'x'*%d, no padding} + payload" % k})
            break
    # ---- C07: the default policy is fed the file size including the old tag
    b = io.BytesIO(audio)
    t = ID3()
    t.add(TIT2(encoding=3, text=["title"]))
    t.save(b, padding=lambda info: 12_000_000)
    sizes = []
    for i in range(3):
        b.seek(0)
        t2 = ID3(b)
        b.seek(0)
        t2.save(b)
        sizes.append(len(b.getvalue()))
    ctx.oracle_cases += 1
    if sizes[1] != sizes[0]:
        ctx.violation("oracle", "C07 ID3: saving a second time changes the file (default padding policy is fed a file size that includes the old tag)",
                      {"class": "default-policy-size-includes-tag", "runner": "fam.id3f.oracle", "property": "C07", "kind": kind.name,
                       "call": "save(padding=lambda i: 12000000); then load+save() three times", "sizes_after_each_default_save": sizes})


# ---------------------------------------------------------------------------------- vm_compute cross-check
def vm_crosscheck(ctx):
    """the extracted binary and Coq's own evaluator must agree on id3f_save / id3f_delete / id3f_wf / id3f_load for small
    synthetic files (once per run)"""
    import re
    from common import coq_bytes, vm_shard
    rng = ctx.rng
    cases, keys = [], []
    v1b = b"TAG" + bytes(125)
    for i in range(12):
        ver = rng.choice([2, 3, 4, 4, 5])
        flags = rng.choice([0, 0, 0, 0x40, 0x80])
        fr = b"".join(frame(rng.choice([b"TIT2", b"XXXX"]), bytes([3, 0x61, 0x62]), ver) for _ in range(rng.choice([0, 1, 2])))
        tag = None if i % 4 == 3 else "%s/%s/%s/%s" % (zs(ver), zs(flags), hx(fr), zs(rng.choice([0, 7])))
        audio = rng.choice([b"", b"\xff\xfb" + bytes(rng.choice([3, 130, 160])), bytes(4) + b"TAG" + bytes(rng.choice([120, 121, 125, 126]))])
        v1 = None if rng.random() < 0.5 else v1b
        r = ctx.model.call("id3f_build", tag or "none", hx(audio), "none" if v1 is None else hx(v1))
        f0 = unhx(r[3:])
        frames = frame(b"TPE1", bytes([0, 0x41]), 4) * rng.choice([0, 1, 2])
        v2 = rng.choice([3, 4]); v1m = rng.choice([0, 1, 2])
        mode, cb = rng.choice([("default", "id3f_cb_default"), ("keep", "id3f_cb_keep"), ("c0", "(id3f_cb_const 0)"),
                               ("c" + zs(777), "(id3f_cb_const 777)"), ("c-1", "(id3f_cb_const (-1))")])
        F = coq_bytes(f0)
        cases.append("match id3f_save %s %s (mkIOpts %d %d %s %s [[84;73;84;50]]) with Ok d => (0, d) | Raise _ => (1, []) end"
                     % (F, coq_bytes(frames), v2, v1m, coq_bytes(v1b), cb))
        keys.append(("save", f0, frames, v2, v1m, mode))
        cases.append("match id3f_delete %s with Ok d => (0, d) | Raise _ => (1, []) end" % F)
        keys.append(("delete", f0))
        cases.append("id3f_wf %s" % F)
        keys.append(("wf", f0))
    pre = "From Coq Require Import ZArith List. Import ListNotations. Require Import Base.Py Model.Fam_id3f. Open Scope Z_scope."
    res, log = vm_shard("fam_id3f", pre, cases)
    if res is None or len(res) != len(cases):
        ctx.disagree(R + ".vm_shard", "vm_compute shard failed to run", {"log": str(log)[-300:]})
        return
    for key, r in zip(keys, res):
        ctx.vm_cases += 1
        r = r.replace("%Z", "")
        if key[0] == "wf":
            want = ctx.model.call("id3f_wf", hx(key[1]))
            if want != ("ok 1" if r == "true" else "ok 0"):
                ctx.disagree(R + ".vm_shard", "id3f_wf: extracted %s, vm_compute %s" % (want, r), {"file": key[1].hex()})
            continue
        if key[0] == "save":
            rm = ctx.model.call("id3f_save", hx(key[1]), hx(key[2]), zs(key[3]), zs(key[4]), hx(v1b), key[5], hx(b"TIT2"))
        else:
            rm = ctx.model.call("id3f_delete", hx(key[1]))
        m = re.match(r"\((\d), \[([^\]]*)\]\)", r)
        if not m:
            ctx.disagree(R + ".vm_shard", "unparsable vm_compute result", {"result": r[:200]})
            continue
        if m.group(1) == "1":
            ok = rm.startswith("raise")
        else:
            bts = bytes(int(x) for x in m.group(2).split(";") if x.strip())
            ok = rm.startswith("ok ") and unhx(rm.split(" ")[1]) == bts
        if not ok:
            ctx.disagree(R + ".vm_shard", "%s: extracted binary and vm_compute differ" % key[0], {"file": key[1].hex(), "binary": rm[:120], "vm": r[:120]})
