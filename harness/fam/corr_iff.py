"""Correspondence of the IFF family model (coq/model/Fam_iff.v, extracted) with mutagen._iff / _riff / aiff / wave / dsdiff.

The ID3v2 tag is opaque for this family.  For every save / fresh / delete / moddelete step of every history of the
shared engine on the kinds AIFF, WAVE, DSDIFF:
  * save / fresh : the tag bytes the implementation wrote are read back from st.after by a small independent chunk
                   walker of this module (payload of the first ID3 chunk); the model's iff_save(st.before, tag bytes)
                   must equal st.after byte for byte.  In addition the C09 form iff_save_cb(st.before, frame data,
                   v2_version, padding callback of the mode) -- frame data = tag minus header and padding -- must give the
                   same bytes, and the (info.padding, info.size) pair the model hands to the callback must be the pair
                   the real callback saw (st.cb);
  * delete / moddelete : iff_delete(st.before) == st.after;
  * afterwards   : the model's strict reader must accept st.after (iff_wf), iff_load(st.after) must return exactly the
                   tag bytes (nothing after a delete of a file with at most one ID3 chunk), and the chunks other than the
                   ID3 chunk as iff_parse segments them must be identical before and after.
On `fresh` steps a scenario on synthetic layouts runs (model's iff_build: ID3 chunk first / in the middle / last /
absent / twice, odd and even foreign chunks, WAVE with an upper-case `ID3 ` chunk, nested container ids) plus LENIENT
layouts only mutagen's reader accepts (root size odd with a trailing pad byte, root size short of the file, truncated last
chunk, blank chunk id ending the walk, container child with data size < 4): mutagen's tag classes _IFFID3 / _WaveID3 /
_DSDIFFID3 save and delete on them and the model must produce the same bytes / the same exception class."""
import io, re, struct
import mutagen
import common
from common import hx, unhx, zs, zp, coq_bytes

KINDS = {"AIFF", "WAVE", "DSDIFF"}
LIMIT = 300_000
MODES = {"default": "default", "none": "default", "zero": "c0", "one": "c1", "odd": "c" + zs(777),
         "large": "c" + zs(50000), "keep": "keep"}
HS = {"aiff": 8, "wave": 8, "dff": 12}
FMT = {"aiff": ">I", "wave": "<I", "dff": ">Q"}
ROOT = {"aiff": b"FORM", "wave": b"RIFF", "dff": b"FRM8"}
NAME = {"aiff": b"AIFF", "wave": b"WAVE", "dff": b"DSD "}
TAGIDS = {"aiff": (b"ID3",), "wave": (b"ID3", b"id3"), "dff": (b"ID3",)}


def chunks_of(fam, d):
    """independent top-level walk: [(offset, raw id, data_size)] as far as headers fit"""
    hs = HS[fam]
    out = []
    p = hs + 4
    while p + hs <= len(d):
        n = struct.unpack(FMT[fam], d[p + 4:p + hs])[0]
        out.append((p, d[p:p + 4], n))
        p += hs + n + (n & 1)
    return out


def tag_payload(fam, d):
    """payload of the first ID3 chunk (None: no such chunk)"""
    for p, cid, n in chunks_of(fam, d):
        if cid.rstrip(b" ") in TAGIDS[fam]:
            return d[p + HS[fam]:p + HS[fam] + n]
    return None


def exc_name(st_exc):
    if st_exc is None:
        return None
    return "MutagenError" if st_exc[0] == "MutagenError" else st_exc[1]


def compare_bytes(ctx, what, reply, after, want_exc, data):
    """reply: 'ok x.. [p s]' or 'raise Name ..'; returns the reply parts when both sides succeeded"""
    parts = reply.split(" ")
    if parts[0] == "raise":
        got = parts[1]
        if want_exc is None:
            ctx.disagree("fam.iff", "%s: model raises %s, mutagen succeeds" % (what, got), data)
        elif got != want_exc:
            ctx.disagree("fam.iff", "%s: model raises %s, mutagen raises %s" % (what, got, want_exc), data)
        return None
    if parts[0] != "ok":
        ctx.disagree("fam.iff", "%s: model error" % what, dict(data, reply=reply[:200]))
        return None
    if want_exc is not None:
        ctx.disagree("fam.iff", "%s: mutagen raises %s, model succeeds" % (what, want_exc), data)
        return None
    out = unhx(parts[1])
    if out != after:
        k = next((i for i in range(min(len(out), len(after))) if out[i] != after[i]), min(len(out), len(after)))
        ctx.disagree("fam.iff", "%s: file bytes differ" % what,
                     dict(data, model_len=len(out), impl_len=len(after), first_diff=k,
                          model_at=out[max(0, k - 4):k + 12].hex(), impl_at=after[max(0, k - 4):k + 12].hex()))
    return parts


def model_parse(ctx, fam, d):
    r = ctx.model.call("iff_parse", fam, hx(d))
    if not r.startswith("ok "):
        return None
    _, name, cs, oth, n = r.split(" ")
    return dict(name=name, chunks=cs, others=oth, nid3=zp(n))


def check_after(ctx, fam, what, before, after, expect, data):
    """strict reader on the bytes mutagen wrote.  expect: tag bytes | None (no tag chunk) | 'skip'"""
    pb = model_parse(ctx, fam, before)
    if pb is None:
        ctx.count("iff:before-not-wf")
        return
    pa = model_parse(ctx, fam, after)
    if pa is None:
        ctx.disagree("fam.iff", "%s: file written by mutagen is not well-formed for the model (iff_wf)" % what, data)
        return
    # save: the chunks other than the (first) ID3 chunk are the same; delete: exactly the first ID3 chunk is gone
    kept = pa["chunks"] if expect is None else pa["others"]
    if pa["name"] != pb["name"] or kept != pb["others"]:
        ctx.disagree("fam.iff", "%s: chunks other than the ID3 chunk differ under the model's strict reader" % what, data)
    if expect == "skip":
        return
    r = ctx.model.call("iff_load", fam, hx(after))
    if expect is None:
        if pb["nid3"] <= 1 and r != "ok none":
            ctx.disagree("fam.iff", "%s: independent reader still finds an ID3 chunk" % what, dict(data, reply=r[:80]))
    elif r != "ok " + hx(expect):
        ctx.disagree("fam.iff", "%s: independent reader (iff_load) does not return the tag bytes that were written" % what,
                     dict(data, reply=r[:80]))


def check_save(ctx, fam, what, before, after, exc, mode, cb_log, had_tags, data, wpad=None):
    want = exc
    if not had_tags:
        # FileType.save() with tags None does nothing
        if after != before:
            ctx.disagree("fam.iff", "%s without tags changed the file" % what, data)
        return
    if want is not None:
        ctx.count("iff:save-raised")
        return
    tag = tag_payload(fam, after)
    if tag is None:
        ctx.disagree("fam.iff", "%s: no ID3 chunk found in the file mutagen wrote" % what, data)
        return
    ctx.corr_cases += 1
    compare_bytes(ctx, what, ctx.model.call("iff_save", fam, hx(before), hx(tag)), after, None, data)
    # C09 form: _prepare_data modelled
    pad = None
    if cb_log:
        pad = cb_log[0][2]
    elif wpad is not None:
        pad = wpad
    if pad is not None and 0 <= pad <= len(tag) - 10 and tag[:3] == b"ID3" and not tag[len(tag) - pad:].strip(b"\x00"):
        fd, ver = tag[10:len(tag) - pad], tag[3]
        reply = ctx.model.call("iff_save_cb", fam, hx(before), hx(fd), zs(ver), MODES[mode])
        ctx.corr_cases += 1
        parts = compare_bytes(ctx, what + " (callback form)", reply, after, None, data)
        if parts and cb_log and len(parts) >= 4 and parts[2] != "-":
            p_in, size_in, _ = cb_log[0]
            if (zp(parts[2]), zp(parts[3])) != (p_in, size_in):
                ctx.disagree("fam.iff", "%s: padding callback received different (info.padding, info.size)" % what,
                             dict(data, model=[zp(parts[2]), zp(parts[3])], impl=[p_in, size_in]))
        ctx.count("iff:save-cb-compared")
    check_after(ctx, fam, what, before, after, tag, data)
    ctx.count("iff:save-compared")


def check_delete(ctx, fam, what, before, after, exc, data):
    ctx.corr_cases += 1
    compare_bytes(ctx, what, ctx.model.call("iff_delete", fam, hx(before)), after, exc, data)
    if exc is None:
        check_after(ctx, fam, what, before, after, None, data)
        ctx.count("iff:delete-compared")


def check_step(ctx, kind, st):
    fam = kind.family
    op = st.op
    if op not in ("save", "fresh", "delete", "moddelete"):
        return
    data = {"kind": kind.name, "op": st.brief(), "before_len": len(st.before), "before_head": st.before[:48].hex()}
    if len(st.before) > LIMIT or len(st.after) > LIMIT:
        ctx.count("iff:skip-large")
        return
    if op in ("save", "fresh"):
        mode = st.arg if op == "save" else "none"
        wpad = st.wafter["padding"] if st.wafter else None
        check_save(ctx, fam, op, st.before, st.after, exc_name(st.exc), mode, st.cb, st.mem is not None, data, wpad)
        if op == "fresh" and st.exc is None:
            synthetic(ctx, kind, data)
    else:
        check_delete(ctx, fam, "delete" if op == "delete" else "module delete", st.before, st.after, exc_name(st.exc), data)



# ---------------------------------------------------------------------------------- vm_compute cross-check
VM_BATCH = 12
EXC_COQ = {"EStruct": "struct.error", "EValue": "ValueError", "EMutagen": "MutagenError", "EOutOfFuel": "FUEL"}
COQ_CB = {"default": "cb_default", "keep": "cb_keep"}
COQ_FL = {"aiff": "aiff", "wave": "wave", "dff": "dsdiff"}


def coq_cb(mode):
    return COQ_CB.get(mode) or "(cb_const %d)" % zp(mode[1:])


def vm_note(ctx, term, reply):
    """remember a small case (Gallina term, binary's reply); every VM_BATCH cases (first batch only per run) the same
    terms are evaluated by vm_compute inside Coq and must agree with the extracted binary"""
    st = getattr(ctx, "_iff_vm", None)
    if st is None:
        st = {"cases": [], "done": False}
        setattr(ctx, "_iff_vm", st)
    if st["done"]:
        return
    st["cases"].append((term, reply))
    if len(st["cases"]) >= VM_BATCH:
        st["done"] = True
        vm_crosscheck(ctx, st["cases"])
        st["cases"] = []


def vm_crosscheck(ctx, cases):
    pre = ("From Coq Require Import ZArith List. Import ListNotations. "
           "Require Import Base.Py Model.Fam_carrier Model.Fam_iff. Open Scope Z_scope.")
    res, log = common.vm_shard("fam_iff", pre, [c[0] for c in cases])
    if res is None or len(res) != len(cases):
        ctx.disagree("fam.iff.vm_shard", "vm_compute shard failed to run", {"log": str(log)[-300:]})
        return
    for (term, reply), r in zip(cases, res):
        ctx.vm_cases += 1
        r = r.replace("%Z", "")
        m = re.match(r"Ok \[(.*)\]$", r)
        if m:
            got = "ok " + hx(bytes(int(x) for x in m.group(1).split(";") if x.strip()))
        elif r.startswith("Raise "):
            got = "raise " + EXC_COQ.get(r[6:].strip(), r[6:].strip())
        else:
            got = "unparsed " + r[:60]
        want = " ".join(reply.split(" ")[:2])
        if got != want:
            ctx.disagree("fam.iff.vm_shard", "extracted binary and vm_compute differ", {"term": term[:300], "binary": want[:120], "vm": got[:120]})
            return


# ---------------------------------------------------------------------------------- synthetic layouts
def tagclass(fam):
    if fam == "aiff":
        from mutagen.aiff import _IFFID3, delete
        return _IFFID3, delete
    if fam == "wave":
        from mutagen.wave import _WaveID3, delete
        return _WaveID3, delete
    from mutagen.dsdiff import _DSDIFFID3, delete
    return _DSDIFFID3, delete


def make_tag(rng, n):
    """a valid ID3v2.4 tag of total length about n through mutagen's free-standing ID3 class"""
    from mutagen.id3 import ID3, TIT2
    t = ID3()
    t.add(TIT2(encoding=3, text=["Zq" + "v" * rng.choice([0, 1, 2, 30])]))
    b = io.BytesIO()
    t.save(b, padding=lambda info: n)
    return b.getvalue()


def enc_pairs(cs):
    return ",".join("%s/%s" % (hx(i), hx(d)) for i, d in cs) or "-"


def rnd_bytes(rng, n):
    return bytes(rng.randrange(256) for _ in range(n))


def raw_chunk(fam, cid, payload, declared=None, pad=True):
    n = len(payload) if declared is None else declared
    return cid + struct.pack(FMT[fam], n) + payload + (b"\x00" if pad and len(payload) & 1 else b"")


def run_impl(fn, f0):
    b = io.BytesIO(f0)
    try:
        fn(b)
        return b.getvalue(), None
    except mutagen.MutagenError:
        return b.getvalue(), "MutagenError"
    except Exception as e:
        return b.getvalue(), type(e).__name__ if type(e).__name__ != "error" else "struct.error"


def synthetic(ctx, kind, data):
    from mutagen.id3 import ID3, TIT2, TPE1
    from .engine import pad_callback
    fam = kind.family
    rng = ctx.rng
    cls, moddelete = tagclass(fam)
    upper, lower = b"ID3 ", b"id3 "
    for rep in range(3):
        # ---- chunk list
        ids = [b"COMM", b"SSND", b"fmt ", b"data", b"JUNK", b"ab  ", b"x   ", b"LIST", b"PROP", b"DST ", b"FORM", b"FVER"]
        cs = []
        for _ in range(rng.choice([0, 1, 2, 3, 4])):
            cid = rng.choice(ids)
            n = rng.choice([0, 1, 2, 3, 4, 5, 17, 18, 255, 256, 1001])
            pl = rnd_bytes(rng, n)
            if cid in (b"LIST", b"PROP", b"FORM", b"RIFF", b"FRM8"):
                pl = b"INFO" + pl
            cs.append((cid, pl))
        where = rng.choice(["none", "first", "middle", "last", "last", "twice"])
        tagid = upper if fam != "wave" else rng.choice([upper, lower])
        if where != "none":
            t0 = make_tag(rng, rng.choice([0, 1, 2, 7, 100, 1023, 1024, 1025, 2000]))
            pos = {"first": 0, "middle": len(cs) // 2, "last": len(cs), "twice": 0}[where]
            cs.insert(pos, (tagid, t0))
            if where == "twice":
                cs.append((rng.choice([upper, lower]) if fam == "wave" else upper, make_tag(rng, 3)))
        r = ctx.model.call("iff_build", fam, hx(NAME[fam]), enc_pairs(cs))
        if not r.startswith("ok "):
            ctx.disagree("fam.iff", "iff_build failed", dict(data, reply=r[:100]))
            return
        f0 = unhx(r[3:])
        lay = dict(data, runner="fam.iff.layout", layout=[c[0].decode("latin-1") + ":%d" % len(c[1]) for c in cs], where=where)
        # the builder against this module's own renderer
        mine = ROOT[fam] + struct.pack(FMT[fam], 4 + sum(HS[fam] + len(p) + (len(p) & 1) for _, p in cs)) + NAME[fam] + \
            b"".join(raw_chunk(fam, i, p) for i, p in cs)
        if mine != f0:
            ctx.disagree("fam.iff", "iff_build differs from the harness renderer", lay)
            return
        if ctx.model.call("iff_wf", fam, hx(f0)) != "ok 1":
            ctx.disagree("fam.iff", "layout built by iff_build is not iff_wf", lay)
            return
        lenient = None
        if rng.random() < 0.45:
            # ---- lenient variants: correspondence only
            lenient = rng.choice(["root-odd", "root-short", "trunc-last", "blank-id", "small-container", "garbage-tail", "root-lying"])
            hs = HS[fam]
            body = f0[hs + 4:]
            if lenient == "root-odd":
                extra = raw_chunk(fam, b"odd ", b"abc", pad=False)
                n = 4 + len(body) + len(extra)
                f0 = ROOT[fam] + struct.pack(FMT[fam], n) + NAME[fam] + body + extra + b"\x00"
            elif lenient == "root-short":
                f0 = f0 + raw_chunk(fam, b"late", b"12")
            elif lenient == "trunc-last":
                extra = raw_chunk(fam, rng.choice([b"big ", tagid]), b"abcdefg", declared=rng.choice([8, 9, 100, 1001]), pad=False)
                n = 4 + len(body) + len(extra)
                f0 = ROOT[fam] + struct.pack(FMT[fam], n) + NAME[fam] + body + extra
            elif lenient == "blank-id":
                extra = raw_chunk(fam, rng.choice([b"    ", b"\x00\x00\x00\x00", b"ab\xe4 ", b"a\tb "]), b"12") + raw_chunk(fam, b"more", b"3456")
                n = 4 + len(body) + len(extra)
                f0 = ROOT[fam] + struct.pack(FMT[fam], n) + NAME[fam] + body + extra
            elif lenient == "small-container":
                cid = {"aiff": b"FORM", "wave": b"LIST", "dff": b"PROP"}[fam]
                extra = raw_chunk(fam, cid, rng.choice([b"", b"ab", b"abc", b"ab\xe4d", b"ab\xe4dxx"])) + raw_chunk(fam, b"more", b"3456")
                n = 4 + len(body) + len(extra)
                f0 = ROOT[fam] + struct.pack(FMT[fam], n) + NAME[fam] + body + extra
            elif lenient == "garbage-tail":
                f0 = f0 + rnd_bytes(rng, rng.choice([1, 3, 7]))
            elif lenient == "root-lying":
                n = struct.unpack(FMT[fam], f0[4:hs])[0]
                f0 = f0[:4] + struct.pack(FMT[fam], max(4, n - rng.choice([1, 2, 8, 9, 20]))) + f0[hs:]
            lay["lenient"] = lenient
        ctx.count("iff:layout" + (":lenient" if lenient else ""))
        # ---- operations through mutagen's tag class
        try:
            o = cls(io.BytesIO(f0))
            loaded = True
        except mutagen.MutagenError:
            o = cls()
            loaded = False
        except Exception as e:
            ctx.count("iff:layout-load-" + type(e).__name__)
            continue
        if not lenient and where != "none" and not loaded:
            ctx.disagree("fam.iff", "mutagen finds no tag in a layout the model calls well-formed", lay)
        cur = f0
        for step in range(rng.choice([1, 2, 3])):
            opn = rng.choice(["save", "save", "save", "delete", "moddelete"])
            d2 = dict(lay, step=step, sop=opn, cur_len=len(cur), cur_hex=cur.hex() if len(cur) < 600 else None)
            if opn == "save":
                o.add(rng.choice([TIT2, TPE1])(encoding=3, text=["Zq9" + "w" * rng.choice([0, 1, 2, 3, 500, 1500])]))
                mode = rng.choice(["default", "zero", "one", "odd", "keep", "none"])
                log = []
                kw = {} if mode == "none" else {"padding": pad_callback(mode, log)}
                ref = io.BytesIO()
                ID3.save(o, ref, padding=lambda info: 0)          # carrier-independent rendering of the frames
                fd = ref.getvalue()[10:]
                after, exc = run_impl(lambda b: o.save(b, **kw), cur)
                d2["mode"] = mode
                reply = ctx.model.call("iff_save_cb", fam, hx(cur), hx(fd), zs(4), MODES[mode])
                ctx.corr_cases += 1
                if len(cur) + len(fd) < 900:
                    vm_note(ctx, "iff_save_cb %s %s %s 4 %s" % (COQ_FL[fam], coq_bytes(cur), coq_bytes(fd), coq_cb(MODES[mode])), reply)
                parts = compare_bytes(ctx, "layout save", reply, after, exc, d2)
                if parts and log and len(parts) >= 4 and parts[2] != "-":
                    if (zp(parts[2]), zp(parts[3])) != tuple(log[0][:2]):
                        ctx.disagree("fam.iff", "layout save: padding callback received different (info.padding, info.size)",
                                     dict(d2, model=[zp(parts[2]), zp(parts[3])], impl=list(log[0][:2])))
                if exc is None and not lenient:
                    tag = tag_payload(fam, after)
                    check_after(ctx, fam, "layout save", cur, after, tag if tag is not None else "skip", d2)
            elif opn == "delete":
                after, exc = run_impl(lambda b: o.delete(b), cur)
                ctx.corr_cases += 1
                reply = ctx.model.call("iff_delete", fam, hx(cur))
                if len(cur) < 900:
                    vm_note(ctx, "iff_delete %s %s" % (COQ_FL[fam], coq_bytes(cur)), reply)
                compare_bytes(ctx, "layout delete", reply, after, exc, d2)
                if exc is None and not lenient:
                    check_after(ctx, fam, "layout delete", cur, after, None, d2)
            else:
                after, exc = run_impl(lambda b: moddelete(b), cur)
                ctx.corr_cases += 1
                compare_bytes(ctx, "layout module delete", ctx.model.call("iff_delete", fam, hx(cur)), after, exc, d2)
                if exc is None and not lenient:
                    check_after(ctx, fam, "layout module delete", cur, after, None, d2)
            if exc is not None:
                ctx.count("iff:layout-exc-" + str(exc))
                break
            if not lenient and ctx.model.call("iff_wf", fam, hx(after)) != "ok 1":
                break          # reported above; do not continue a history on a file the implementation corrupted
            cur = after
