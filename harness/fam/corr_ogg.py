"""Correspondence of the Ogg family model (coq/model/Fam_ogg.v, extracted) with mutagen.ogg + the five codec modules.

For every step of every history of the shared engine on the kinds OggVorbis / OggOpus / OggSpeex / OggTheora / OggFLAC
the module keeps a *shadow* of what the live mutagen object holds besides the tags that are set (the vendor string and,
for Opus, the preserved tail `_pad_data`, both as the model's ogg_open reads them from the file the object was loaded
from) and
  * save / fresh : model ogg_save_obj(before, codec, vendor + (key, value) pairs actually saved, shadow tail, padding
                   callback of the mode) must equal st.after byte for byte (same exception class otherwise); the
                   (info.padding, info.size) pair handed to the callback must be what the model's callback saw;
                   through a freshly loaded object also ogg_save(before, ...) (the function of the theorems);
  * delete       : ogg_delete_obj(before, codec, vendor, tail) == st.after;   moddelete: ogg_delete(before, codec);
  * afterwards   : the model's strict walker accepts st.after (ogg_wf: every page is the canonical rendering with a
                   correct checksum; per stream gapless numbers, coherent continuation, first/last flags in place,
                   granule -1 on pages finishing no packet) and its independent reader ogg_load(st.after) returns
                   exactly the vendor + comments that were set and the padding the callback returned (0 after delete).
Files longer than LIMIT bytes are not run through the model (counted as ogg:skip-large); every file is parsed once
per step (results are cached by content).
On `fresh` steps additional scenarios exercise layouts the samples do not have: an Opus comment packet with a tail to be
preserved (built by the model's ogg_set_packet) and a foreign logical stream multiplexed between the pages of the
sample (built here from raw pages + an independent page writer), and layouts of other writers (synth_ogg: libogg-style
paging with the comment packet complete inside a page that ends in the unfinished setup header, comment packets on pages
of their own ending on / next to a page boundary, OpusTags packets with opaque data or non-zero padding behind the comment
list, FLAC-in-Ogg with the comment as last metadata block or with blocks behind it).  The same layouts are run once per
run for every Ogg kind (layout_crosscheck), where the model's independent reader is also compared with the Python walker."""
import io, re, struct, zlib
import mutagen
from common import hx, unhx, zs, zp, coq_bytes, vm_shard
from . import walkers as W

KINDS = {"OggVorbis", "OggOpus", "OggSpeex", "OggTheora", "OggFLAC"}
LIMIT = 150_000
MODES = {"default": "default", "none": "none", "zero": "c0", "one": "c1", "odd": "c" + zs(777),
         "large": "c" + zs(50000), "keep": "keep"}
RET = {"zero": 0, "one": 1, "odd": 777, "large": 50000}


class _S:
    prev_w = None        # identity of the walker result after the previous step (continuation test)
    obj = None           # None: no live object; "?": live object with unknown shadow; else (vendor bytes, tail bytes)
    vm_done = False
    cache = {}           # content hash -> reply of ogg_check


def enc_comments(cs):
    return ",".join("%s=%s" % (hx(k), hx(v)) for k, v in cs) or "-"


def exc_name(st_exc):
    if st_exc is None:
        return None
    return "MutagenError" if st_exc[0] == "MutagenError" else st_exc[1]


def norm_vendor(v):
    """what VComment.load keeps of the vendor bytes and write() renders again"""
    return v.decode("utf-8", "replace").encode("utf-8")


def model_open(ctx, data, codec):
    """-> ((vendor, tail), None) or (None, exception name)"""
    r = ctx.model.call("ogg_open", hx(data), codec)
    if r.startswith("ok "):
        _, v, pad = r.split(" ")
        return (unhx(v), unhx(pad)), None
    return None, r[6:] if r.startswith("raise ") else r


def model_check(ctx, data, codec):
    """reply of ogg_check, cached by content: 'ok <wf> | ok <vendor> <comments> <padding>' / '... | raise X'"""
    key = (codec, len(data), zlib.crc32(data), data[:64], data[-64:])
    r = _S.cache.get(key)
    if r is None:
        if len(_S.cache) > 64:
            _S.cache.clear()
        r = ctx.model.call("ogg_check", hx(data), codec)
        _S.cache[key] = r
    return r


def compare_bytes(ctx, what, model_reply, after, exc, data):
    """model_reply: 'ok x.. [p s]' or 'raise Name'"""
    want_exc = exc_name(exc)
    if model_reply.startswith("raise "):
        got = model_reply[6:]
        if want_exc is None:
            ctx.disagree("fam.ogg", "%s: model raises %s, mutagen succeeds" % (what, got), data)
        elif got != want_exc:
            ctx.disagree("fam.ogg", "%s: model raises %s, mutagen raises %s" % (what, got, want_exc), data)
        return None
    if not model_reply.startswith("ok "):
        ctx.disagree("fam.ogg", "%s: model error" % what, dict(data, reply=model_reply[:200]))
        return None
    if want_exc is not None:
        ctx.disagree("fam.ogg", "%s: mutagen raises %s, model succeeds" % (what, want_exc), data)
        return None
    parts = model_reply.split(" ")
    out = unhx(parts[1])
    if out != after:
        k = next((i for i in range(min(len(out), len(after))) if out[i] != after[i]), min(len(out), len(after)))
        ctx.disagree("fam.ogg", "%s: file bytes differ" % what,
                     dict(data, model_len=len(out), impl_len=len(after), first_diff=k,
                          model_at=out[max(0, k - 4):k + 12].hex(), impl_at=after[max(0, k - 4):k + 12].hex()))
    return parts


def check_after(ctx, what, after, codec, expect_tags, expect_pad, data):
    """strict walker + independent reader of the bytes mutagen wrote.
    expect_tags: (vendor, comments) | None (not compared); expect_pad: int | None (not compared)"""
    if len(after) > LIMIT:
        ctx.count("ogg:skip-large")
        return
    r = model_check(ctx, after, codec)
    m = re.match(r"ok (\d) \| (.*)$", r)
    if not m:
        ctx.disagree("fam.ogg", "%s: model error in ogg_check" % what, dict(data, reply=r[:200]))
        return
    if m.group(1) != "1":
        ctx.disagree("fam.ogg", "%s: file written by mutagen is not well-formed for the model (ogg_wf)" % what, dict(data, reply=r[:80]))
    load = m.group(2)
    if expect_tags is not None:
        if not load.startswith("ok "):
            ctx.disagree("fam.ogg", "%s: independent reader (ogg_load) fails on the saved file" % what, dict(data, reply=load[:200]))
            return
        _, v, cs, pad = load.split(" ")
        want = "%s %s" % (hx(expect_tags[0]), enc_comments(expect_tags[1]))
        if "%s %s" % (v, cs) != want:
            ctx.disagree("fam.ogg", "%s: independent reader (ogg_load) does not return the tags that were saved" % what,
                         dict(data, reply=load[:300], want=want[:300]))
        if expect_pad is not None and zp(pad) != -1 and zp(pad) != expect_pad:
            ctx.disagree("fam.ogg", "%s: padding found behind the comment differs from what was requested" % what,
                         dict(data, measured=zp(pad), requested=expect_pad))


def check_step(ctx, kind, st):
    S = _S
    codec = kind.codec
    if not S.vm_done:
        S.vm_done = True
        vm_crosscheck(ctx)
        import time
        t0 = time.time()
        layout_crosscheck(ctx)
        ctx.hist["ogg:layout-crosscheck-seconds"] = round(time.time() - t0, 1)
    if st.wbefore is not S.prev_w or S.prev_w is None:
        S.obj = None          # a new history starts with a new Runner
    S.prev_w = st.wafter
    data = {"kind": kind.name, "op": st.brief(), "before_len": len(st.before), "before_head": st.before[:64].hex()}
    big = len(st.before) > LIMIT
    op = st.op
    opened = False
    # ---- the engine (re)opens the file before any operation when it holds no object
    if S.obj is None or op in ("fresh", "reload"):
        if big:
            ctx.count("ogg:skip-large")
            S.obj = "?"
        else:
            sh, err = model_open(ctx, st.before, codec)
            ctx.corr_cases += 1
            if sh is None:
                if st.exc is None or exc_name(st.exc) != err:
                    ctx.disagree("fam.ogg", "open: model %s, mutagen %s" % (err, exc_name(st.exc)), data)
                S.obj = None
                return
            S.obj = (norm_vendor(sh[0]), sh[1], sh[0])
            opened = True
    if st.exc is not None and S.obj != "?" and op in ("set", "clear", "reload"):
        ctx.disagree("fam.ogg", "%s raised %s although the model loads the file" % (op, exc_name(st.exc)), data)
    if S.obj == "?":
        if st.exc is not None or op == "moddelete":
            S.obj = None
        if op in ("save", "fresh") and st.exc is None:
            check_after(ctx, op, st.after, codec, None, None, data)
        return
    vendor, tail, raw_vendor = S.obj
    if op in ("save", "fresh"):
        if big:
            ctx.count("ogg:skip-large")
        else:
            mode = MODES[st.arg if op == "save" else "none"]
            comments = list(st.exp_indep) if st.exp_indep is not None else []
            reply = ctx.model.call("ogg_save_obj", hx(st.before), codec, hx(vendor), enc_comments(comments), hx(tail), mode)
            ctx.corr_cases += 1
            parts = compare_bytes(ctx, "save", reply, st.after, st.exc, data)
            if parts and st.cb and len(parts) >= 4 and parts[2] != "-":
                p_in, size_in, _ = st.cb[0]
                if (zp(parts[2]), zp(parts[3])) != (p_in, size_in):
                    ctx.disagree("fam.ogg", "save: padding callback received different (info.padding, info.size)",
                                 dict(data, model=[zp(parts[2]), zp(parts[3])], impl=[p_in, size_in]))
            if parts and bool(st.cb) != (len(parts) >= 4 and parts[2] != "-") and mode != "none":
                ctx.disagree("fam.ogg", "save: padding callback called by only one of model and mutagen", dict(data, impl_calls=len(st.cb)))
            if opened and raw_vendor == vendor and parts:
                # the function the theorems are about: save through a freshly loaded object
                r2 = ctx.model.call("ogg_save", hx(st.before), codec, hx(vendor), enc_comments(comments), mode)
                if r2.split(" ")[:2] != parts[:2]:
                    ctx.disagree("fam.ogg", "save: ogg_save differs from ogg_save_obj on a freshly loaded object", data)
            if st.exc is None:
                want_pad = None
                if st.cb:
                    want_pad = max(st.cb[0][2], 0)
                check_after(ctx, "save", st.after, codec, (vendor, comments), want_pad, data)
                ctx.count("ogg:save-compared")
            if op == "fresh" and st.exc is None:
                extra_layouts(ctx, kind, st, data)
    elif op == "delete":
        if big:
            ctx.count("ogg:skip-large")
        else:
            reply = ctx.model.call("ogg_delete_obj", hx(st.before), codec, hx(vendor), hx(tail))
            ctx.corr_cases += 1
            compare_bytes(ctx, "delete", reply, st.after, st.exc, data)
            if st.exc is None:
                check_after(ctx, "delete", st.after, codec, (vendor, []), 0, data)
                ctx.count("ogg:delete-compared")
    elif op == "moddelete":
        if big:
            ctx.count("ogg:skip-large")
        else:
            reply = ctx.model.call("ogg_delete", hx(st.before), codec)
            ctx.corr_cases += 1
            compare_bytes(ctx, "module delete", reply, st.after, st.exc, data)
            if st.exc is None:
                sh, _ = model_open(ctx, st.before, codec)
                check_after(ctx, "module delete", st.after, codec, (norm_vendor(sh[0]), []) if sh else None, 0, data)
                ctx.count("ogg:moddelete-compared")
        S.obj = None
    if st.exc is not None:
        S.obj = None


# ---------------------------------------------------------------------------------- synthetic layouts
def mk_page(serial, seq, flags, pos, packets, complete=True):
    """independent page writer (RFC 3533): lacing 255*q + r per packet, the final terminator dropped when the last
    packet continues on the next page; checksum by walkers.ogg_crc"""
    lac = b""
    for i, pk in enumerate(packets):
        q, r = divmod(len(pk), 255)
        lac += b"\xff" * q
        if complete or i < len(packets) - 1:
            lac += bytes([r])
        else:
            assert r == 0 and q > 0
    assert len(lac) <= 255
    head = b"OggS" + struct.pack("<BBqIII", 0, flags, pos, serial, seq, 0) + bytes([len(lac)]) + lac
    raw = head + b"".join(packets)
    return raw[:22] + struct.pack("<I", W.ogg_crc(raw)) + raw[26:]


# Regression bait for a defect fixed in /repo (oggvorbis.py / oggtheora.py `_inject` used to find the comment page by
# content only -- first page whose first packet starts with b"\x03vorbis" / b"\x81theora" in ANY stream; now restricted to
# the stream of the identification header, as load is): the synthetic foreign stream carries a page starting with
# b"\x03vorbis"; were the search unrestricted again, the multiplexed layouts would report overwritten foreign data (C02) and
# tags not saved where load reads them (C01).  Coq: C01_ogg_ex_foreign_marker_regression, C02_ogg_ex_foreign_marker_regression.
BAIT = True


def foreign_stream(rng, serial, codec=None):
    """a small logical stream of an unknown codec: BOS page, a packet spanning two pages, EOS page"""
    pages = [mk_page(serial, 0, 2, 0, [b"fishead\x00" + bytes(rng.randrange(256) for _ in range(rng.choice([0, 5, 56])))])]
    seq = 1
    if BAIT or rng.random() < 0.7:
        marker = ((b"\x81theora-not" if codec == "theora" else b"\x03vorbis-not") if BAIT else b"\x04vorbis-not") * 3
        pages.append(mk_page(serial, seq, 0, -1, [marker + bytes(255 * 2 - 33)], complete=False)); seq += 1
        pages.append(mk_page(serial, seq, 1, 77, [bytes(range(40)), b"", b"OpusTags?"])); seq += 1
    for _ in range(rng.choice([0, 1, 3])):
        pages.append(mk_page(serial, seq, 0, 100 + seq, [bytes(rng.randrange(256) for _ in range(rng.choice([1, 254, 255, 256, 600])))])); seq += 1
    pages.append(mk_page(serial, seq, 4, 200, [b"end"]))
    return pages


def multiplex(rng, d, codec=None):
    """the pages of d with the pages of a foreign stream slipped in between (both orders kept)"""
    pgs = [pg["raw"] for pg in W.ogg_pages(d)]
    serials = {pg["serial"] for pg in W.ogg_pages(d)}
    s = rng.choice([1, 7, 0xFFFFFFFF, 0x12345678])
    while s in serials:
        s += 1
    fs = foreign_stream(rng, s, codec)
    out, i = [], 0
    # positions biased towards the header pages
    slots = sorted(rng.choice([1, 1, 2, 2, 3, 4, min(6, len(pgs)), len(pgs)]) for _ in fs)
    slots = [min(x, len(pgs)) for x in slots]
    if BAIT and len(slots) >= 2 and rng.random() < 0.7:
        slots[0] = slots[1] = min(1, len(pgs))      # the bait page right behind the identification header page
    for j, pg in enumerate(pgs):
        while i < len(fs) and slots[i] == j:
            out.append(fs[i]); i += 1
        out.append(pg)
    out += fs[i:]
    return b"".join(out), s


def run_layout(ctx, kind, f0, d2, what, sizes=(0, 1, 200, 3000, 70000)):
    """set a tag through mutagen on the layout f0, save with a random padding mode, delete; compare with the model"""
    from .engine import pad_callback
    codec = kind.codec
    rng = ctx.rng
    if ctx.model.call("ogg_wf", hx(f0)) != "ok 1":
        ctx.disagree("fam.ogg", "%s: layout is not ogg_wf" % what, d2)
        return
    try:
        wl = W.ogg(f0, codec)
    except W.Bad as e:
        ctx.disagree("fam.ogg", "%s: layout rejected by the independent walker: %s" % (what, str(e)[:60]), d2)
        return
    # the two independent readers (the model's ogg_load, the Python walker) read the same comment and padding
    m = re.match(r"ok 1 \| ok (\S+) (\S+) (\S+)$", model_check(ctx, f0, codec))
    if not m or wl["tags"] is None:
        ctx.disagree("fam.ogg", "%s: the model's independent reader does not read the layout" % what, d2)
    else:
        mine = "%s %s" % (hx(wl["tags"]["vendor"]), enc_comments(wl["tags"]["items"]))
        if "%s %s" % (m.group(1), m.group(2)) != mine or zp(m.group(3)) != (-1 if wl["padding"] is None else wl["padding"]):
            ctx.disagree("fam.ogg", "%s: the model's independent reader and the Python walker read different tags/padding" % what,
                         dict(d2, model=m.group(0)[:200], walker_padding=wl["padding"]))
    try:
        o = kind.cls(io.BytesIO(f0))
    except Exception as e:
        ctx.disagree("fam.ogg", "%s: mutagen cannot load a layout the model calls well-formed: %s" % (what, type(e).__name__), d2)
        return
    sh, err = model_open(ctx, f0, codec)
    if sh is None:
        ctx.disagree("fam.ogg", "%s: model cannot open a layout mutagen loads: %s" % (what, err), d2)
        return
    vendor = norm_vendor(sh[0])
    ctx.count("ogg:layout")
    mode_name = rng.choice(["default", "zero", "one", "odd", "large", "keep", "none"]) if kind.padding else "none"
    o.tags["title"] = ["Zq" + "ä" * rng.choice(list(sizes))]
    if rng.random() < 0.3:
        o.tags["x y"] = ["", "=="]
    comments = [(k.encode("ascii"), v.encode("utf-8")) for k, v in list(o.tags)]
    log = []
    b = io.BytesIO(f0)
    exc = None
    try:
        if mode_name == "none":
            o.save(b)
        else:
            o.save(b, padding=pad_callback(mode_name, log))
    except mutagen.MutagenError as e:
        exc = ("MutagenError", type(e).__name__)
    except Exception as e:
        exc = ("OTHER", type(e).__name__)
    f1 = b.getvalue()
    reply = ctx.model.call("ogg_save", hx(f0), codec, hx(vendor), enc_comments(comments), MODES[mode_name])
    ctx.corr_cases += 1
    d3 = dict(d2, mode=mode_name, title_len=len(comments[0][1]) if comments else 0)
    parts = compare_bytes(ctx, "%s save" % what, reply, f1, exc, d3)
    if parts and log and parts[2] != "-" and (zp(parts[2]), zp(parts[3])) != (log[0][0], log[0][1]):
        ctx.disagree("fam.ogg", "%s save: padding callback received different (info.padding, info.size)" % what,
                     dict(d3, model=[zp(parts[2]), zp(parts[3])], impl=list(log[0][:2])))
    if parts and bool(log) != (parts[2] != "-") and mode_name != "none":
        ctx.disagree("fam.ogg", "%s save: padding callback called by only one of model and mutagen" % what, dict(d3, impl_calls=len(log)))
    if exc is not None:
        return
    check_after(ctx, "%s save" % what, f1, codec, (vendor, comments), max(log[0][2], 0) if log else None, d3)
    # C02 through the independent walker: foreign streams and the other packets of the edited stream
    try:
        w0, w1 = W.ogg(f0, codec), W.ogg(f1, codec)
        if w0["foreign"] != w1["foreign"]:
            lab = next((a[0] for a, c in zip(w0["foreign"], w1["foreign"]) if a != c), "?")
            ctx.disagree("fam.ogg", "%s save: foreign data changed (independent walker)" % what, dict(d3, element=lab))
    except W.Bad as e:
        ctx.disagree("fam.ogg", "%s save: result rejected by the independent walker: %s" % (what, str(e)[:60]), d3)
    # delete through the same object
    b = io.BytesIO(f1)
    exc2 = None
    try:
        o.delete(b)
    except mutagen.MutagenError as e:
        exc2 = ("MutagenError", type(e).__name__)
    except Exception as e:
        exc2 = ("OTHER", type(e).__name__)
    f2 = b.getvalue()
    reply = ctx.model.call("ogg_delete", hx(f1), codec)
    ctx.corr_cases += 1
    compare_bytes(ctx, "%s delete" % what, reply, f2, exc2, d3)
    if exc2 is None:
        check_after(ctx, "%s delete" % what, f2, codec, (vendor, []), 0, d3)


def extra_layouts(ctx, kind, st, data):
    rng = ctx.rng
    codec = kind.codec
    f = st.after
    if len(f) > 100_000:
        return
    # (1) a foreign logical stream multiplexed between the pages
    if rng.random() < 0.7:
        try:
            f0, s = multiplex(rng, f, codec)
        except W.Bad:
            return
        run_layout(ctx, kind, f0, dict(data, runner="fam.ogg.layout", layout="multiplexed", foreign_serial=s), "multiplexed layout")
    # (2) Opus: a comment packet with a tail that has to be preserved (LSB of the byte behind the comment set)
    if codec == "opus" and rng.random() < 0.8:
        sh, _ = model_open(ctx, f, codec)
        if sh is None:
            return
        v = sh[0]
        body = b"OpusTags" + struct.pack("<I", len(v)) + v + struct.pack("<I", 1) + struct.pack("<I", 7) + b"title=x"
        tail = bytes([rng.choice([1, 3, 0xFF])]) + bytes(rng.randrange(256) for _ in range(rng.choice([0, 1, 9, 300])))
        r = ctx.model.call("ogg_set_packet", hx(f), codec, hx(body + tail))
        if not r.startswith("ok "):
            ctx.disagree("fam.ogg", "ogg_set_packet failed", dict(data, reply=r[:100]))
            return
        run_layout(ctx, kind, unhx(r[3:]), dict(data, runner="fam.ogg.layout", layout="opus-tail", tail_len=len(tail)), "opus tail layout")
    # (4) layouts of other writers built on this file's identification packet
    if rng.random() < 0.5:
        from . import synth_ogg as SO
        try:
            ident = SO.ident_packet(f, codec)
            desc, f0 = foreign_layout(rng, kind, ident) if ident else (None, None)
        except (W.Bad, AssertionError):
            desc = None
        if desc:
            run_layout(ctx, kind, f0, dict(data, runner="fam.ogg.layout", layout="foreign-writer", **desc), "foreign-writer layout (%s)" % desc["shape"])
    # (3) comment packets of awkward sizes around the lacing / page limits, zero padding in place
    if codec != "flac" and rng.random() < 0.5:
        sh, _ = model_open(ctx, f, codec)
        if sh is None:
            return
        v = sh[0]
        prefix = {"vorbis": b"\x03vorbis", "opus": b"OpusTags", "speex": b"", "theora": b"\x81theora"}[codec]
        body = prefix + struct.pack("<I", len(v)) + v + struct.pack("<I", 0) + (b"\x01" if codec == "vorbis" else b"")
        total = rng.choice([255, 256, 509, 510, 4080, 4095, 4096, 4335, 6100, 65025])
        body += bytes(max(0, total - len(body)))
        r = ctx.model.call("ogg_set_packet", hx(f), codec, hx(body))
        if not r.startswith("ok "):
            ctx.disagree("fam.ogg", "ogg_set_packet failed", dict(data, reply=r[:100]))
            return
        run_layout(ctx, kind, unhx(r[3:]), dict(data, runner="fam.ogg.layout", layout="padded-%d" % total), "padded layout")


# ---------------------------------------------------------------------------------- layouts of other writers
def foreign_layout(rng, kind, ident):
    """one layout of synth_ogg (own page writer) with random parameters: libogg-style paging (comment packet complete inside a
    page that ends in the unfinished next header packet), a comment packet on pages of its own ending on or next to a page
    boundary, Opus data behind the comment list (opaque / non-zero padding), FLAC-in-Ogg with the comment as the last block
    or with blocks behind it.  -> (description, bytes)"""
    from . import synth_ogg as SO
    c = kind.codec
    vendor = rng.choice([b"", b"v", SO.VENDOR, b"x" * 239, b"y" * 240])
    items = list(SO.ITEMS[:rng.choice([0, 1, 3])])
    if c == "flac":
        behind = rng.choice([[], [(1, bytes(rng.choice([0, 1, 300])))], [(2, b"aPpL" + SO.pattern(40)), (1, bytes(64))],
                             [(3, SO.pattern(18)), (2, b"last")]])
        multi = rng.random() < 0.4
        if multi:
            items.append(b"COVERART=" + b"QUJD" * rng.choice([1100, 1650]))
        mux = rng.random() < 0.4
        return dict(shape="oggflac", behind=[t for t, _ in behind], multipage=multi, vendor_len=len(vendor), foreign_stream=mux), \
            SO.oggflac(ident, vendor, items, behind=behind, comment_pages=multi, foreign=mux)
    if c == "opus" and rng.random() < 0.7:
        b0 = rng.choice([1, 3, 0x81, 0xFF, 0, 2, 0x20, rng.randrange(256)])
        trailer = bytes([b0]) + rng.choice([b"", b"\x00", SO.OPAQUE, SO.STALE[1:], b" " * 95])
        return dict(shape="opus-trailer", first_byte=b0, trailer_len=len(trailer), vendor_len=len(vendor)), SO.opus_file(ident, trailer, vendor, items)
    minimal = len(SO.comment_packet(c, vendor, items))
    if c in SO.SETUP and rng.random() < 0.5:
        total = max(minimal, rng.choice([0, 255, 600, 4080, 5000, 7000, 9001]))
        part = rng.choice([255, 3060])
        return dict(shape="shared-page", comment_len=total, setup_part=part, vendor_len=len(vendor)), \
            SO.headers_shared_page(c, ident, SO.comment_packet(c, vendor, items, total), first_part=part)
    size = rng.choice([255, 1020, 4080])
    total = max(minimal, rng.choice([size, size + 1, 2 * size - 1, 2 * size, 2 * size + 255, 3 * size, 3 * size + 7]))
    mux = rng.random() < 0.4        # a second logical stream with one page between every two pages of the comment packet
    return dict(shape="own-pages", comment_len=total, page_payload=size, vendor_len=len(vendor), foreign_stream=mux), \
        SO.headers_own_pages(c, ident, SO.comment_packet(c, vendor, items, total), page_size=size, foreign=mux)


def layout_crosscheck(ctx):
    """once per run: save + delete on layouts of other writers (synth_ogg) for every Ogg kind, mutagen against the model"""
    from . import synth_ogg as SO
    from .kinds import KINDS as ALL
    import os
    from .kinds import DATA, SAMPLES
    n = 2 if not ctx.thorough else 12
    for kname in sorted(KINDS):
        kind = ALL[kname]
        pth = os.path.join(DATA, SAMPLES[kname][0])
        if not os.path.exists(pth):
            continue
        ident = SO.ident_packet(open(pth, "rb").read(), kind.codec)
        if ident is None:
            continue
        fixed = [({"shape": nm.split("+")[0]}, d) for nm, d in SO.layouts(kind, [(SAMPLES[kname][0], open(pth, "rb").read())])]
        if not ctx.thorough:
            fixed = fixed[:1] if ctx.rng.random() < 0.5 else fixed[-1:]
        for desc, f0 in fixed + [foreign_layout(ctx.rng, kind, ident) for _ in range(n)]:
            ctx.count("ogg:layout-crosscheck")
            run_layout(ctx, kind, f0, dict(desc, kind=kname, runner="fam.ogg.layout", layout="foreign-writer"),
                       "foreign-writer layout (%s)" % desc["shape"], sizes=(0, 1, 200, 3000))


# ---------------------------------------------------------------------------------- vm_compute cross-check
CODECS = {"vorbis": "OVorbis", "opus": "OOpus", "speex": "OSpeex", "theora": "OTheora", "flac": "OFlac"}


def tiny_file(rng, codec, second_stream):
    """a few dozen bytes of well-formed Ogg for each codec (identification packets just long enough)"""
    idp = {"vorbis": b"\x01vorbis" + bytes(23), "opus": b"OpusHead" + bytes([1, 2, 0, 0, 0, 0, 0, 0, 0, 0, 0]),
           "speex": b"Speex   " + bytes(8), "theora": b"\x80theora" + bytes(4), "flac": b"\x7fFLAC" + bytes(4)}[codec]
    v = b"v" * rng.choice([0, 2])
    vc = struct.pack("<I", len(v)) + v + struct.pack("<I", 1) + struct.pack("<I", 3) + b"a=b"
    pad = bytes(rng.choice([0, 3, 9]))
    com = {"vorbis": b"\x03vorbis" + vc + b"\x01" + pad, "opus": b"OpusTags" + vc + (pad if rng.random() < 0.6 else b"\x01zz"),
           "speex": vc + pad, "theora": b"\x81theora" + vc + pad, "flac": b"\x04" + len(vc).to_bytes(3, "big") + vc}[codec]
    ser = 5
    pages = [mk_page(ser, 0, 2, 0, [idp])]
    if rng.random() < 0.5:
        pages.append(mk_page(ser, 1, 0, 0, [com, b"setup"]))
    else:
        pages.append(mk_page(ser, 1, 0, 0, [com]))
    pages.append(mk_page(ser, 2, 4, 9, [b"au"]))
    if second_stream:
        pages.insert(rng.choice([1, 2]), mk_page(9, 0, 2, 0, [b"other"]))
        pages.append(mk_page(9, 1, 4, 1, [b"x"]))
    return b"".join(pages)


def vm_crosscheck(ctx):
    """the extracted binary and Coq's own evaluator must agree on ogg_save / ogg_delete / ogg_wf / ogg_load for tiny
    synthetic files (once per run)"""
    rng = ctx.rng
    cases, keys = [], []
    for i in range(10):
        codec = ["vorbis", "opus", "speex", "theora", "flac"][i % 5]
        f0 = tiny_file(rng, codec, i >= 5)
        if i == 9:
            f0 = f0[:-1] + bytes([f0[-1] ^ 1])      # broken checksum on the last page
        vendor = b"m"
        comments = [(b"title", "ä=".encode("utf-8") + b"x" * rng.choice([0, 1, 30]))] + ([(b"a b", b"")] if rng.random() < 0.5 else [])
        mode, cb = rng.choice([("none", "None"), ("default", "(Some cb_default)"), ("keep", "(Some cb_keep)"),
                               ("c0", "(Some (cb_const 0))"), ("c" + zs(7), "(Some (cb_const 7))")])
        F, C = coq_bytes(f0), CODECS[codec]
        t = "(mkVC %s [%s])" % (coq_bytes(vendor), "; ".join("(%s, %s)" % (coq_bytes(k), coq_bytes(x)) for k, x in comments))
        cases.append("match ogg_save %s %s %s %s with Ok d => (0, d) | Raise _ => (1, []) end" % (F, C, t, cb))
        keys.append(("save", f0, codec, vendor, comments, mode))
        cases.append("match ogg_delete %s %s with Ok d => (0, d) | Raise _ => (1, []) end" % (F, C))
        keys.append(("delete", f0, codec))
        cases.append("ogg_wf %s" % F)
        keys.append(("wf", f0, codec))
        cases.append("match ogg_load %s %s with Ok (t, p) => (0, vendor t ++ concat (map (fun kv => fst kv ++ snd kv) (comments t)) ++ [p]) | Raise _ => (1, []) end" % (F, C))
        keys.append(("load", f0, codec))
    pre = ("From Coq Require Import ZArith List. Import ListNotations. "
           "Require Import Base.Py Model.Ogg Model.Fam_flac Model.Fam_ogg. Open Scope Z_scope.")
    res, log = vm_shard("fam_ogg", pre, cases)
    if res is None or len(res) != len(cases):
        ctx.disagree("fam.ogg.vm_shard", "vm_compute shard failed to run", {"log": str(log)[-300:]})
        return
    for key, r in zip(keys, res):
        ctx.vm_cases += 1
        r = r.replace("%Z", "")
        f0, codec = key[1], key[2]
        if key[0] == "wf":
            want = ctx.model.call("ogg_wf", hx(f0))
            if want != ("ok 1" if r == "true" else "ok 0"):
                ctx.disagree("fam.ogg.vm_shard", "ogg_wf: extracted %s, vm_compute %s" % (want, r), {"file": f0.hex()})
            continue
        m = re.match(r"\((\d), \[([^\]]*)\]\)", r)
        if not m:
            ctx.disagree("fam.ogg.vm_shard", "unparsable vm_compute result", {"result": r[:200]})
            continue
        vals = [int(x) for x in m.group(2).split(";") if x.strip()]
        if key[0] == "load":
            rm = ctx.model.call("ogg_load", hx(f0), codec)
            if m.group(1) == "1":
                ok = rm.startswith("raise")
            else:
                ok = False
                if rm.startswith("ok "):
                    _, v, cs, pad = rm.split(" ")
                    flat = unhx(v) + b"".join(unhx(a) + unhx(b) for a, b in (kv.split("=") for kv in cs.split(",") if cs != "-"))
                    ok = list(flat) + [zp(pad)] == vals
        else:
            if key[0] == "save":
                rm = ctx.model.call("ogg_save", hx(f0), codec, hx(key[3]), enc_comments(key[4]), key[5])
            else:
                rm = ctx.model.call("ogg_delete", hx(f0), codec)
            if m.group(1) == "1":
                ok = rm.startswith("raise")
            else:
                ok = rm.startswith("ok ") and list(unhx(rm.split(" ")[1])) == vals
        if not ok:
            ctx.disagree("fam.ogg.vm_shard", "%s: extracted binary and vm_compute differ" % key[0],
                         {"file": f0.hex(), "codec": codec, "binary": rm[:120], "vm": r[:120]})
