"""Registry of taggable kinds: class, container family, samples, tag-value generators and canonical
forms (in memory, reloaded, and under the independent decoders of walkers.py)."""
import io, os, glob, struct, importlib, warnings
from . import walkers as W

warnings.simplefilter("ignore")
REPO = os.environ.get("VERIF_REPO", "/repo")
DATA = os.path.join(REPO, "tests", "data")

#        kind          module.class                  family  codec     style  padding
_K = [
    ("FLAC",         "mutagen.flac.FLAC",              "flac", None,     "vc",  True),
    ("OggVorbis",    "mutagen.oggvorbis.OggVorbis",    "ogg",  "vorbis", "vc",  True),
    ("OggOpus",      "mutagen.oggopus.OggOpus",        "ogg",  "opus",   "vc",  True),
    ("OggSpeex",     "mutagen.oggspeex.OggSpeex",      "ogg",  "speex",  "vc",  True),
    ("OggTheora",    "mutagen.oggtheora.OggTheora",    "ogg",  "theora", "vc",  True),
    ("OggFLAC",      "mutagen.oggflac.OggFLAC",        "ogg",  "flac",   "vc",  False),
    ("MP3",          "mutagen.mp3.MP3",                "id3",  None,     "id3", True),
    ("TrueAudio",    "mutagen.trueaudio.TrueAudio",    "id3",  None,     "id3", True),
    ("ID3",          "mutagen.id3.ID3",                "id3",  None,     "id3", True),
    ("AIFF",         "mutagen.aiff.AIFF",              "aiff", None,     "id3", True),
    ("WAVE",         "mutagen.wave.WAVE",              "wave", None,     "id3", True),
    ("DSDIFF",       "mutagen.dsdiff.DSDIFF",          "dff",  None,     "id3", True),
    ("DSF",          "mutagen.dsf.DSF",                "dsf",  None,     "id3", True),
    ("MP4",          "mutagen.mp4.MP4",                "mp4",  None,     "mp4", True),
    ("ASF",          "mutagen.asf.ASF",                "asf",  None,     "asf", True),
    ("Musepack",     "mutagen.musepack.Musepack",      "ape",  None,     "ape", False),
    ("WavPack",      "mutagen.wavpack.WavPack",        "ape",  None,     "ape", False),
    ("MonkeysAudio", "mutagen.monkeysaudio.MonkeysAudio", "ape", None,   "ape", False),
    ("OptimFROG",    "mutagen.optimfrog.OptimFROG",    "ape",  None,     "ape", False),
    ("TAK",          "mutagen.tak.TAK",                "ape",  None,     "ape", False),
    ("APEv2",        "mutagen.apev2.APEv2",            "ape",  None,     "ape", False),
]

SAMPLES = {
    "FLAC": ["silence-44-s.flac", "no-tags.flac", "flac_application.flac", "variable-block.flac"],
    "OggVorbis": ["empty.ogg", "multipagecomment.ogg", "multipage-setup.ogg"],
    "OggOpus": ["example.opus"],
    "OggSpeex": ["empty.spx", "multiplexed.spx"],
    "OggTheora": ["sample.oggtheora"],
    "OggFLAC": ["empty.oggflac"],
    "MP3": ["silence-44-s.mp3", "no-tags.mp3", "silence-44-s-v1.mp3", "id3v1v2-combined.mp3", "xing.mp3", "vbri.mp3",
            "apev2-lyricsv2.mp3", "id3v22-test.mp3", "lame.mp3"],
    "TrueAudio": ["empty.tta"],
    "ID3": ["adif.aac", "silence-44-s.ac3", "no-tags.mp3", "silence-44-s.mp3"],
    "AIFF": ["with-id3.aif", "8k-1ch-1s-silence.aif", "11k-1ch-2s-silence.aif", "8k-4ch-1s-silence.aif"],
    "WAVE": ["silence-2s-PCM-16000-08-ID3v23.wav", "silence-2s-PCM-16000-08-notags.wav"],
    "DSDIFF": ["2822400-1ch-0s-silence.dff", "5644800-2ch-s01-silence.dff", "5644800-2ch-s01-silence-dst.dff"],
    "DSF": ["with-id3.dsf", "without-id3.dsf", "2822400-1ch-0s-silence.dsf"],
    "MP4": ["has-tags.m4a", "no-tags.m4a", "alac.m4a", "covr-with-name.m4a", "ep7.m4b", "no-tags.3g2"],
    "ASF": ["silence-1.wma", "silence-2.wma", "silence-3.wma", "issue_29.wma"],
    "Musepack": ["click.mpc", "sv8_header.mpc", "sv5_header.mpc"],
    "WavPack": ["silence-44-s.wv", "dsd.wv", "no_length.wv"],
    "MonkeysAudio": ["mac-399.ape", "mac-396.ape"],
    "OptimFROG": ["silence-2s-44100-16.ofr", "empty.ofs"],
    "TAK": ["has-tags.tak", "silence-44-s.tak"],
    "APEv2": ["oldtag.apev2", "silence-44-s.ac3", "click.mpc"],
}


class Kind:
    def __init__(self, name, path, family, codec, style, padding):
        self.name, self.path, self.family, self.codec, self.style, self.padding = name, path, family, codec, style, padding
        self.is_tagclass = name in ("ID3", "APEv2")

    @property
    def cls(self):
        mod, c = self.path.rsplit(".", 1)
        return getattr(importlib.import_module(mod), c)

    def samples(self):
        out = []
        for s in SAMPLES.get(self.name, []):
            p = os.path.join(DATA, s)
            if os.path.exists(p):
                out.append((s, open(p, "rb").read()))
        if self.name == "FLAC" and out:
            # a FLAC file with an ID3v2 tag in front of the stream marker (foreign tag family; deleteid3 option)
            frame = b"TIT2" + bytes([0, 0, 0, 9]) + b"\x00\x00" + b"\x03Id3Title"[:9]
            pad = b"\x00" * 300
            body = frame + pad
            n = len(body)
            tag = b"ID3\x04\x00\x00" + bytes([(n >> 21) & 0x7F, (n >> 14) & 0x7F, (n >> 7) & 0x7F, n & 0x7F]) + body
            out.append(("id3prefix+" + out[0][0], tag + out[0][1]))
        from . import synth
        out += synth.extra_samples(self, list(out))
        return out

    def walk(self, data):
        return W.walk(self.family, data, self.codec)

    def open(self, fileobj):
        """load; for the bare tag classes a missing tag gives an empty object"""
        fileobj.seek(0)
        if self.is_tagclass:
            import mutagen
            try:
                return self.cls(fileobj)
            except mutagen.MutagenError as e:
                if "NoHeader" in type(e).__name__:
                    return self.cls()
                raise
        return self.cls(fileobj)

    def tags_of(self, obj):
        return obj if self.is_tagclass else obj.tags

    def ensure_tags(self, obj):
        if not self.is_tagclass and obj.tags is None:
            obj.add_tags()
        return self.tags_of(obj)

    def module_delete(self):
        mod = importlib.import_module(self.path.rsplit(".", 1)[0])
        return getattr(mod, "delete", None)


KINDS = {k[0]: Kind(*k) for k in _K}

# ------------------------------------------------------------------ value generators
MARK = "Zq9Xj"          # distinctive token put into every generated value (C08 searches for leftovers)
SIZES = {"tiny": [0, 1, 5, 40], "mid": [254, 255, 256, 1000, 4000, 4096, 5000], "huge": [65000, 70000, 200000]}
# incl. text whose UTF-16 form has 00 00 across code-unit boundaries (U+4E00 after / before ASCII, twice) and code units with a 0x0A byte
UNI = ["", "x", "äö", "\U0001F600ä=e", "a=b", "あい", "tab\there", "\U00010400", "1\u4e002\u4e00", "\u4e001\u4e002", "\u4e0a\u010a"]


def text(rng, sizeclass):
    n = rng.choice(SIZES[sizeclass])
    base = rng.choice(UNI)
    body = MARK + base
    if n > len(body):
        body = body + rng.choice("vwxyz") * (n - len(body))
    return body


def blob(rng, sizeclass):
    n = rng.choice(SIZES[sizeclass])
    pat = rng.choice([b"\xff\x00\xe0", b"\x00", b"\xff\xfb", b"TAGAPETAGEX", bytes(range(256))])
    return (MARK.encode() + pat * (n // len(pat) + 1))[:max(n, len(MARK))]


def apply_tags(kind, obj, rng, sizeclass):
    """mutate the object's tags through its tag interface with random valid values"""
    t = kind.ensure_tags(obj)
    st = kind.style
    if st == "vc":
        k = rng.choice(["title", "ARTIST", "x y", "Title", "album", "a}b"])
        t[k] = [text(rng, sizeclass) for _ in range(rng.choice([1, 1, 2, 3]))]
        if rng.random() < 0.15:
            t["genre"] = rng.choice([[""], [text(rng, "tiny"), ""]])      # empty values are valid
        if rng.random() < 0.3:
            t["comment"] = [text(rng, "tiny")]
    elif st == "id3":
        from mutagen.id3 import TIT2, TPE1, TXXX, COMM, APIC, PRIV, POPM, TALB, TDRC
        enc = rng.choice([0, 1, 2, 3])
        tx = text(rng, sizeclass)
        if enc == 0:
            tx = tx.encode("latin-1", "replace").decode("latin-1")
        t.add(rng.choice([TIT2, TPE1, TALB])(encoding=enc, text=[tx] + ([text(rng, "tiny").encode("latin-1", "replace").decode("latin-1")] if rng.random() < 0.3 else [])))
        r = rng.random()
        if r < 0.3:
            t.add(TXXX(encoding=rng.choice([1, 3]), desc=rng.choice(["d", "", "ä"]), text=[text(rng, "tiny")]))
        elif r < 0.5:
            t.add(COMM(encoding=3, lang="eng", desc=rng.choice(["", "c"]), text=[text(rng, "tiny")]))
        elif r < 0.7:
            t.add(APIC(encoding=rng.choice([0, 3]), mime="image/png", type=3, desc=rng.choice(["c", ""]), data=blob(rng, sizeclass) + b"\x01"))
        elif r < 0.85:
            t.add(PRIV(owner="o" + MARK, data=blob(rng, "tiny") + b"\x01"))
        else:
            t.add(POPM(email="a@b", rating=rng.randrange(256), count=rng.choice([0, 1, 2 ** 32 - 1, 2 ** 40])))
        if rng.random() < 0.25:
            # recording time at every precision (v2.3 carries it as TYER + TDAT + TIME)
            t.add(TDRC(encoding=rng.choice([0, 3]), text=[rng.choice(["2001", "1999-12", "2001-05-17", "2001-05-17 10", "2001-05-17 10:20", "2001-05-17 10:20:33"])]))
    elif st == "ape":
        from mutagen.apev2 import APEValue, TEXT, BINARY, EXTERNAL
        k = rng.choice(["Title", "ARTIST", "Album", "My Key"])
        r = rng.random()
        if r < 0.6:
            t[k] = "\x00".join(text(rng, sizeclass) for _ in range(rng.choice([1, 1, 2])))
        elif r < 0.85:
            t["Cover Art (Front)"] = APEValue(b"c.png\x00" + blob(rng, sizeclass), BINARY)
        else:
            t["File"] = APEValue("http://" + MARK, EXTERNAL)
    elif st == "mp4":
        from mutagen.mp4 import MP4Cover, MP4FreeForm
        r = rng.random()
        if r < 0.45:
            t[rng.choice(["\xa9nam", "\xa9ART", "\xa9alb", "\xa9cmt"])] = [text(rng, sizeclass) for _ in range(rng.choice([1, 1, 2]))]
            if rng.random() < 0.25:
                t["\xa9gen"] = rng.choice([[""], [text(rng, "tiny"), ""]])   # an empty string is a valid text value
        elif r < 0.6:
            t["covr"] = [MP4Cover(blob(rng, sizeclass), rng.choice([MP4Cover.FORMAT_PNG, MP4Cover.FORMAT_JPEG]))]
        elif r < 0.7:
            t["trkn"] = [(rng.choice([0, 1, 65535]), rng.choice([0, 12, 65535]))]
        elif r < 0.8:
            t["tmpo"] = [rng.choice([0, 1, 120, 32767])]
        elif r < 0.9:
            t["----:com.apple.iTunes:" + MARK] = [MP4FreeForm(blob(rng, "tiny"))]
        else:
            t["cpil"] = rng.random() < 0.5
        if rng.random() < 0.3:
            # integer atoms whose minimum width is one byte: data type 21 is a SIGNED big-endian integer
            t[rng.choice(["stik", "rtng", "hdvd", "shwm", "akID"])] = [rng.choice([0, 1, 127, 128, 200, 255, 256, 32767, 32768, 65535, 2 ** 31 - 1])]
    elif st == "asf":
        from mutagen.asf import ASFUnicodeAttribute, ASFDWordAttribute, ASFQWordAttribute, ASFWordAttribute, ASFBoolAttribute, ASFByteArrayAttribute
        r = rng.random()
        if r < 0.35:
            t[rng.choice(["Title", "Author", "Description"])] = [text(rng, "tiny" if sizeclass == "huge" else sizeclass)[:30000]]
        elif r < 0.6:
            t["WM/" + rng.choice(["Foo", "AlbumTitle"])] = [text(rng, sizeclass)[:120000] for _ in range(rng.choice([1, 2]))]
        elif r < 0.7:
            t["WM/Num"] = [ASFDWordAttribute(rng.choice([0, 1, 2 ** 32 - 1])), ASFQWordAttribute(rng.choice([0, 2 ** 64 - 1])), ASFWordAttribute(rng.choice([0, 65535]))]
        elif r < 0.8:
            t["WM/Flag"] = [ASFBoolAttribute(rng.random() < 0.5)]
        elif r < 0.9:
            t["WM/Picture"] = [ASFByteArrayAttribute(blob(rng, sizeclass))]
        elif r < 0.95:
            t["WM/Lang"] = [ASFUnicodeAttribute(text(rng, "tiny"), language=1, stream=rng.choice([0, 2]))]
        else:
            # the names of the Content Description Object with a stream number / language: they cannot live there
            # (that object has neither field) and must be stored where the number survives
            nm = rng.choice(["Title", "Author", "Copyright", "Description", "Rating"])
            t[nm] = [ASFUnicodeAttribute(text(rng, "tiny"), stream=rng.choice([1, 2, 127])) if rng.random() < 0.6 else
                     ASFUnicodeAttribute(text(rng, "tiny"), language=rng.choice([0, 1]), stream=rng.choice([0, 3]))]


def clear_tags(kind, obj):
    t = kind.tags_of(obj)
    if t is None:
        return
    if kind.style == "id3":
        for k in list(t.keys()):
            del t[k]
    else:
        t.clear()


# ------------------------------------------------------------------ canonical forms
def canon_mem(kind, obj):
    """canonical form of the tags as held in memory / as reloaded (through mutagen's own interface)"""
    t = kind.tags_of(obj)
    if t is None:
        return None
    st = kind.style
    if st == "vc":
        return [(k, v) for k, v in list(t)]
    if st == "id3":
        out = []
        for key in sorted(t.keys()):
            f = t[key]
            d = {}
            for spec in list(f._framespec) + list(getattr(f, "_optionalspec", [])):
                if hasattr(f, spec.name):
                    v = getattr(f, spec.name)
                    if spec.name == "encoding":
                        continue
                    if spec.name == "text" and isinstance(v, list):
                        v = [str(x) for x in v]
                    d[spec.name] = repr(v)
            out.append((type(f).__name__, key, sorted(d.items())))
        return out
    if st == "ape":
        return sorted((k.lower(), v.kind, bytes(v.value) if isinstance(v.value, (bytes, bytearray)) else v.value.encode("utf-8")) for k, v in t.items())
    if st == "mp4":
        out = []
        for k in sorted(t.keys()):
            v = t[k]
            vals = v if isinstance(v, list) else [v]
            cv = []
            for x in vals:
                if isinstance(x, (bytes, bytearray)):
                    cv.append(("b", bytes(x), getattr(x, "imageformat", getattr(x, "dataformat", None))))
                else:
                    cv.append(("v", repr(x)))
            out.append((k, cv))
        return out
    if st == "asf":
        out = []
        for k, v in t:
            out.append((k, type(v).__name__, repr(v.value), getattr(v, "language", None) or 0, getattr(v, "stream", None) or 0))
        return sorted(out)
    raise KeyError(st)


def expected_indep(kind, obj, v2_version=4):
    """what the independent decoders must find in the saved bytes, computed from the in-memory tags
    by code of this harness (not by mutagen's writers).  None = no independent expectation."""
    t = kind.tags_of(obj)
    st = kind.style
    if t is None:
        return None
    if st == "vc":
        return [(k.encode("ascii"), v.encode("utf-8")) for k, v in list(t)]
    if st == "ape":
        return sorted((k.encode("ascii"), v.kind, bytes(v.value) if isinstance(v.value, (bytes, bytearray)) else v.value.encode("utf-8")) for k, v in t.items())
    if st == "id3":
        out = []
        for key in t.keys():
            f = t[key]
            n = type(f).__name__
            if n[0] == "T" and n != "TXXX" and hasattr(f, "text"):
                txt = [str(x) for x in f.text]
                if n in ("TDRC", "TDOR", "TDRL", "TDEN", "TDTG"):
                    txt = [x.replace(" ", "T") for x in txt]     # ISO 8601 subset on the wire
                if not "".join(txt) and all(x == "" for x in txt):
                    continue       # empty text frames are not written (documented canonical form)
                out.append(("T", n, txt))
            elif n == "TXXX":
                out.append(("TXXX", f.desc, [str(x) for x in f.text]))
            elif n == "COMM":
                out.append(("COMM", f.lang.encode("latin-1") if isinstance(f.lang, str) else f.lang, f.desc, list(f.text)))
            elif n == "APIC":
                out.append(("APIC", f.mime, int(f.type), f.desc, bytes(f.data)))
            elif n == "PRIV":
                out.append(("PRIV", f.owner, bytes(f.data)))
            elif n == "POPM":
                out.append(("POPM", f.email, f.rating, getattr(f, "count", None)))
        return sorted(out, key=repr)
    if st == "mp4":
        out = []
        for k in t.keys():
            v = t[k]
            vals = v if isinstance(v, list) else [v]
            kb = k.encode("latin-1") if not k.startswith("----") else b"----"
            if k.startswith("----"):
                _, mean, name = k.split(":", 2)
                out.append((b"----", mean.encode(), name.encode(), [bytes(x) for x in vals]))
            elif k[0] == "\xa9":
                out.append((kb, [x.encode("utf-8") for x in vals]))
            elif k == "covr":
                out.append((kb, [(int(x.imageformat), bytes(x)) for x in vals]))
            elif k == "trkn":
                out.append((kb, [struct.pack(">2x3H", a, b, 0) for a, b in vals]))
            elif k == "tmpo":
                out.append((kb, [struct.pack(">H", x) for x in vals]))
            elif k == "cpil":
                out.append((kb, [bytes([1 if v else 0])]))
            elif k in ("stik", "rtng", "hdvd", "shwm", "akID"):
                out.append((kb, [("int", int(x)) for x in vals]))
        return sorted(out, key=repr)
    if st == "asf":
        out = []
        for k, v in t:
            n = type(v).__name__
            ty = {"ASFUnicodeAttribute": "str", "ASFDWordAttribute": "dword", "ASFQWordAttribute": "qword",
                  "ASFWordAttribute": "word", "ASFBoolAttribute": "bool", "ASFByteArrayAttribute": "bytes",
                  "ASFGUIDAttribute": "guid"}[n]
            out.append((k, (ty, v.value), getattr(v, "language", None) or 0, getattr(v, "stream", None) or 0))
        return sorted(out, key=repr)
    return None


def indep_decode(kind, w):
    """canonicalise the walker's independent decoding into the shape of expected_indep"""
    t = w["tags"]
    st = kind.style
    if st == "vc":
        return None if t is None else list(t["items"])
    if st == "ape":
        return None if t is None else sorted(t)
    if st == "id3":
        if t is None:
            return None
        out = []
        for fid, fl, payload in t["frames"]:
            d = W.id3_frame_decode(fid, t["version"], fl, payload)
            if d is None:
                continue
            if d[0] == "T":
                out.append(("T", d[1], d[3]))
            elif d[0] == "TXXX":
                out.append(("TXXX", d[2], d[3]))
            elif d[0] == "COMM":
                out.append(("COMM", d[2], d[3], d[4]))
            elif d[0] == "APIC":
                out.append(("APIC", d[2], d[3], d[4], d[5]))
            elif d[0] == "PRIV":
                out.append(("PRIV", d[1], d[2]))
            elif d[0] == "POPM":
                out.append(("POPM", d[1], d[2], d[3]))
        return sorted(out, key=repr)
    if st == "mp4":
        if t is None:
            return None
        out = []
        for name, sub in t:
            datas = [b for n, b in sub if n == b"data"]
            if not datas:
                continue        # an item without a data child carries no value (kept verbatim: C07's subject)
            if name == b"----":
                mean = [b[4:] for n, b in sub if n == b"mean"][0]
                nm = [b[4:] for n, b in sub if n == b"name"][0]
                out.append((b"----", mean, nm, [b[8:] for b in datas]))
            elif name[:1] == b"\xa9":
                out.append((name, [b[8:] for b in datas]))
            elif name == b"covr":
                out.append((name, [(int.from_bytes(b[:4], "big") & 0xFFFFFF, b[8:]) for b in datas]))
            elif name in (b"trkn", b"tmpo", b"cpil"):
                out.append((name, [b[8:] for b in datas]))
            elif name in (b"stik", b"rtng", b"hdvd", b"shwm", b"akID"):
                # type 21: signed big-endian integer of 1, 2, 3, 4 or 8 bytes
                out.append((name, [("int", int.from_bytes(b[8:], "big", signed=True)) for b in datas]))
        return sorted(out, key=repr)
    if st == "asf":
        if t is None:
            return None
        return sorted([(name, val, lang, stream) for _, name, lang, stream, val in t], key=repr)
    return None


def info_of(obj):
    """header-derived stream information (size-estimated durations excluded)"""
    i = getattr(obj, "info", None)
    if i is None:
        return None
    out = {}
    for k in ("sample_rate", "channels", "bits_per_sample", "layer", "version", "codec"):
        if hasattr(i, k):
            out[k] = getattr(i, k)
    if hasattr(i, "length"):
        n = type(obj).__name__
        est = False
        if n in ("MP3", "EasyMP3"):
            # without a Xing/Info/VBRI header the duration is estimated from the file size
            est = str(getattr(i, "bitrate_mode", "")).endswith("UNKNOWN")
        if not est:
            out["length"] = round(i.length, 6) if i.length is not None else None
    return out
