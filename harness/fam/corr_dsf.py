"""Correspondence of the DSF family model (coq/model/Fam_dsf.v, extracted) with mutagen.dsf.

The ID3v2 tag is opaque for this family.  For every save / fresh / delete / moddelete step of every history of the shared
engine on kind DSF:
  * save / fresh : the tag bytes the implementation wrote are the bytes of st.after from the metadata pointer (read by
                   this module with struct) to EOF; the model's dsf_save(st.before, tag bytes) must equal st.after byte for
                   byte; the C09 form dsf_save_cb(st.before, frame data, v2_version, padding callback of the mode) must
                   give the same bytes and hand the callback the (info.padding, info.size) pair the real one saw;
  * delete / moddelete : dsf_delete(st.before) == st.after;
  * afterwards   : the model's strict reader must accept st.after (dsf_wf: chunk size 28, total size = file length, fmt and
                   data chunks tile the file up to the pointer, pointer 0 or at an ID3 header whose tag runs to EOF),
                   dsf_load(st.after) must return exactly the tag bytes (none after a delete) and the bytes [28, pointer)
                   as dsf_parse segments them must be identical before and after.
On `fresh` steps a scenario on synthetic layouts runs (model's dsf_build: with / without tag, sample data of several sizes)
plus LENIENT layouts only mutagen accepts (wrong total size, pointer past EOF, pointer inside the header area, pointer at
non-ID3 bytes, unsupported fmt version -- save works, delete refuses --, file shorter than the three chunk headers):
mutagen's _DSFID3.save / module delete on them and the model must produce the same bytes / the same exception class."""
import io, re, struct
import mutagen
import common
from common import hx, unhx, zs, zp, coq_bytes

KINDS = {"DSF"}
LIMIT = 300_000
MODES = {"default": "default", "none": "default", "zero": "c0", "one": "c1", "odd": "c" + zs(777),
         "large": "c" + zs(50000), "keep": "keep"}


def pointer_of(d):
    return struct.unpack("<Q", d[20:28])[0] if len(d) >= 28 else 0


def tag_of(d):
    p = pointer_of(d)
    return d[p:] if p else None


def exc_name(st_exc):
    if st_exc is None:
        return None
    return "MutagenError" if st_exc[0] == "MutagenError" else st_exc[1]


def compare_bytes(ctx, what, reply, after, want_exc, data):
    parts = reply.split(" ")
    if parts[0] == "raise":
        got = parts[1]
        if want_exc is None:
            ctx.disagree("fam.dsf", "%s: model raises %s, mutagen succeeds" % (what, got), data)
        elif got != want_exc:
            ctx.disagree("fam.dsf", "%s: model raises %s, mutagen raises %s" % (what, got, want_exc), data)
        return None
    if parts[0] != "ok":
        ctx.disagree("fam.dsf", "%s: model error" % what, dict(data, reply=reply[:200]))
        return None
    if want_exc is not None:
        ctx.disagree("fam.dsf", "%s: mutagen raises %s, model succeeds" % (what, want_exc), data)
        return None
    out = unhx(parts[1])
    if out != after:
        k = next((i for i in range(min(len(out), len(after))) if out[i] != after[i]), min(len(out), len(after)))
        ctx.disagree("fam.dsf", "%s: file bytes differ" % what,
                     dict(data, model_len=len(out), impl_len=len(after), first_diff=k,
                          model_at=out[max(0, k - 4):k + 12].hex(), impl_at=after[max(0, k - 4):k + 12].hex()))
    return parts


def model_parse(ctx, d):
    r = ctx.model.call("dsf_parse", hx(d))
    if not r.startswith("ok "):
        return None
    _, audio, tag = r.split(" ")
    return dict(audio=audio, tag=tag)


def check_after(ctx, what, before, after, expect, data):
    """expect: tag bytes | None (no tag) | 'skip'"""
    pb = model_parse(ctx, before)
    if pb is None:
        ctx.count("dsf:before-not-wf")
        return
    pa = model_parse(ctx, after)
    if pa is None:
        ctx.disagree("fam.dsf", "%s: file written by mutagen is not well-formed for the model (dsf_wf)" % what, data)
        return
    if pa["audio"] != pb["audio"]:
        ctx.disagree("fam.dsf", "%s: bytes [28, pointer) differ under the model's strict reader" % what, data)
    if expect == "skip":
        return
    if expect is None:
        if pa["tag"] != "none":
            ctx.disagree("fam.dsf", "%s: independent reader still finds a tag" % what, data)
    elif pa["tag"] != hx(expect):
        ctx.disagree("fam.dsf", "%s: independent reader (dsf_load) does not return the tag bytes that were written" % what, data)


def check_save(ctx, what, before, after, exc, mode, cb_log, had_tags, data, wpad=None, strict=True):
    if not had_tags:
        if after != before:
            ctx.disagree("fam.dsf", "%s without tags changed the file" % what, data)
        return
    if exc is not None:
        ctx.count("dsf:save-raised")
        return
    tag = tag_of(after)
    if tag is None:
        ctx.disagree("fam.dsf", "%s: metadata pointer is 0 in the file mutagen wrote" % what, data)
        return
    ctx.corr_cases += 1
    compare_bytes(ctx, what, ctx.model.call("dsf_save", hx(before), hx(tag)), after, None, data)
    pad = cb_log[0][2] if cb_log else wpad
    if pad is not None and 0 <= pad <= len(tag) - 10 and tag[:3] == b"ID3" and not tag[len(tag) - pad:].strip(b"\x00"):
        fd, ver = tag[10:len(tag) - pad], tag[3]
        reply = ctx.model.call("dsf_save_cb", hx(before), hx(fd), zs(ver), MODES[mode])
        ctx.corr_cases += 1
        parts = compare_bytes(ctx, what + " (callback form)", reply, after, None, data)
        if parts and cb_log and len(parts) >= 4 and parts[2] != "-":
            p_in, size_in, _ = cb_log[0]
            if (zp(parts[2]), zp(parts[3])) != (p_in, size_in):
                ctx.disagree("fam.dsf", "%s: padding callback received different (info.padding, info.size)" % what,
                             dict(data, model=[zp(parts[2]), zp(parts[3])], impl=[p_in, size_in]))
        ctx.count("dsf:save-cb-compared")
    if strict:
        check_after(ctx, what, before, after, tag, data)
    ctx.count("dsf:save-compared")


def check_delete(ctx, what, before, after, exc, data, strict=True):
    ctx.corr_cases += 1
    compare_bytes(ctx, what, ctx.model.call("dsf_delete", hx(before)), after, exc, data)
    if exc is None and strict:
        check_after(ctx, what, before, after, None, data)
    ctx.count("dsf:delete-compared")


def check_step(ctx, kind, st):
    op = st.op
    if op not in ("save", "fresh", "delete", "moddelete"):
        return
    data = {"kind": kind.name, "op": st.brief(), "before_len": len(st.before), "before_head": st.before[:48].hex()}
    if len(st.before) > LIMIT or len(st.after) > LIMIT or pointer_of(st.before) > len(st.before) + LIMIT:
        ctx.count("dsf:skip-large")
        return
    if op in ("save", "fresh"):
        mode = st.arg if op == "save" else "none"
        wpad = st.wafter["padding"] if st.wafter else None
        check_save(ctx, op, st.before, st.after, exc_name(st.exc), mode, st.cb, st.mem is not None, data, wpad)
        if op == "fresh" and st.exc is None:
            synthetic(ctx, data)
    else:
        check_delete(ctx, "delete" if op == "delete" else "module delete", st.before, st.after, exc_name(st.exc), data)



# ---------------------------------------------------------------------------------- vm_compute cross-check
VM_BATCH = 12
EXC_COQ = {"EStruct": "struct.error", "EValue": "ValueError", "EMutagen": "MutagenError", "EOutOfFuel": "FUEL"}
COQ_CB = {"default": "cb_default", "keep": "cb_keep"}


def coq_cb(mode):
    return COQ_CB.get(mode) or "(cb_const %d)" % zp(mode[1:])


def vm_note(ctx, term, reply):
    """remember a small case (Gallina term, binary's reply); every VM_BATCH cases (first batch only per run) the same
    terms are evaluated by vm_compute inside Coq and must agree with the extracted binary"""
    st = getattr(ctx, "_dsf_vm", None)
    if st is None:
        st = {"cases": [], "done": False}
        setattr(ctx, "_dsf_vm", st)
    if st["done"]:
        return
    st["cases"].append((term, reply))
    if len(st["cases"]) >= VM_BATCH:
        st["done"] = True
        vm_crosscheck(ctx, st["cases"])
        st["cases"] = []


def vm_crosscheck(ctx, cases):
    pre = ("From Coq Require Import ZArith List. Import ListNotations. "
           "Require Import Base.Py Model.Fam_carrier Model.Fam_dsf. Open Scope Z_scope.")
    res, log = common.vm_shard("fam_dsf", pre, [c[0] for c in cases])
    if res is None or len(res) != len(cases):
        ctx.disagree("fam.dsf.vm_shard", "vm_compute shard failed to run", {"log": str(log)[-300:]})
        return
    for (term, reply), r in zip(cases, res):
        ctx.vm_cases += 1
        r = r.replace("%Z", "")
        m = re.match(r"Ok \[(.*)\]$", r)
        if m:
            got = "ok " + hx(bytes(int(x) for x in m.group(1).split(";") if x.strip()))
        elif r.startswith("Raise "):
            got = "raise " + EXC_COQ.get(r[6:].strip(), r[6:].strip())
        else:
            got = "unparsed " + r[:60]
        want = " ".join(reply.split(" ")[:2])
        if got != want:
            ctx.disagree("fam.dsf.vm_shard", "extracted binary and vm_compute differ", {"term": term[:300], "binary": want[:120], "vm": got[:120]})
            return


# ---------------------------------------------------------------------------------- synthetic layouts
def make_tag(rng, n):
    from mutagen.id3 import ID3, TIT2
    t = ID3()
    t.add(TIT2(encoding=3, text=["Zq" + "v" * rng.choice([0, 1, 2, 30])]))
    b = io.BytesIO()
    t.save(b, padding=lambda info: n)
    return b.getvalue()


def run_impl(fn, f0):
    b = io.BytesIO(f0)
    try:
        fn(b)
        return b.getvalue(), None
    except mutagen.MutagenError:
        return b.getvalue(), "MutagenError"
    except Exception as e:
        return b.getvalue(), type(e).__name__ if type(e).__name__ != "error" else "struct.error"


def synthetic(ctx, data):
    from mutagen.id3 import ID3, TIT2, TPE1
    from mutagen.dsf import _DSFID3, delete as moddelete
    from .engine import pad_callback
    rng = ctx.rng
    for rep in range(3):
        fmt_body = struct.pack("<IIIIIIQII", 1, 0, 2, 2, 2822400, 1, rng.choice([0, 8, 4096]), 4096, 0)
        samples = bytes(rng.randrange(256) for _ in range(rng.choice([0, 1, 2, 100, 4096])))
        t0 = make_tag(rng, rng.choice([0, 1, 2, 7, 100, 1023, 1024, 1025, 2000])) if rng.random() < 0.6 else None
        r = ctx.model.call("dsf_build", hx(fmt_body), hx(samples), hx(t0) if t0 is not None else "none")
        if not r.startswith("ok "):
            ctx.disagree("fam.dsf", "dsf_build failed", dict(data, reply=r[:100]))
            return
        f0 = unhx(r[3:])
        audio = b"fmt " + struct.pack("<Q", 52) + fmt_body + b"data" + struct.pack("<Q", 12 + len(samples)) + samples
        mine = b"DSD " + struct.pack("<QQQ", 28, 28 + len(audio) + len(t0 or b""), 28 + len(audio) if t0 is not None else 0) + audio + (t0 or b"")
        lay = dict(data, runner="fam.dsf.layout", samples=len(samples), tag=None if t0 is None else len(t0))
        if mine != f0:
            ctx.disagree("fam.dsf", "dsf_build differs from the harness renderer", lay)
            return
        if ctx.model.call("dsf_wf", hx(f0)) != "ok 1":
            ctx.disagree("fam.dsf", "layout built by dsf_build is not dsf_wf", lay)
            return
        lenient = None
        if rng.random() < 0.45:
            lenient = rng.choice(["total-wrong", "ptr-past-eof", "ptr-in-header", "ptr-not-id3", "fmt-version", "short", "garbage-tail", "bad-data-id"])
            tot, ptr = struct.unpack("<QQ", f0[12:28])
            if lenient == "total-wrong":
                f0 = f0[:12] + struct.pack("<Q", tot + rng.choice([1, 5, 100])) + f0[20:]
            elif lenient == "ptr-past-eof":
                f0 = f0[:20] + struct.pack("<Q", len(f0) + rng.choice([0, 1, 9])) + f0[28:]
            elif lenient == "ptr-in-header":
                f0 = f0[:20] + struct.pack("<Q", rng.choice([1, 10, 27, 28, 40, 91])) + f0[28:]
            elif lenient == "ptr-not-id3":
                f0 = f0[:20] + struct.pack("<Q", max(92, len(f0) - rng.choice([1, 5, 20]))) + f0[28:]
            elif lenient == "fmt-version":
                f0 = f0[:40] + struct.pack("<I", 2) + f0[44:]
            elif lenient == "short":
                f0 = f0[:rng.choice([28, 30, 80, 85, 91])]
            elif lenient == "garbage-tail":
                f0 = f0 + bytes(rng.randrange(256) for _ in range(rng.choice([1, 3, 11])))
            elif lenient == "bad-data-id":
                f0 = f0[:80] + b"date" + f0[84:]
            lay["lenient"] = lenient
        ctx.count("dsf:layout" + (":lenient" if lenient else ""))
        try:
            o = _DSFID3(io.BytesIO(f0))
        except mutagen.MutagenError:
            o = _DSFID3()
        except Exception as e:
            ctx.count("dsf:layout-load-" + type(e).__name__)
            continue
        cur = f0
        for step in range(rng.choice([1, 2, 3])):
            opn = rng.choice(["save", "save", "save", "moddelete"])
            d2 = dict(lay, step=step, sop=opn, cur_len=len(cur), cur_hex=cur.hex() if len(cur) < 600 else None)
            if opn == "save":
                o.add(rng.choice([TIT2, TPE1])(encoding=3, text=["Zq9" + "w" * rng.choice([0, 1, 2, 3, 500, 1500])]))
                mode = rng.choice(["default", "zero", "one", "odd", "keep", "none"])
                log = []
                kw = {} if mode == "none" else {"padding": pad_callback(mode, log)}
                ref = io.BytesIO()
                ID3.save(o, ref, padding=lambda info: 0)
                fd = ref.getvalue()[10:]
                after, exc = run_impl(lambda b: o.save(b, **kw), cur)
                d2["mode"] = mode
                reply = ctx.model.call("dsf_save_cb", hx(cur), hx(fd), zs(4), MODES[mode])
                ctx.corr_cases += 1
                if len(cur) + len(fd) < 900:
                    vm_note(ctx, "dsf_save_cb %s %s 4 %s" % (coq_bytes(cur), coq_bytes(fd), coq_cb(MODES[mode])), reply)
                parts = compare_bytes(ctx, "layout save", reply, after, exc, d2)
                if parts and log and len(parts) >= 4 and parts[2] != "-":
                    if (zp(parts[2]), zp(parts[3])) != tuple(log[0][:2]):
                        ctx.disagree("fam.dsf", "layout save: padding callback received different (info.padding, info.size)",
                                     dict(d2, model=[zp(parts[2]), zp(parts[3])], impl=list(log[0][:2])))
                if exc is None and not lenient:
                    check_after(ctx, "layout save", cur, after, tag_of(after) or "skip", d2)
            else:
                after, exc = run_impl(lambda b: moddelete(b), cur)
                ctx.corr_cases += 1
                reply = ctx.model.call("dsf_delete", hx(cur))
                if len(cur) < 900:
                    vm_note(ctx, "dsf_delete %s" % coq_bytes(cur), reply)
                compare_bytes(ctx, "layout module delete", reply, after, exc, d2)
                if exc is None and not lenient:
                    check_after(ctx, "layout module delete", cur, after, None, d2)
            if exc is not None:
                ctx.count("dsf:layout-exc-" + str(exc))
                break
            if pointer_of(after) > len(after) + 1000 or (not lenient and ctx.model.call("dsf_wf", hx(after)) != "ok 1"):
                break          # reported above; do not continue a history on a file the implementation corrupted
            cur = after
