"""Common body of the whole-file property checks (C01 C02 C03 C07 C08 C09): theorems = every
props/<Cxx>*.v present (policy + per-family files), correspondence = family modules harness/fam/corr_*.py,
direct oracle = the shared edit-history run with this property's predicates."""
import os, glob
import common
from fam import shared
from fam.kinds import KINDS


def prop_files(prop):
    return sorted(os.path.relpath(p, common.COQ) for p in glob.glob(os.path.join(common.COQ, "props", prop + "*.v")))


def families_with_theorem(prop):
    fams = []
    for p in prop_files(prop):
        b = os.path.basename(p)[:-2]
        if "_" in b:
            fams.append(b.split("_", 1)[1])
    return fams


def make(prop, quick=(4, 6), thorough=(40, 20), extra_run=None):
    class M:
        pass
    m = M()

    def run(ctx):
        nh, nops = thorough if ctx.thorough else quick
        shared.shared_run(ctx, {prop}, nh, nops, corr_policy="all" if ctx.thorough else "core")
        if extra_run:
            extra_run(ctx)

    def search(ctx, broken):
        before = len(ctx.violations)
        ctx.use_model = False
        shared.shared_run(ctx, {prop}, thorough[0], thorough[1])
        if extra_run:
            extra_run(ctx)
        ctx.notes["search"] = "edit histories (%d per sample, up to %d operations) on every kind found %d failing histories" % (
            thorough[0], thorough[1], len(ctx.violations) - before)

    def replay(ctx, payload):
        d = payload.get("data", {})
        if payload.get("kind") == "failing-input" and d.get("runner") == "fam.history":
            ctx.use_model = False
            return shared.replay_history(ctx, {prop}, d)
        run(ctx)
        return bool(ctx.violations or ctx.disagreements)

    def coverage_extra(ctx):
        fams = families_with_theorem(prop)
        allf = ["flac", "ape", "id3f", "iff", "dsf", "mp4", "asf", "ogg"]
        return {"families_with_theorem": fams, "families_without_theorem": [f for f in allf if f not in fams],
                "kinds_explored": sorted(k[5:] for k in ctx.hist if k.startswith("kind:")),
                "correspondence_modules": [cm.__name__ for cm in shared.corr_modules()]}
    m.run, m.search, m.replay, m.coverage_extra = run, search, replay, coverage_extra
    return m


RULE = ("direct oracle: random edit histories (set tags tiny/mid/huge incl. astral text and marker tokens, save with padding "
        "default/none/0/1/odd/large/keep, save through a fresh object, delete, module-level delete, clear, reload; ID3 v2.3/v2.4 "
        "and ID3v1 modes) applied through the public API to every well-formed sample of every kind; after each operation the "
        "file bytes are segmented, validated and decoded by the independent walkers of harness/fam/walkers.py (no mutagen code) "
        "and this property's predicates are evaluated; correspondence: per family, the extracted Coq model's F_save/F_delete/"
        "F_load/F_wf are run on the same before/after bytes and compared byte for byte. non-trivial = the history changed the "
        "file bytes at least once; distinct by (kind, sample, operation list)")
TB_NOTE = ("Theorems exist for the families listed in coverage.families_with_theorem of the evidence file; the other families are "
           "explored by the direct oracle only (a search, not a proof). Modelled rather than verified: the hand-written family "
           "models coq/model/Fam_*.v, tied to the code by byte-exact correspondence on every operation of the shared histories; "
           "the splice skeleton is proved over the regenerated resize_bytes (C11). ")
