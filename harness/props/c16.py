"""C16 -- tag objects behave as dictionaries: stateful differential testing of the real objects against
(a) plain reference dictionary models (direct oracle), (b) the extracted Coq model (correspondence),
plus Easy-view / native-tag consistency, a vm_compute cross-check and delta-debugging of failures."""
import io, os, sys, json, itertools
import common
from common import vm_shard
from c16_values import mk, cv, cd, exc_class, FRAME_SPECS
import c16_refs as R
import c16_model as M

PROP = "C16"
PROP_FILES = ["props/C16.v"]
TRUSTED = [
    "modelled rather than verified: Python's builtin dict/list (association list in insertion order), str.lower on ASCII keys, "
    "set() ordering (first occurrence in the model; compared as sets); tied by the step-by-step correspondence below",
    "Model.Dict is hand-written from mutagen/_util.py (DictMixin, DictProxy), _vorbis.py (VCommentDict), apev2.py (_CIDictProxy, APEv2), "
    "id3/_tags.py (ID3Tags), _file.py (FileType); not regenerated: a harmless rewrite shows up as a correspondence disagreement",
    "the reference dictionaries of harness/c16_refs.py (key rules, per-key value validity of MP4Tags/ASFTags/EasyID3/EasyMP4Tags) were derived by reading the code",
]
MANIFEST = {
    "text": "full for the core views: for EVERY finite sequence of mapping operations, VCommentDict (also through a file object), "
            "_CIDictProxy+APEv2 and DictProxy/ID3Tags produce exactly the outputs and exception classes of a plain finite map on the "
            "normalised key (refinement theorems; DictMixin's derived operations proved once over the four primitives); "
            "partial for MP4Tags/ASFTags value validation and all EasyID3/EasyMP4Tags keys: by stateful differential testing only",
    "note": "Not covered by theorem (differential testing against hand-derived reference dictionaries only): MP4Tags per-atom value "
            "validation, ASFTags value coercion, every EasyID3/EasyMP4Tags key (dispatch and the bespoke getters/setters), Easy/native "
            "consistency, ID3Tags.getall/delall/setall beyond two lemmas. Keys of type bytes and direct list manipulation of "
            "VComment/ASFTags are outside the model. Known deviations of EasyID3 are listed in known_findings.json.",
    "technique": "Coq refinement proof (simulation over a primitive interface + reference-direct lemma, induction over the operation list) "
                 "+ stateful differential testing with delta-debugging via the extracted OCaml model and Python reference dictionaries",
    "design_ref": "DESIGN.md section 5, C16",
}
RULE = ("random operation sequences (<=40 ops quick, <=400 thorough) per object kind over a key universe with case variants, invalid "
        "keys, every registered Easy key and glob pattern -- the wildcard part of a pattern key with further separators, empty parts, "
        "blanks, glob characters and non-ASCII text ('performer:a:b', 'performer::x', 'replaygain_a_b_gain'), always interleaved with its "
        "prefixes / extensions and near misses -- and values of accepted and rejected types; after EVERY step the return value / "
        "exception class, sorted items() and keys() are compared with the reference dictionary (violation), with the extracted Coq model "
        "for the modelled kinds (disagreement), and the wrapped native tags with the Easy view; an assignment that raised must leave "
        "items() as it was (stated without the per-key rules). Plus a sweep: every Easy key that has a setter x every rejected value "
        "class (not a list, wrong item types, wrong list lengths, non-ASCII / unparsable / out-of-range content) x key absent | present "
        "| present next to a prefix-related key, through set / setdefault / update. Plus registry overlap: keys registered by exact name "
        "(text, TXXX, freeform) on registry copies where an EARLIER glob also matches them, in three casings, through set / setdefault / update / pop / del: "
        "the Easy view follows a plain dictionary and the native tags hold the frame or atom the exact registration names. non-trivial = a step that changed the "
        "mapping or raised; distinct by (kind, operation, key class, outcome class)")

DATA = os.path.join(common.REPO, "tests", "data")
J = R.J


def S(x):
    return ["s", x]


def L(*xs):
    return ["l", list(xs)]


# ------------------------------------------------------------------------------------------------
# universes
VC_KEYS = ["title", "Title", "TITLE", "artist", "ARTIST", "album", "a=b", "", "x\x7f", "caf\xe9", "ok key", "~t", "{}"]
VC_VALS = [S("a"), S(""), L(S("a"), S("b")), L(S("c")), L(), L(S("a"), S("a")), S("b")]
VC_VALS_X = [["i", 5], ["n"], L(["i", 5], S("a"))]
APE_KEYS = ["Title", "TITLE", "title", "Artist", "artist", "ab", "a", "", "TAG", "tag", "OggS", "oggs", "ID3", "MP+",
            "x" * 255, "x" * 256, "caf\xe9", "a\x1f", "ok key~"]
APE_VALS = [S("a"), S("c\0d"), L(S("a"), S("b")), L(), L(S("a"), ["i", 5]), ["b", "00ff"], ["b", ""], ["i", 5], ["n"],
            ["ape", 0, "t"], ["ape", 1, "0102"], ["ape", 2, "http://x"], S("b")]
ID3_KEYS = ["TIT2", "tit2", "TPE1", "TXXX:desc", "TXXX:Desc", "TXXX", "COMM:desc:eng", "COMM:desc:fra", "COMM", "COMM:desc",
            "WOAR:http://a", "WOAR", "", "zz"]
ID3_VALS = [["frame", i] for i in range(len(FRAME_SPECS))] + [S("a"), ["i", 5], ["n"]]
MP4_KEYS = ["\xa9nam", "\xa9NAM", "aART", "zzzz", "trkn", "disk", "gnre", "tmpo", "stik", "plID", "cpil", "covr",
            "----:com.apple.iTunes:X", "----", "----:x", "кл", "purl", "ab", ""]
MP4_VALS = [S("a"), L(S("a")), L(S("a"), S("b")), L(), ["i", 5], L(["i", 5]), L(["i", 2 ** 63]), L(["i", -200]), ["n"],
            ["b", "6162"], ["b", ""], L(["b", "6162"]), L(["t", [["i", 1], ["i", 2]]]), L(["t", [["i", 1], ["i", 2], ["i", 3]]]),
            L(["t", [["i", 70000], ["i", 1]]]), ["B", True], L(["B", True]), L(["f", 1.5]), L(["ff", "78"]),
            L(["cover", "696d67", 13]), L(S("a"), ["i", 5]), S("")]
ASF_KEYS = ["Title", "title", "WM/X", "Author", ""]
ASF_VALS = [S("a"), L(S("a"), S("b")), L(), ["i", 5], L(["i", 5]), ["i", -1], ["i", 2 ** 32], ["B", True], ["b", "78"], ["n"],
            ["f", 1.5], L(S("a"), ["n"]), ["asf", 4, ["i", 5]], ["asf", 0, S("u")], L(S("c"))]
EZ_STR = ["a", "b", "2001", "2001-13-45 junk", "1-2", "1.5 dB", "-3", "100 dB", "0.5", "1", "2", "17", "RX", "(4)Eurodisco",
          "", "http://a", "http://b", "\xe9", "3/4", "x", "nan", "1e400", "a:b", " "]
EZID3_SPECIAL = ["genre", "date", "originaldate", "musicbrainz_trackid", "website", "performer", "performer:guitar",
                 "PERFORMER:Guitar", "performer:Guitar", "performer:", "performer:[a]", "performer:*",
                 "replaygain_album_gain", "replaygain_album_peak", "REPLAYGAIN_ALBUM_GAIN", "replaygain_Album_peak",
                 "replaygain_track_gain", "replaygain_track_peak", "replaygain_*_gain", "replaygain_*_peak",
                 "replaygain__gain", "replaygain_gain"]
EZ_INVALID = ["nosuchkey", "", "titl[e]", "\xe9", "*", "?itle", "title ", "TIT2", "[a-z]itle"]
# the wildcard part of a pattern key is EVERYTHING the '*' stands for (documented: the role is what follows the first colon,
# the description what lies between 'replaygain_' and the last '_gain' / '_peak'): further separators, empty parts, blanks,
# glob characters, non-ASCII text -- each next to its prefixes / extensions so that aliasing between them shows
EZID3_WILD_PERF = ["performer:guitar:lead", "PERFORMER:Guitar:Lead", "performer:guitar:", "performer:guitar:lead:2", "performer:a",
                   "performer:a:b", "performer::x", "performer::", "performer:a b", "performer: ", "performer:\xe9",
                   "performer:\xc9", "performer:\u30ae\u30bf\u30fc", "performer:gu\xeftar:l\xe9ad", "performer:a\nb", "performer:?",
                   "performer:performer:a", "performer:replaygain_a_gain", "performer:guitar_lead", "Performer:x/y"]
EZID3_WILD_RG = ["replaygain_a_gain", "replaygain_a_peak", "replaygain_a_b_gain", "replaygain_a_b_peak", "replaygain_A_b_gain",
                 "replaygain_a__gain", "replaygain___gain", "replaygain__peak", "replaygain___peak", "replaygain_album_gain_gain",
                 "replaygain_album_gain_peak", "replaygain_album_peak_gain", "replaygain_gain_gain", "replaygain_a:b_gain",
                 "replaygain_a:b_peak", "replaygain_\xe9_gain", "replaygain_\xe9_peak", "replaygain_\u30ae_gain", "replaygain_a b_peak",
                 "replaygain_?_gain", "replaygain_a_GAIN", "Replaygain_a_b_Peak", "replaygain_performer:a_gain"]
# near misses of the patterns and of the fixed keys (all invalid), and a key that only lower-cases to a registered one
EZ_NEAR = ["performers:a", "performer;a", " performer:a", "replaygain_peak", "replaygain_a_gains", "replaygain-a-gain",
           "xreplaygain_a_gain", "replaygain_a_gain ", "title:", "title:a", "title_", "date:", "musicbrainz_trackid:1", "website:a",
           "trac\u212anumber", "t\u0130tle", "\uff54itle"]
EZID3_KEYS = (sorted(R.EASYID3_KEYCLASS) + ["Title", "TITLE", "ARTIST", "Barcode", "GENRE", "Date", "WEBSITE"] +
              EZID3_SPECIAL + EZ_INVALID + EZID3_WILD_PERF + EZID3_WILD_RG + EZ_NEAR)
EZID3_FAMILIES = [[k for k in EZID3_KEYS if k.lower().startswith("performer")],
                  [k for k in EZID3_KEYS if k.lower().startswith("replaygain")]]
EZMP4_KEYS = (sorted(R.EASYMP4_KEYCLASS) + ["Title", "TITLE", "BPM", "TrackNumber"] + EZ_INVALID + EZ_NEAR +
              ["performer:guitar", "performer:guitar:lead", "replaygain_album_gain", "tracknumber:", "tracknumber/1", "bpm_", "b_p_m",
               "MusicBrainz_TrackId", "musicbrainz_trackid_", "\xa9nam", "----:com.apple.iTunes:MusicBrainz Track Id"])
EZMP4_FAMILIES = [[k for k in EZMP4_KEYS if k.lower().startswith(("title", "ti\u0307", "\uff54"))],
                  [k for k in EZMP4_KEYS if k.lower().startswith(("tracknumber", "trac\u212a", "bpm", "b_p"))],
                  [k for k in EZMP4_KEYS if k.lower().startswith("musicbrainz_trackid")]]
EZMP4_STR = ["a", "b", "3", "3/4", "3/0", "70000", "-5", "70000/1", "a/b", "1/2/3", " 7 ", "", "3.5", "\xe9", "3/", "nan", "1e3",
             "\u0663/4", " ", "/"]


def ez_vals(strs, rng):
    def one():
        r = rng.random()
        if r < 0.2:
            return S(rng.choice(strs))
        if r < 0.75:
            return L(*[S(rng.choice(strs)) for _ in range(rng.choice([0, 1, 1, 1, 2, 3]))])
        return rng.choice([["i", 5], ["i", 1], ["n"], ["B", True], L(["i", 5]), L(["i", 1]), L(["n"]), L(S("a"), ["i", 5]),
                           L(S("\xe9"), ["i", 5]), L(["i", 0], S("a")), ["t", [S("a")]], ["t", []], ["t", [S("a"), S("b")]],
                           ["f", 0.5], L(["f", 0.5])])
    return one


# ------------------------------------------------------------------------------------------------
# the real objects
def _load(name):
    with open(os.path.join(DATA, name), "rb") as f:
        return io.BytesIO(f.read())


class Kind(object):
    def __init__(self, name, make, ref, keys, vals, model_init=None, offers=None, extra_vals=(), native=None, file=False,
                 families=()):
        self.name, self.make, self.ref, self.keys, self.vals = name, make, ref, keys, vals
        self.model_init, self.extra_vals, self.native, self.file = model_init, extra_vals, native, file
        self.offers = offers
        self.families = [f for f in families if len(f) >= 2]     # keys that share a stem (pattern keys, their prefixes, near misses)
        self._rel = {}

    def relatives(self, k):
        """keys of the universe of which k is a proper prefix or that are a proper prefix of k (case-insensitively)"""
        if k not in self._rel:
            lk = k.lower()
            self._rel[k] = [k2 for k2 in self.keys if k2 and lk and k2.lower() != lk and
                            (k2.lower().startswith(lk) or lk.startswith(k2.lower()))]
        return self._rel[k]


def _kinds():
    from mutagen._vorbis import VCommentDict
    from mutagen.flac import FLAC
    from mutagen.oggvorbis import OggVorbis
    from mutagen.apev2 import APEv2, APEv2File
    from mutagen.id3 import ID3
    from mutagen.mp3 import MP3, EasyMP3
    from mutagen.mp4 import MP4, MP4Tags
    from mutagen.easymp4 import EasyMP4, EasyMP4Tags
    from mutagen.asf import ASF, ASFTags
    from mutagen.easyid3 import EasyID3

    def vc_loaded_ref(cls, sample):
        def f(q):
            o = cls(_load(sample))
            inner = R.VCRef()
            inner.load_pairs(list(o.tags))
            return R.FileRef(R.VCRef, inner)
        return f

    def vc_loaded_init(cls, sample):
        return lambda: [(k, v) for k, v in cls(_load(sample)).tags]

    # a comment list in which the values of one key are NOT adjacent (as loaded from such a file, or built through the
    # list interface): ARTIST, TITLE, artist, Album, title
    INTER = [("ARTIST", "a1"), ("TITLE", "t"), ("artist", "a2"), ("Album", "x"), ("title", "t2")]

    def vc_interleaved():
        v = VCommentDict()
        for pair in INTER:
            v.append(pair)
        return v

    def vc_interleaved_ref(q):
        r = R.VCRef()
        r.load_pairs(list(INTER))
        return r

    def asf_loaded_ref(q):
        o = ASF(_load("silence-1.wma"))
        inner = R.ASFRef()
        inner.load_pairs(list(o.tags))
        return R.FileRef(R.ASFRef, inner)

    ks = [
        Kind("vc", VCommentDict, lambda q: R.VCRef(), VC_KEYS, VC_VALS, model_init=lambda: [], extra_vals=VC_VALS_X),
        Kind("fvc", lambda: FLAC(_load("no-tags.flac")), lambda q: R.FileRef(R.VCRef), VC_KEYS, VC_VALS,
             model_init=lambda: None, extra_vals=VC_VALS_X, file=True),
        Kind("fvc_flac", lambda: FLAC(_load("silence-44-s.flac")), vc_loaded_ref(FLAC, "silence-44-s.flac"),
             VC_KEYS + ["date", "DATE"], VC_VALS, model_init=vc_loaded_init(FLAC, "silence-44-s.flac"), file=True),
        Kind("fvc_ogg", lambda: OggVorbis(_load("empty.ogg")), vc_loaded_ref(OggVorbis, "empty.ogg"), VC_KEYS, VC_VALS,
             model_init=vc_loaded_init(OggVorbis, "empty.ogg"), file=True),
        Kind("vc_interleaved", vc_interleaved, vc_interleaved_ref, VC_KEYS + ["Album"], VC_VALS, extra_vals=VC_VALS_X),
        Kind("ape", APEv2, lambda q: R.APERef(), APE_KEYS, APE_VALS, model_init=lambda: []),
        Kind("fape", APEv2File, lambda q: R.FileRef(R.APERef), APE_KEYS, APE_VALS, model_init=lambda: None, file=True),
        Kind("id3", ID3, lambda q: R.ID3Ref(), ID3_KEYS, ID3_VALS, model_init=lambda: []),
        Kind("fid3", MP3, lambda q: R.FileRef(R.ID3Ref), ID3_KEYS, ID3_VALS, model_init=lambda: None, file=True),
        Kind("mp4", MP4Tags, lambda q: R.MP4Ref(), MP4_KEYS, MP4_VALS),
        Kind("fmp4", MP4, lambda q: R.FileRef(R.MP4Ref), MP4_KEYS, MP4_VALS, file=True),
        Kind("asf", ASFTags, lambda q: R.ASFRef(), ASF_KEYS, ASF_VALS),
        Kind("fasf", lambda: ASF(_load("silence-1.wma")), asf_loaded_ref, ASF_KEYS + ["Author", "WM/Year"], ASF_VALS, file=True),
        Kind("ezid3", EasyID3, lambda q: R.EasyID3Ref(q), EZID3_KEYS, EZ_STR, native="id3", families=EZID3_FAMILIES),
        Kind("fezid3", EasyMP3, lambda q: R.FileRef(lambda: R.EasyID3Ref(q)), EZID3_KEYS, EZ_STR, native="id3", file=True,
             families=EZID3_FAMILIES),
        Kind("ezmp4", EasyMP4Tags, lambda q: R.EasyMP4Ref(), EZMP4_KEYS, EZMP4_STR, native="mp4", families=EZMP4_FAMILIES),
        Kind("fezmp4", EasyMP4, lambda q: R.FileRef(R.EasyMP4Ref), EZMP4_KEYS, EZMP4_STR, native="mp4", file=True,
             families=EZMP4_FAMILIES),
    ]
    return dict((k.name, k) for k in ks)


_KINDS = {}


def kinds():
    if not _KINDS:
        _KINDS.update(_kinds())
    return _KINDS


def real_apply(o, op):
    """run one operation on the real object -> ('ok', canonical) | ('exc', class)"""
    n = op[0]
    k = op[1] if len(op) > 1 else None
    try:
        if n == "get":
            return ("ok", cv(o[k]))
        if n == "set":
            o[k] = mk(op[2])
            return ("ok", R.NONE)
        if n == "del":
            del o[k]
            return ("ok", R.NONE)
        if n == "in":
            return ("ok", ["B", bool(k in o)])
        if n == "keys":
            return ("ok", ["keys", sorted(list(o.keys()))])
        if n == "values":
            return ("ok", ["vals", sorted((cv(x) for x in o.values()), key=J)])
        if n == "items":
            return ("ok", ["items", sorted(([a, cv(b)] for a, b in o.items()), key=J)])
        if n == "len":
            return ("ok", ["i", len(o)])
        if n == "clear":
            o.clear()
            return ("ok", R.NONE)
        if n == "getd":
            return ("ok", cv(o.get(k, mk(op[2]))))
        if n == "setdefault":
            return ("ok", cv(o.setdefault(k, mk(op[2]))))
        if n == "pop":
            return ("ok", cv(o.pop(k)))
        if n == "popd":
            return ("ok", cv(o.pop(k, mk(op[2]))))
        if n == "popitem":
            a, b = o.popitem()
            return ("ok", ["t", [["s", a], cv(b)]])
        if n == "update":
            # the argument in every form the mapping protocol allows: a dict, a read-only mapping, a mapping that is not a
            # dict subclass, a list of pairs
            d = dict((kk, mk(vv)) for kk, vv in op[2])
            form = op[3] if len(op) > 3 else "dict"
            if form == "proxy":
                import types
                d = types.MappingProxyType(d)
            elif form == "userdict":
                import collections
                d = collections.UserDict(d)
            elif form == "pairs":
                d = list(d.items())
            o.update(d)
            return ("ok", R.NONE)
        # ID3Tags extras
        if n == "add":
            o.add(mk(op[2]))
            return ("ok", R.NONE)
        if n == "delall":
            o.delall(k)
            return ("ok", R.NONE)
        if n == "getall":
            return ("ok", ["vals", sorted((cv(x) for x in o.getall(k)), key=J)])
        if n == "setall":
            o.setall(k, [mk(x) for x in op[2]])
            return ("ok", R.NONE)
    except Exception as e:
        return ("exc", exc_class(e))
    raise ValueError(n)


def real_state(o):
    """(sorted items, sorted keys) through the public mapping API"""
    try:
        items = sorted(([a, cv(b)] for a, b in o.items()), key=J)
        keys = sorted(list(o.keys()))
    except Exception as e:
        return ("exc", exc_class(e)), None
    return items, keys


def project_id3(id3):
    """independent projection of the wrapped ID3 tag: HashKey -> comparable content"""
    out = {}
    for hk in id3.keys():
        f = id3[hk]
        name = type(f).__name__
        if name == "RVA2":
            out[hk] = [float(f.gain).hex(), float(f.peak).hex()]
        elif name == "TMCL":
            out[hk] = [list(p) for p in f.people]
        elif name == "UFID":
            out[hk] = [f.data.decode("ascii")]
        elif name == "WOAR":
            out[hk] = [f.url]
        elif name in ("TDRC", "TDOR"):
            out[hk] = [s.text for s in f.text]
        else:
            out[hk] = list(f.text)
    return out


def project_mp4(tags):
    out = {}
    for k in tags.keys():
        v = tags[k]
        if k == "tmpo":
            out[k] = R.sl([str(x) for x in v])
        elif k in ("trkn", "disk"):
            out[k] = R.sl(["%d/%d" % (a, b) if b else str(a) for a, b in v])
        elif k.startswith("----"):
            out[k] = R.sl([bytes(x).decode("utf-8", "replace") for x in v])
        else:
            out[k] = cv(v)
    return out


def native_of(kind, o):
    t = o.tags if kind.file else o
    if t is None:
        return None
    if kind.native == "id3":
        return project_id3(t._EasyID3__id3)
    return project_mp4(t._EasyMP4Tags__mp4)


def ref_native(kind, ref):
    r = ref.inner if kind.file else ref
    return None if r is None else r.native()


# ------------------------------------------------------------------------------------------------
# one sequence
QUIRKS_ON = dict.fromkeys(R.QUIRKS, True)
CURRENT_QUIRKS = dict(QUIRKS_ON)


def short(outcome):
    return outcome[1] if outcome[0] == "exc" else "ok"


def run_seq(kind, ops, quirks=None, model=None):
    """-> {'fail': None | dict, 'hits': [(step, class)], 'changed': n, 'trace': [...]}"""
    q = CURRENT_QUIRKS if quirks is None else quirks
    R.ACTIVE = q
    o = kind.make()
    ref = kind.ref(q)
    res = {"fail": None, "hits": [], "trace": [], "model_fail": None}
    prev = None
    for i, op in enumerate(ops):
        a = real_apply(o, op)
        rop = op
        if op[0] == "popitem":
            rop = ["popitem", a[1][1][0][1] if a[0] == "ok" else None]
        b = ref.apply(rop)
        res["trace"].append({"out": a, "changed": True})
        for h in ref.hits:
            res["hits"].append((i, h))
        if a != b:
            what = ("%s %s: return value differs from the reference dictionary" % (kind.name, op[0]) if a[0] == b[0] == "ok" else
                    "%s %s: implementation %s, reference dictionary %s" % (kind.name, op[0], short(a), short(b)))
            res["fail"] = {"step": i, "what": what,
                           "observed": a, "expected": b}
            return res
        items, keys = real_state(o)
        if i == 0 and a[0] == "exc":
            prev = real_state(kind.make())[0]        # the state before the first step: that of a fresh object
        if (a[0] == "exc" and items != prev and "easyid3-failed-set-mutates" not in ref.hits and
                (op[0] in ("set", "setdefault") or (op[0] == "update" and len(op[2]) == 1))):
            # stated without the per-key reference rules: an assignment that raised must not have changed the mapping
            res["fail"] = {"step": i, "what": "%s: a rejected %s (%s) changed the mapping" % (kind.name, op[0], a[1]),
                           "observed": items, "expected": prev}
            return res
        rstate = ref.state()
        for h in ref.hits:
            if (i, h) not in res["hits"]:
                res["hits"].append((i, h))
        if items != rstate:
            res["fail"] = {"step": i, "what": "%s: items() after %s differ from the reference dictionary" % (kind.name, op[0]),
                           "observed": items, "expected": rstate}
            return res
        if keys != sorted(x[0] for x in rstate):
            res["fail"] = {"step": i, "what": "%s: keys() after %s inconsistent with items()" % (kind.name, op[0]),
                           "observed": keys, "expected": sorted(x[0] for x in rstate)}
            return res
        if kind.native:
            na, nb = native_of(kind, o), ref_native(kind, ref)
            if na != nb:
                res["fail"] = {"step": i, "what": "%s: wrapped native tags inconsistent with the Easy view after %s" % (kind.name, op[0]),
                               "observed": na, "expected": nb}
                return res
        res["trace"][-1]["changed"] = items != prev
        prev = items
    if model is not None and kind.name in M.MODEL_KINDS:
        res["model_fail"] = model_compare(kind, ops, [t["out"] for t in res["trace"]], model)
    return res


def model_tokens(kind, ops):
    mkind = M.MODEL_KINDS[kind.name]
    fam = M.fam_of(mkind)
    toks = [M.op_tok(fam, op) for op in ops]
    if any(t is None for t in toks):
        return None
    init = kind.model_init()
    if init is None:
        it = "N"
    elif fam == "vc":
        if any(not isinstance(v, str) for k, v in init):
            return None
        it = M.init_tok(mkind, init)
    else:
        it = "-"
    return mkind, fam, it, toks


def model_compare(kind, ops, outcomes, model):
    mt = model_tokens(kind, ops)
    if mt is None:
        return None
    mkind, fam, it, toks = mt
    reply = model.call("dict_run", mkind, it, *toks)
    got = reply.split(" ") if reply else []
    if reply.startswith("error") or len(got) != len(ops):
        return {"step": -1, "what": "model reply: %s" % reply[:200]}
    for i, (op, out) in enumerate(zip(ops, outcomes)):
        want = M.expect_tok(fam, op, out)
        if want is None:
            continue
        if M.norm_tok(got[i]) != M.norm_tok(want):
            return {"step": i, "what": "%s %s: implementation %s, Coq model %s" % (kind.name, op[0], want[:80], got[i][:80])}
    return {"ok": True, "reply": reply, "tokens": (mkind, fam, it, toks)}


# ------------------------------------------------------------------------------------------------
# generation
OPS_W = [("set", 24), ("get", 9), ("del", 10), ("in", 8), ("keys", 3), ("values", 2), ("items", 2), ("len", 3), ("clear", 1),
         ("getd", 5), ("setdefault", 8), ("pop", 6), ("popd", 4), ("popitem", 3), ("update", 6)]
ID3_EXTRA = [("add", 8), ("delall", 4), ("getall", 4), ("setall", 3)]


def gen_seq(kind, rng, maxlen, with_model, extra=False):
    ref = kind.ref(CURRENT_QUIRKS)
    offers = ref.offers
    table = [(n, w) for n, w in OPS_W if n in offers]
    if extra and kind.name == "id3":
        table += ID3_EXTRA
    if with_model and kind.name.startswith("fvc"):
        table = [(n, w) for n, w in table if n != "popitem"]      # set order: the popped key is hash dependent
    names = [n for n, w in table for _ in range(w)]
    if kind.families and rng.random() < 0.4:
        # one family of pattern keys: a key, its prefixes / extensions, its case variants and near misses, all live at once
        fam = rng.choice(kind.families)
        focus = rng.sample(fam, min(len(fam), rng.randrange(2, 7)))
        if rng.random() < 0.5:
            focus.append(rng.choice(kind.keys))
    else:
        focus = [rng.choice(kind.keys) for _ in range(rng.randrange(2, 6))]
    # case variants of a focus key make the interesting interleavings
    focus += [k2 for k in focus for k2 in kind.keys if k2.lower() == k.lower() and k2 != k][:3]
    if kind.native:
        # so do keys that extend / are a prefix of a focus key ('performer:guitar' next to 'performer:guitar:lead')
        rel = [k2 for k in focus for k2 in kind.relatives(k) if k2 not in focus]
        if rel:
            focus += rng.sample(rel, min(len(rel), 3))
    if kind.native:
        vgen = ez_vals(kind.vals, rng)
    else:
        pool = list(kind.vals) + (list(kind.extra_vals) if extra else [])
        vgen = lambda: rng.choice(pool)

    def key():
        return rng.choice(focus) if rng.random() < 0.8 else rng.choice(kind.keys)
    ops = []
    for _ in range(rng.randrange(1, maxlen + 1)):
        n = rng.choice(names)
        if n in ("keys", "values", "items", "len", "clear", "popitem"):
            ops.append([n])
        elif n in ("get", "del", "in", "pop", "delall", "getall"):
            ops.append([n, key()])
        elif n in ("set", "getd", "setdefault", "popd"):
            ops.append([n, key(), vgen()])
        elif n == "update":
            ks = []
            for _ in range(rng.randrange(0, 4)):
                k = key()
                if k not in ks:
                    ks.append(k)
            ops.append([n, None, [[k, vgen()] for k in ks], rng.choice(["dict", "dict", "proxy", "userdict", "pairs"])])
        elif n == "add":
            ops.append([n, None, rng.choice(ID3_VALS)])
        elif n == "setall":
            ops.append([n, key(), [rng.choice(ID3_VALS[:len(FRAME_SPECS)]) for _ in range(rng.randrange(0, 3))]])
    return ops


def ddmin(ops, test):
    """delta debugging: a 1-minimal sub-sequence on which test() still holds"""
    n = 2
    while len(ops) >= 2:
        chunk = max(1, len(ops) // n)
        subsets = [ops[i:i + chunk] for i in range(0, len(ops), chunk)]
        reduced = False
        for i in range(len(subsets)):
            comp = [x for j, s in enumerate(subsets) if j != i for x in s]
            if comp and test(comp):
                ops, n, reduced = comp, max(n - 1, 2), True
                break
        if not reduced:
            if chunk == 1:
                break
            n = min(len(ops), n * 2)
    return shrink_updates(ops, test)


def shrink_updates(ops, test):
    """also drop single pairs of update() arguments and frames of setall()"""
    changed = True
    while changed:
        changed = False
        for i, op in enumerate(ops):
            if op[0] in ("update", "setall") and len(op[2]) > 1:
                for j in range(len(op[2])):
                    cand = ops[:i] + [[op[0], op[1], op[2][:j] + op[2][j + 1:]] + list(op[3:])] + ops[i + 1:]
                    if test(cand):
                        ops, changed = cand, True
                        break
            if changed:
                break
    return ops


def key_class(kind, k):
    if k is None:
        return "-"
    if kind.native == "id3":
        try:
            return R.EasyID3Ref().kc(k)[0]
        except R.RefExc:
            return "invalid"
    return "k%d" % (kind.keys.index(k) if k in kind.keys else -1)


KNOWN_WHAT = {
    "easyid3-del-absent-website": "EasyID3: del ez['website'] on an absent key raises no KeyError",
    "easyid3-del-absent-replaygain": "EasyID3: del ez['replaygain_*_gain'/'replaygain_*_peak'] on an absent key raises no KeyError",
    "easyid3-wildcard-case": "EasyID3: the wildcard part of 'performer:*' / 'replaygain_*_*' keys is case-sensitive (membership differs between case variants of one key)",
    "easyid3-failed-set-mutates": "EasyID3: a rejected ez['website'] / ez['replaygain_*_gain'] assignment changes the mapping before raising",
    "easyid3-pattern-key-duplicate": "EasyID3: keys() lists 'replaygain_*_peak' twice once the literal key 'replaygain_*_gain' is set",
    "dictmixin-update-masks-attributeerror": "DictMixin.update: an AttributeError raised by __setitem__ is swallowed and the dict's keys are re-iterated as pairs (ValueError instead)",
}


class Driver(object):
    def __init__(self, ctx):
        self.ctx = ctx
        self.hit_examples = {}       # class -> (kind name, ops prefix)
        self.reported = set()
        self.vm_pool = []

    def one(self, kind, ops, with_model):
        ctx = self.ctx
        model = ctx.model if with_model else None
        res = run_seq(kind, ops, model=model)
        if res["fail"]:
            # the code may have been FIXED for a known deviation class: look for the documented variant that matches
            alt = self.try_alternatives(kind, ops)
            if alt is not None:
                res = run_seq(kind, ops, model=model)
        ctx.count("seq:" + kind.name)
        for i, t in enumerate(res["trace"]):
            out, changed = t["out"], t["changed"]
            op = ops[i]
            nontrivial = changed or out[0] == "exc"
            ctx.case((kind.name, op[0], key_class(kind, op[1] if len(op) > 1 else None), short(out)) if nontrivial else None,
                     {"kind": kind.name, "op": op, "outcome": out} if ctx.evaluations % 997 == 0 else None)
            ctx.count("op:" + op[0])
            ctx.count("outcome:" + short(out))
        ctx.oracle_cases += len(res["trace"])
        for i, h in res["hits"]:
            if h not in self.hit_examples or len(self.hit_examples[h][1]) > i + 1:
                self.hit_examples[h] = (kind.name, ops[:i + 1])
        if res["fail"]:
            self.report_failure(kind, ops, res["fail"])
        mf = res.get("model_fail")
        if mf is not None:
            if mf.get("ok"):
                ctx.corr_cases += len(ops)
                ctx.count("corr:" + kind.name)
                if len(ops) <= 14 and len(self.vm_pool) < 400:
                    self.vm_pool.append(mf)
            elif len(ctx.disagreements) < 5:
                small = ddmin(ops, lambda s: (lambda r: r["fail"] is None and r["model_fail"] is not None and not r["model_fail"].get("ok"))(run_seq(kind, s, model=ctx.model)))
                r2 = run_seq(kind, small, model=ctx.model)
                ctx.disagree("c16.model", (r2["model_fail"] or mf)["what"], {"kind": kind.name, "ops": small})
        return res

    def try_alternatives(self, kind, ops):
        global CURRENT_QUIRKS
        if not kind.native:
            return None
        on = [c for c in R.QUIRKS if CURRENT_QUIRKS[c]]
        for n in range(1, len(on) + 1):
            for off in itertools.combinations(on, n):
                q = dict(CURRENT_QUIRKS)
                for c in off:
                    q[c] = False
                if run_seq(kind, ops, quirks=q)["fail"] is None:
                    CURRENT_QUIRKS = q
                    self.ctx.notes.setdefault("deviation_classes_no_longer_present", []).extend(off)
                    for c in off:
                        self.hit_examples.pop(c, None)
                    return q
        return None

    def report_failure(self, kind, ops, fail):
        what = fail["what"]
        if what in self.reported or len(self.reported) >= 8:
            return
        self.reported.add(what)
        small = ddmin(ops[:fail["step"] + 1], lambda s: (lambda r: r["fail"] is not None and r["fail"]["what"] == what)(run_seq(kind, s)))
        f2 = run_seq(kind, small)["fail"] or fail
        self.ctx.violation("oracle", what, {"runner": "c16.seq", "class": "mapping-semantics", "kind": kind.name, "ops": small,
                                            "step": f2["step"], "observed": f2["observed"], "expected": f2["expected"]})

    def report_known(self):
        for cls, (kname, ops) in sorted(self.hit_examples.items()):
            if not CURRENT_QUIRKS.get(cls):
                continue
            kind = kinds()[kname]

            def still(s, cls=cls, kind=kind):
                r = run_seq(kind, s)
                return r["fail"] is None and any(h == cls for _, h in r["hits"])
            small = ddmin(ops, still)
            self.ctx.violation("oracle", KNOWN_WHAT[cls], {"runner": "c16.seq", "class": cls, "kind": kname, "ops": small})


def campaign(ctx, drv, nseq, maxlen, model_share=0.6):
    rng = ctx.rng
    for kname, kind in kinds().items():
        for j in range(nseq):
            has_model = kname in M.MODEL_KINDS
            with_model = has_model and rng.random() < model_share
            ops = gen_seq(kind, rng, maxlen, with_model, extra=not with_model and rng.random() < 0.5)
            drv.one(kind, ops, with_model)
            if len(drv.reported) >= 8:
                return


def directed(ctx, drv):
    """the documented examples and the known deviations, as fixed sequences (always exercised)"""
    K = kinds()
    seqs = [
        ("vc", [["set", "Title", L(S("a"))], ["in", "TITLE"], ["del", "TITLE"], ["get", "title"], ["setdefault", "TiTle", S("x")],
                ["update", None, [["TITLE", L(S("p"), S("q"))], ["artist", S("z")]]], ["get", "title"], ["set", "a=b", S("a")],
                ["in", "a=b"], ["items"], ["len"], ["set", "artist", L()], ["keys"], ["clear"], ["keys"]], True),
        ("fvc", [["get", "a=b"], ["in", "title"], ["pop", "title"], ["set", "a=b", S("x")], ["get", "a=b"], ["set", "Title", L(S("a"), S("x"))],
                 ["pop", "TITLE"], ["popd", "title", S("z")], ["items"]], True),
        ("ape", [["set", "Title", S("a")], ["in", "TITLE"], ["keys"], ["set", "title", L(S("p"), S("q"))], ["keys"], ["get", "TiTle"],
                 ["del", "TITLE"], ["get", "title"], ["set", "TAG", S("a")], ["in", "TAG"], ["set", "a", S("a")],
                 ["set", "artist", L(S("a"), ["i", 5])], ["setdefault", "Artist", ["b", "00ff"]], ["popitem"], ["len"]], True),
        ("id3", [["set", "TIT2", ["frame", 0]], ["set", "tit2", ["frame", 1]], ["keys"], ["set", "TPE1", S("a")], ["add", None, ["frame", 3]],
                 ["add", None, ["frame", 4]], ["getall", "TXXX"], ["delall", "TXXX"], ["keys"], ["pop", "TIT2"], ["items"]], False),
        ("ezid3", [["set", "Title", L(S("x"))], ["get", "TITLE"], ["del", "website"], ["del", "replaygain_album_gain"],
                   ["set", "performer:guitar", L(S("x"))], ["in", "PERFORMER:Guitar"], ["set", "replaygain_album_gain", L(S("1.5 dB"))],
                   ["keys"], ["set", "date", L(S("a"))], ["get", "date"], ["set", "website", L(S("http://a"))], ["set", "website", ["i", 5]],
                   ["set", "replaygain_*_gain", L(S("1 dB"))], ["keys"],
                   ["update", None, [["replaygain_track_gain", L(["i", 1])]]], ["items"]], False),
        ("ezmp4", [["set", "Title", L(S("x"))], ["get", "TITLE"], ["set", "bpm", L(S("70000"))], ["get", "bpm"],
                   ["set", "tracknumber", L(S("3/4"))], ["get", "TrackNumber"], ["del", "nosuchkey"], ["items"]], False),
    ]
    for kname, ops, wm in seqs:
        drv.one(K[kname], ops, wm)


# values offered to every Easy key with a setter: every class a setter with validation may reject (not a list, wrong item
# types, wrong list lengths, non-ASCII / unparsable / out-of-range content) -- many keys accept some of them, which is fine
SWEEP_VALS = [["i", 5], ["n"], ["B", True], ["f", 1.5], ["t", [S("a")]], ["t", []], L(), L(S("a"), S("b")), L(S("1 dB"), S("2 dB")),
              L(S("0.5"), S("0.25")), L(["i", 5]), L(["n"]), L(["f", 0.5]), L(S("a"), ["i", 5]), L(["i", 5], S("a")), L(S("\xe9")),
              L(S("\u30ae")), L(S("a\xe9"), ["i", 5]), L(S("")), L(S(" ")), L(S("x")), L(S("dB")), L(S("100 dB")), L(S("-64.5 dB")),
              L(S("2")), L(S("-0.5")), L(S("nan")), L(S("1e400")), L(S("3/0")), L(S("a/b")), L(S("70000/70000")),
              S("\xe9"), S(""), S("100 dB"), S("2.5")]
SWEEP_GOOD = [L(S("a")), L(S("1.5 dB")), L(S("0.5")), L(S("3/4")), L(S("7"))]


def rejected_sweep(ctx, drv, kname, share=1.0):
    """EVERY key of the Easy universe that has a setter x EVERY value class above x (key absent | key present | key and a
    relative present): the outcome must be the reference's, and a rejected assignment must leave the mapping as it was
    (run_seq); set, setdefault and a one-pair update take turns"""
    kind = kinds()[kname]
    rng = ctx.rng
    seen = set()
    for key in kind.keys:
        if key in seen:
            continue
        seen.add(key)
        good = None
        for g in SWEEP_GOOD:
            R.ACTIVE = CURRENT_QUIRKS
            ref = kind.ref(CURRENT_QUIRKS)
            if ref.apply(["set", key, g])[0] == "ok" and ref.apply(["in", key]) == ("ok", ["B", True]):
                good = g
                break
        if good is None:
            continue                                  # no setter / invalid key: covered by the random campaign
        rel = [k2 for k2 in kind.relatives(key) if kind.ref(CURRENT_QUIRKS).apply(["set", k2, good])[0] == "ok"]
        for j, bad in enumerate(SWEEP_VALS):
            if share < 1.0 and rng.random() > share:
                continue
            how = ("set", "setdefault", "update")[j % 3]
            last = [how, None, [[key, bad]]] if how == "update" else [how, key, bad]
            pres = [[], [["set", key, good]]]
            if rel and j % 2 == 0:
                pres.append([["set", rng.choice(rel), good], ["set", key, good]])
            for pre in pres:
                if how == "setdefault" and pre:
                    pre = pre[:-1] + [["set", key, good], ["del", key]]
                drv.one(kind, pre + [last], False)
                if len(drv.reported) >= 8:
                    return


def registered_overlap(ctx):
    """keys an application registers by exact name while a glob registered EARLIER also matches them (the documented registry:
    'the key may be either a string or a glob pattern'): every mapping operation on the exact key goes to ITS handlers -- the
    Easy view follows a plain dictionary and the wrapped native tags hold the frame / atom the registration names, never the
    glob's -- and the glob keeps serving its other keys.  Runs on subclasses with their own registry copies."""
    from mutagen.easyid3 import EasyID3
    from mutagen.easymp4 import EasyMP4Tags

    def sub(base):
        class E(base):
            pass
        for n in ("Get", "Set", "Delete", "List"):
            setattr(E, n, dict(getattr(base, n)))
        E.valid_keys = E.Get
        return E
    E3 = sub(EasyID3)
    E3.RegisterTXXXKey("Performer:Special", "SPECIAL")        # registration is case-insensitive too
    E3.RegisterTXXXKey("replaygain_special_gain", "RGSPECIAL")
    E3.RegisterTextKey("performer:text", "TOFN")
    E4 = sub(EasyMP4Tags)

    def xg(tags, key): return [b.decode("utf-8") for b in tags["----:com.apple.iTunes:" + key.upper()]]
    def xs(tags, key, value): tags["----:com.apple.iTunes:" + key.upper()] = [v.encode("utf-8") for v in value]
    def xd(tags, key): del tags["----:com.apple.iTunes:" + key.upper()]
    def xl(tags, key): return [k.split(":")[-1].lower() for k in tags.keys() if k.startswith("----:com.apple.iTunes:X-")]
    E4.RegisterKey("x-*", xg, xs, xd, xl)
    E4.RegisterTextKey("X-Special", "\xa9spc")
    E4.RegisterFreeformKey("X-Free", "Exact Free")

    def native3(o):
        i = o._EasyID3__id3
        return dict((hk, list(getattr(i[hk], "text", None) or [list(p) for p in getattr(i[hk], "people", [])] or ["?"])) for hk in i.keys())

    def native4(o):
        t = o._EasyMP4Tags__mp4
        return dict((k, [x.decode("utf-8") if isinstance(x, bytes) else x for x in t[k]]) for k in t.keys())
    plans = [
        ("ezid3", E3, native3, [("performer:special", "TXXX:SPECIAL"), ("replaygain_special_gain", "TXXX:RGSPECIAL"), ("performer:text", "TOFN")],
         ("performer:other", lambda nat, v: nat.get("TMCL") == [["other", x] for x in v])),
        ("ezmp4", E4, native4, [("x-special", "\xa9spc"), ("x-free", "----:com.apple.iTunes:Exact Free")],
         ("x-other", lambda nat, v: nat.get("----:com.apple.iTunes:X-OTHER") == v)),
    ]
    vals = [["a"], ["a", "b"], ["1.5 dB"], ["free text, two", "values"], "single"]
    for kname, E, native, exact, (globkey, glob_ok) in plans:
        for key, where in exact:
            for casing in (key, key.upper(), key.title()):
                for v in vals:
                    for how in ("set", "setdefault", "update"):
                        o = E()
                        ref = {}
                        want = [v] if isinstance(v, str) else list(v)
                        d = {"runner": "c16.registered", "class": "mapping-semantics", "kind": kname, "key": casing, "value": v, "how": how}
                        ctx.oracle_cases += 1
                        ctx.count("registered-overlap:" + kname)
                        ctx.case((kname, "registered", key, casing == key, how, len(want)))
                        try:
                            o[globkey] = ["g"]
                            if how == "set":
                                o[casing] = v
                            elif how == "setdefault":
                                o.setdefault(casing, v)
                            else:
                                o.update({casing: v})
                            ref[key] = want
                            got = (o[key], o[casing.swapcase()], key in o, casing in o, sorted(o.keys()), o.get(casing, None))
                            exp = (want, want, True, True, sorted([key, globkey]), want)
                            nat = native(o)
                            if got != exp:
                                ctx.violation("oracle", "%s: a key registered by exact name (%r) that an earlier glob also matches does not behave like a dictionary key after %s" % (kname, key, how),
                                              dict(d, observed=repr(got)[:300], expected=repr(exp)[:300]))
                                return
                            if nat.get(where) != want or not glob_ok(nat, ["g"]) or len(nat) != 2:
                                ctx.violation("oracle", "%s: wrapped native tags inconsistent with the Easy view: %r is registered for %s but the native tags are %r" % (kname, key, where, nat), d)
                                return
                            popped = o.pop(casing)
                            if popped != want or key in o or where in native(o) or sorted(o.keys()) != [globkey] or not glob_ok(native(o), ["g"]):
                                ctx.violation("oracle", "%s: pop of a key registered by exact name (%r) next to a matching glob: returned %r, left %r" % (kname, key, popped, native(o)), d)
                                return
                            try:
                                del o[casing]
                                ctx.violation("oracle", "%s: del of an absent key registered by exact name (%r) raised no KeyError" % (kname, key), d)
                                return
                            except KeyError:
                                pass
                        except Exception as e:
                            ctx.violation("oracle", "%s: operations on a key registered by exact name (%r) next to a matching glob raised %s" % (kname, key, type(e).__name__),
                                          dict(d, error=str(e)[:200]))
                            return


def vm_crosscheck(ctx, drv, n=30):
    pool = drv.vm_pool
    ctx.rng.shuffle(pool)
    chosen, seen = [], set()
    for mf in pool:
        mkind, fam, it, toks = mf["tokens"]
        if (mkind, tuple(toks)) in seen:
            continue
        seen.add((mkind, tuple(toks)))
        chosen.append(mf)
        if len(chosen) >= n:
            break
    if not chosen:
        ctx.disagree("c16.vm_shard", "no model sequences available for the vm_compute cross-check", {})
        return
    cases = [M.coq_case(mf["tokens"][0], mf["tokens"][2], mf["tokens"][3]) for mf in chosen]
    res, log = vm_shard("c16", M.VM_PREAMBLE, cases)
    if res is None or len(res) != len(cases):
        ctx.disagree("c16.vm_shard", "vm_compute shard failed to run: %s" % (log,), {})
        return
    for mf, r in zip(chosen, res):
        ctx.vm_cases += 1
        got = M.parse_zlist(r)
        want = M.reply_ints(mf["tokens"][1], mf["reply"])
        if got != want:
            ctx.disagree("c16.vm_shard", "extracted binary and vm_compute differ on %r" % (mf["tokens"],), {})
            return


def run(ctx):
    global CURRENT_QUIRKS
    CURRENT_QUIRKS = dict(QUIRKS_ON)
    drv = Driver(ctx)
    directed(ctx, drv)
    registered_overlap(ctx)
    for kname in ("ezid3", "ezmp4"):
        rejected_sweep(ctx, drv, kname)
    for kname in ("fezid3", "fezmp4"):
        rejected_sweep(ctx, drv, kname, share=1.0 if ctx.thorough else 0.15)
    if ctx.thorough:
        campaign(ctx, drv, 600, 40)
        campaign(ctx, drv, 40, 400)
    else:
        campaign(ctx, drv, 300, 40)
    drv.report_known()
    vm_crosscheck(ctx, drv)
    ctx.notes["quirk_mode"] = dict(CURRENT_QUIRKS)


def search(ctx, broken):
    """a proof or the correspondence broke: larger-budget search of the implementation for a failing sequence"""
    before = len(ctx.violations)
    drv = Driver(ctx)
    campaign(ctx, drv, 150, 30, model_share=0.0)
    ctx.notes["search"] = "%d extra random sequences per kind (reference dictionaries only) found %d failing inputs" % (150, len(ctx.violations) - before)


def replay(ctx, payload):
    d = payload.get("data", {})
    if d.get("runner") == "c16.registered":
        registered_overlap(ctx)
        return bool(ctx.violations)
    if payload.get("kind") != "failing-input" or "ops" not in d or d.get("kind") not in kinds():
        run(ctx)
        return bool(ctx.violations or ctx.disagreements)
    kind = kinds()[d["kind"]]
    r = run_seq(kind, d["ops"], quirks=dict(QUIRKS_ON))
    cls = d.get("class")
    if cls in R.QUIRKS:
        return r["fail"] is None and any(h == cls for _, h in r["hits"])
    return r["fail"] is not None


def coverage_extra(ctx):
    return {"kinds": sorted(kinds()),
            "model_kinds": sorted(M.MODEL_KINDS),
            "exhaustive": False}
