"""C11 -- resize_bytes family: proofs over the generated Gen_util.v; correspondence of the generated
model (extracted) with mutagen._util on exhaustive small domains; direct slice-based oracle on the real
functions incl. the real 1 MiB buffer."""
import io, os, sys, itertools, tempfile
from common import zs, hx, unhx, coq_bytes, vm_shard, VERIF

PROP = "C11"
PROP_FILES = ["props/C11.v"]
TRUSTED = [
    "modelled rather than verified: the file object (Base.FileModel: BytesIO / real-file seek semantics); tied by the exhaustive correspondence below",
    "Gen_util.v is regenerated from mutagen/_util.py (resize_file move_bytes insert_bytes delete_bytes resize_bytes) on every run",
]
MANIFEST = {
    "text": "full: theorems over the Gallina code regenerated from mutagen/_util.py on every run, for every file content, offset, old/new size, "
            "copy-buffer size >= 1 and both seek flavours: prefix/retained region/suffix preserved, rejects leave the file unmodified; "
            "the regenerated model is tied to the implementation by an exhaustive small-domain correspondence (bytes, exception class, position)",
    "note": "Modelled, not verified: the file object semantics (Base.FileModel), tied by correspondence on BytesIO and a real file. "
            "OS-level behaviour of real files (sparse growth, partial writes) is outside the model (see C19).",
    "technique": "Coq proof (loop invariants by induction over chunk count) over py2v-generated Gallina + exhaustive correspondence via extracted OCaml model",
    "design_ref": "DESIGN.md section 5, C11",
}
RULE = ("correspondence: every (len f <= L, args in -1..len+1, BUF) tuple for the five functions, final bytes + exception class + final "
        "position compared between mutagen._util on BytesIO (and a real file for a sample) and the extracted generated model; "
        "direct oracle: slice-based reference on the real functions (patched small buffers, the real 2**20 buffer, explicit buffer sizes ABOVE 2**20, "
        "and contents with NUL runs / constant bytes / repeated blocks so that byte values cannot matter; real file handles in every state a caller may "
        "leave them in -- buffered with appended or overwritten bytes not yet flushed, unbuffered -- exhaustively over the small argument space, judged on what the "
        "handle reads back and on the file on disk after closing). "
        "non-trivial = the call moved at least one byte or was rejected; distinct by (function, file length, arguments, BUF)")


def _impl():
    import mutagen._util as U
    return U


class patched_buf:
    def __init__(self, U, buf):
        self.U, self.buf = U, buf

    def __enter__(self):
        self.saved = {}
        for n in ("resize_file", "move_bytes", "insert_bytes", "delete_bytes"):
            fn = getattr(self.U, n)
            self.saved[n] = fn.__defaults__
            fn.__defaults__ = (self.buf,)

    def __exit__(self, *a):
        for n, d in self.saved.items():
            getattr(self.U, n).__defaults__ = d


def run_impl(U, fn, data, args, fobj=None):
    f = fobj or io.BytesIO(bytes(data))
    try:
        getattr(U, fn)(f, *args)
        res = "ok"
    except ValueError:
        res = "raise ValueError"
    except OSError as e:
        res = "raise OSError:%s" % (e.errno or 0)
    except Exception as e:
        res = "raise " + type(e).__name__
    pos = f.tell()
    f.seek(0)
    return res, pos, f.read()


def run_model(ctx, fn, data, args, buf, real=0):
    r = ctx.model.call("util", fn, str(real), "-", "0", "-", "-", zs(buf), "0", hx(data), *[zs(a) for a in args])
    if r.startswith("error"):
        return r, None, None
    parts = r.split(" ")
    # ok pos=.. data=..   |  raise X pos=.. data=..
    d = unhx(parts[-1].split("=", 1)[1])
    pos = int(parts[-2].split("=", 1)[1], 16)
    res = " ".join(parts[:-2])
    return res, pos, d


def reference(fn, data, args):
    """slice-based reference: returns ('ok', constraints) or 'raise ValueError' (file unchanged)."""
    n = len(data)
    if fn == "resize_bytes":
        old, new, off = args
        if old < 0 or new < 0 or off < 0:
            return "raise"
        if new == old:
            return ("same",)
        if off + old > n:
            return "raise"
        k = min(old, new)
        return ("resize", data[:off + k], data[off + old:], n + new - old, off + new)
    if fn == "insert_bytes":
        size, off = args
        if size < 0 or off < 0 or off > n:
            return "raise"
        return ("resize", data[:off], data[off:], n + size, off + size)
    if fn == "delete_bytes":
        size, off = args
        if size < 0 or off < 0 or off + size > n:
            return "raise"
        return ("exact", data[:off] + data[off + size:])
    if fn == "move_bytes":
        dest, src, count = args
        if dest < 0 or src < 0 or count < 0 or max(dest, src) + count > n:
            return "raise"
        return ("exact", data[:dest] + data[src:src + count] + data[dest + count:])
    if fn == "resize_file":
        diff, = args
        if n + diff < 0:
            return "raise"
        return ("exact", data[:n + diff] if diff < 0 else data + b"\0" * diff)


def oracle_check(ctx, fn, data, args, buf, res, out, tag):
    ref = reference(fn, data, args)
    ok = True
    why = ""
    if ref == "raise":
        if res != "raise ValueError":
            ok, why = False, "out-of-range request not rejected (%s)" % res
        elif out != data:
            ok, why = False, "rejected request modified the file"
    elif ref[0] == "same":
        if res != "ok" or out != data:
            ok, why = False, "same-size resize changed the file or failed (%s)" % res
    elif res != "ok":
        ok, why = False, "valid request failed: %s" % res
    elif ref[0] == "exact":
        if out != ref[1]:
            ok, why = False, "result differs from slice reference"
    else:
        _, prefix, suffix, newlen, cut = ref
        if len(out) != newlen or out[:len(prefix)] != prefix or out[cut:] != suffix:
            ok, why = False, "prefix/suffix/length differ from slice reference"
    if not ok:
        ctx.violation("oracle", "%s: %s" % (fn, why),
                      {"runner": "c11.oracle", "fn": fn, "data": data.hex() if len(data) <= 64 else "len:%d" % len(data),
                       "pattern": tag, "args": list(args), "buf": buf, "observed": res})
    return ok


def arg_space(fn, n):
    rng = range(-1, n + 2)
    if fn == "resize_bytes":
        return itertools.product(range(-1, n + 2), range(-1, n + 3), rng)
    if fn in ("insert_bytes", "delete_bytes"):
        return itertools.product(range(-1, n + 2), rng)
    if fn == "move_bytes":
        return itertools.product(rng, rng, range(-1, n + 2))
    return ((d,) for d in range(-n - 1, n + 3))


def correspondence(ctx, maxlen, bufs):
    U = _impl()
    for buf in bufs:
        with patched_buf(U, buf):
            for n in range(0, maxlen + 1):
                data = bytes(range(1, n + 1))
                for fn in ("resize_bytes", "insert_bytes", "delete_bytes", "move_bytes", "resize_file"):
                    for args in arg_space(fn, n):
                        ri, pi, di = run_impl(U, fn, data, args)
                        rm, pm, dm = run_model(ctx, fn, data, args, buf)
                        ctx.corr_cases += 1
                        ctx.count("corr:" + fn)
                        ctx.count("corr-outcome:" + ri.split(":")[0])
                        moved = di != data or ri != "ok"
                        ctx.case((fn, n, args, buf) if moved else None,
                                 {"fn": fn, "len": n, "args": args, "buf": buf, "impl": [ri, pi, di.hex()]} if moved and ctx.evaluations % 4001 == 0 else None)
                        if (ri, pi, di) != (rm, pm, dm):
                            if len(ctx.disagreements) < 5:
                                ctx.disagree("c11.util", "%s%r buf=%d on %d bytes: impl=%s model=%s" % (fn, args, buf, n, (ri, pi, di.hex()), (rm, pm, dm.hex() if dm is not None else None)),
                                             {"fn": fn, "data": data.hex(), "args": list(args), "buf": buf})
                        oracle_check(ctx, fn, data, args, buf, ri, di, "range")
                        ctx.oracle_cases += 1
    # a sample through a real file object (seek flavour 'real')
    with patched_buf(U, 3):
        with tempfile.TemporaryFile() as tf:
            for n in (0, 5, 8):
                data = bytes(range(1, n + 1))
                for fn in ("resize_bytes", "move_bytes"):
                    for args in arg_space(fn, n):
                        tf.seek(0); tf.truncate(0); tf.write(data); tf.flush(); tf.seek(0)
                        ri, pi, di = run_impl(U, fn, data, args, fobj=tf)
                        rm, pm, dm = run_model(ctx, fn, data, args, 3, real=1)
                        ctx.corr_cases += 1
                        ctx.count("corr-realfile:" + fn)
                        ctx.case(("real", fn, n, args) if di != data or ri != "ok" else None)
                        if (ri, pi, di) != (rm, pm, dm) and len(ctx.disagreements) < 5:
                            ctx.disagree("c11.util.realfile", "%s%r on %d bytes: impl=%s model=%s" % (fn, args, n, (ri, pi), (rm, pm)),
                                         {"fn": fn, "data": data.hex(), "args": list(args), "buf": 3, "real": 1})


def lattice(buf):
    s = set()
    for k in (0, 1, buf - 1, buf, buf + 1, 2 * buf - 1, 2 * buf, 2 * buf + 1):
        if k >= 0:
            s.add(k)
    return sorted(s)


def direct_oracle(ctx, bufs, real_buffer, budget):
    """boundary lattice around k*BUF for movesize / offset / size deltas, on the real functions"""
    U = _impl()
    rng = ctx.rng
    done = 0
    for buf in bufs:
        lat = lattice(buf)
        combos = [(off, old, new, tail) for off in lat for old in lat for new in lat for tail in lat if old != new]
        rng.shuffle(combos)
        with patched_buf(U, buf):
            for off, old, new, tail in combos[:budget]:
                data = bytes(rng.getrandbits(8) for _ in range(off + old + tail))
                ri, pi, di = run_impl(U, "resize_bytes", data, (old, new, off))
                oracle_check(ctx, "resize_bytes", data, (old, new, off), buf, ri, di, "lattice")
                ctx.oracle_cases += 1
                ctx.count("oracle:lattice-buf%d" % buf)
                ctx.case(("lat", buf, off, old, new, tail))
                done += 1
    if real_buffer:
        buf = U._DEFAULT_BUFFER_SIZE
        lat = [0, 1, buf - 1, buf, buf + 1, 2 * buf + 1]
        combos = [(off, old, new, tail) for off in (0, 7, buf) for old in lat for new in lat for tail in lat if old != new]
        rng.shuffle(combos)
        base = os.urandom(1 << 16)
        for off, old, new, tail in combos[:real_buffer]:
            n = off + old + tail
            data = (base * (n // len(base) + 1))[:n]
            ri, pi, di = run_impl(U, "resize_bytes", data, (old, new, off))
            oracle_check(ctx, "resize_bytes", data, (old, new, off), buf, ri, di, "lattice-real-buffer")
            ctx.oracle_cases += 1
            ctx.count("oracle:real-2^20-buffer")
            ctx.case(("real", off, old, new, tail))


def content_sensitive(ctx, bufs=(1, 2, 3, 4), maxlen=9):
    """the byte VALUES must not matter: the same requests on contents with NUL runs, repeated blocks and constant
    bytes (an implementation that skips or merges 'empty' chunks would pass on distinct-byte data)"""
    U = _impl()
    for buf in bufs:
        with patched_buf(U, buf):
            for n in range(2, maxlen + 1):
                datas = {bytes(n), b"\x01" + bytes(n - 2) + b"\x02", bytes([7]) * n, (b"\x00" * buf + b"\xaa" * buf) * n, (b"\xaa" * buf + b"\x00" * buf) * n}
                for data in sorted(d[:n] for d in datas):
                    for fn in ("resize_bytes", "insert_bytes", "delete_bytes", "move_bytes"):
                        for args in arg_space(fn, n):
                            ri, pi, di = run_impl(U, fn, data, args)
                            oracle_check(ctx, fn, data, args, buf, ri, di, "content")
                            ctx.oracle_cases += 1
                            ctx.count("oracle:content-sensitive")
                            ctx.case(("content", fn, data, args, buf) if di != data else None)
    # and at the real buffer size: a NUL block of one buffer in front of payload, moved towards the end
    buf = U._DEFAULT_BUFFER_SIZE
    base = os.urandom(1 << 16)
    payload = (base * (buf // len(base) + 1))[:buf]
    for data, args in ((b"HEAD" + bytes(buf) + payload, (0, buf, 4)), (b"HEAD" + payload + bytes(buf) + payload[:777], (3, buf + 3, 1))):
        ri, pi, di = run_impl(U, "resize_bytes", data, args)
        oracle_check(ctx, "resize_bytes", data, args, buf, ri, di, "content-real-buffer")
        ctx.oracle_cases += 1
        ctx.count("oracle:content-sensitive")
        ctx.case(("content-real", len(data), args))


def above_default_buffer(ctx):
    """explicit BUFFER_SIZE values ABOVE the 2^20 default (callers may pass any size): growth, shrink and moves whose
    steps exceed 2^20 bytes"""
    U = _impl()
    base = os.urandom(1 << 16)
    for buf in ((1 << 20) + 1, 3 << 19):
        with patched_buf(U, buf):
            for off, old, new, tail in ((0, 0, buf, 1), (7, 1, buf + 1, buf), (0, 0, 2 * buf + 1, 5), (3, buf, 0, 2), (0, 2 * buf, 1, buf + 1),
                                        (1234, 0, (1 << 20) + 1, 3766)):
                n = off + old + tail
                data = (base * (n // len(base) + 1))[:n]
                ri, pi, di = run_impl(U, "resize_bytes", data, (old, new, off))
                oracle_check(ctx, "resize_bytes", data, (old, new, off), buf, ri, di, "above-default-buffer")
                ctx.oracle_cases += 1
                ctx.count("oracle:buffer-above-2^20")
                ctx.case(("above", buf, off, old, new, tail))
            for size, newsize in ((5000, 5000 + buf), (0, 2 * buf + 1), (buf + 7, 3)):
                data = (base * (size // len(base) + 1))[:size]
                f = io.BytesIO(data)
                try:
                    U.resize_file(f, newsize - size)
                    got = f.getvalue()
                    ok = len(got) == newsize and got[:min(size, newsize)] == data[:min(size, newsize)] and not got[size:].strip(b"\x00")
                except Exception as e:
                    ok = False
                ctx.oracle_cases += 1
                ctx.count("oracle:buffer-above-2^20")
                ctx.case(("above-resize_file", buf, size, newsize))
                if not ok:
                    ctx.violation("oracle", "resize_file: wrong length/content with BUFFER_SIZE above the default",
                                  {"runner": "c11.above", "fn": "resize_file", "buf": buf, "size": size, "diff": newsize - size, "data": "len:%d" % size})


def handle_states(ctx, maxlen=5, bufs=(1, 3)):
    """the same requests through REAL file handles in every state a caller may leave them in: buffered with appended or
    overwritten bytes not yet flushed, unbuffered, positioned anywhere -- the file is what the handle reads back; exhaustive
    over the small argument space"""
    U = _impl()
    tmpd = tempfile.mkdtemp(dir=os.path.join(VERIF, ".run"), prefix="c11_")
    path = os.path.join(tmpd, "f.bin")
    try:
        for buf in bufs:
            with patched_buf(U, buf):
                for n in range(0, maxlen + 1):
                    data = bytes(range(1, n + 1))
                    for fn in ("resize_bytes", "insert_bytes", "delete_bytes"):
                        for args in arg_space(fn, n):
                            for state in ("appended-unflushed", "overwritten-unflushed", "unbuffered"):
                                k = n // 2
                                with open(path, "wb") as h:
                                    h.write(data[:k] if state == "appended-unflushed" else bytes(n) if state == "overwritten-unflushed" else data)
                                f = open(path, "rb+", buffering=0) if state == "unbuffered" else open(path, "rb+")
                                try:
                                    if state == "appended-unflushed":
                                        f.seek(0, 2)
                                        f.write(data[k:])
                                    elif state == "overwritten-unflushed":
                                        f.write(data)
                                    ri, pi, di = run_impl(U, fn, data, args, fobj=f)
                                finally:
                                    f.close()
                                with open(path, "rb") as h:
                                    ondisk = h.read()
                                ctx.oracle_cases += 1
                                ctx.count("oracle:handle-" + state)
                                ctx.case(("handle", state, fn, n, args, buf) if di != data or ri != "ok" else None)
                                if not oracle_check(ctx, fn, data, args, buf, ri, di, "handle:" + state):
                                    return
                                if ondisk != di:
                                    ctx.violation("oracle", "%s: the file on disk after closing differs from what the handle read back" % fn,
                                                  {"runner": "c11.handle", "fn": fn, "data": data.hex(), "pattern": "handle:" + state, "args": list(args), "buf": buf})
                                    return
    finally:
        import shutil
        shutil.rmtree(tmpd, ignore_errors=True)


def vm_crosscheck(ctx):
    """the extracted binary must agree with the kernel's own evaluator on the same cases"""
    cases, keys = [], []
    rng = ctx.rng
    for _ in range(60):
        n = rng.randrange(0, 12)
        data = bytes(rng.randrange(256) for _ in range(n))
        old, new, off, buf = rng.randrange(-1, n + 2), rng.randrange(-1, n + 3), rng.randrange(-1, n + 2), rng.randrange(1, 5)
        cases.append("let r := resize_bytes %d (%d) (%d) (%d) (mkF %s 0 plain) in (is_ok (fst r), fpos (snd r), fdata (snd r))" %
                     (buf, old, new, off, coq_bytes(data)))
        keys.append((data, (old, new, off), buf))
    pre = "From Coq Require Import ZArith List. Import ListNotations. Require Import Base.Py Base.FileModel Gen.Gen_util. Open Scope Z_scope."
    res, log = vm_shard("c11", pre, cases)
    if res is None or len(res) != len(cases):
        ctx.disagree("c11.vm_shard", "vm_compute shard failed to run: %s" % (log,), {})
        return
    import re
    for (data, args, buf), r in zip(keys, res):
        rm, pm, dm = run_model(ctx, "resize_bytes", data, args, buf)
        m = re.match(r"\((true|false), (-?\d+), \[(.*)\]\)$", r.replace("%Z", ""))
        ctx.vm_cases += 1
        if not m:
            ctx.disagree("c11.vm_shard", "cannot parse %r" % r, {})
            return
        okv = m.group(1) == "true"
        lst = bytes(int(x) for x in m.group(3).split(";") if x.strip())
        if okv != (rm == "ok") or int(m.group(2)) != pm or lst != dm:
            ctx.disagree("c11.vm_shard", "extracted binary and vm_compute differ on %r" % ((data.hex(), args, buf),), {})
            return


def run(ctx):
    if ctx.thorough:
        correspondence(ctx, 9, [1, 2, 3, 4, 5, 6, 7, 8, 9, 10])
        direct_oracle(ctx, [4, 64, 1000], 60, 400)
        above_default_buffer(ctx)
        content_sensitive(ctx)
        handle_states(ctx, 6, (1, 2, 3, 7))
    else:
        correspondence(ctx, 7, [1, 2, 3, 5, 8])
        direct_oracle(ctx, [4, 64], 6, 150)
        above_default_buffer(ctx)
        content_sensitive(ctx, (1, 2, 3), 7)
        handle_states(ctx)
    vm_crosscheck(ctx)


def search(ctx, broken):
    """a proof or the correspondence broke: look for a concrete input on which the property fails"""
    before = len(ctx.violations)
    U = _impl()
    for buf in (1, 2, 3, 4, 7):
        with patched_buf(U, buf):
            for n in range(0, 11):
                data = bytes(range(1, n + 1))
                for fn in ("resize_bytes", "insert_bytes", "delete_bytes", "move_bytes", "resize_file"):
                    for args in arg_space(fn, n):
                        ri, pi, di = run_impl(U, fn, data, args)
                        oracle_check(ctx, fn, data, args, buf, ri, di, "range")
                        ctx.oracle_cases += 1
                        ctx.case(None)
                        if len(ctx.violations) > before + 3:
                            return
    direct_oracle(ctx, [4, 16, 64, 1000, 4096], 40, 600)
    above_default_buffer(ctx)
    content_sensitive(ctx)
    handle_states(ctx)
    ctx.notes["search"] = "exhaustive len<=10 x BUF in {1,2,3,4,7} and lattices (incl. real buffer) found %d failing inputs" % (len(ctx.violations) - before)


def replay(ctx, payload):
    U = _impl()
    d = payload.get("data", {})
    if payload.get("kind") != "failing-input" or "fn" not in d or d.get("data", "").startswith("len:") or str(d.get("pattern", "")).startswith("handle:"):
        run(ctx)
        return bool(ctx.violations or ctx.disagreements)
    data = bytes.fromhex(d["data"])
    with patched_buf(U, d["buf"]):
        ri, pi, di = run_impl(U, d["fn"], data, tuple(d["args"]))
    return not oracle_check(ctx, d["fn"], data, tuple(d["args"]), d["buf"], ri, di, "replay")


def coverage_extra(ctx):
    return {"exhaustive": True,
            "exhaustive_note": "the small-domain correspondence enumerates its (length, argument, BUF) space completely; the theorems cover all sizes"}
