"""C20 -- command-line tools finish the file they are writing when signalled.

Model: coq/model/Signal.v (SignalHandler as a state machine, a tool run as an event list); theorems for all
programs and all schedules in coq/props/C20.v.  This module ties the model to the real code:

 (R1) the real class mutagen._tools._util.SignalHandler is driven with abstract event lists (real signals via
      os.kill, real block() context managers; init() called under the signal dispositions of a freshly started
      interpreter) and compared with the extracted model on every well-formed event list up to a length bound
      plus random longer ones; where they differ the property is judged on the class alone (direct_class_oracle);
 (R2) every tool / modifying sub-command is run in-process (entry_point(), so the handlers are installed the
      way the console script installs them, starting from a fresh interpreter's dispositions: SIGINT ->
      default_int_handler, SIGTERM/SIGHUP -> SIG_DFL) in a forked child on temp copies of tests/data samples; file
      operations (wrapped builtins.open), block() enter/leave and handler invocations (wrappers on the CLASS:
      whichever instance a tool uses, wherever it keeps it) are recorded, and a REAL signal is delivered at event
      index k for every k of the run.  The undisturbed trace is the program; it must be `protected` (decided by
      the extracted model) and the model's sig_run on the program with Sig inserted where the handler actually
      ran must predict the observed executed operations, outcome and stopping point;
 (D)  direct oracle, independent of the model, of the block/handler bookkeeping and of the tools' internals (it
      needs the open() wrapper only, to place the signal): the directory after a signalled run must equal, byte
      for byte, the directory produced by the UNINSTRUMENTED tool invoked on just the files up to and including
      the one being processed (signal inside its operations) / up to the last finished one (signal between files
      or during option parsing); a signal inside a file's operations must end in SystemExit with a true code (the
      abort report), one outside must terminate the run at once (SystemExit, or Python's/the kernel's own death by
      the signal), and no file operation of a later file may happen after the signal.  D's verdict stands whatever
      R2 finds (handler never ran, KeyboardInterrupt/SystemExit out of the middle of a block, no Enter recorded,
      process killed ...): those are reported as disagreements IN ADDITION.  When the plan's per-file unit
      structure is unusable D falls back to "every file whole (some undisturbed state) + aborting exit";
 (E)  the process ENVIRONMENT is a dimension of R2/D (and, for EIO, of R1): besides healthy captured stdout/stderr the
      signalled runs are repeated with stdout+stderr being pipes whose read end is closed (EPIPE), with stdout/stderr
      objects whose write raises OSError(EIO) (terminal gone), and with stdin (fd 0) closed -- judged by the same
      verdict; where the abort report itself cannot be written, any failing end of the run is accepted as the exit
      status, the files are judged all the same.  An environment in which the tool cannot even do its undisturbed
      work (it prints to stdout in normal operation) is replaced by its stderr-only variant or skipped (counted);
 (F)  FAILING INPUTS are a dimension too: per tool one invocation whose first file is damaged so that the per-file work
      raises part-way (Ogg page with a broken capture pattern for moggsplit, unsupported ID3 version for mid3v2 /
      mid3iconv / the destination of mid3cp), followed by a healthy file; a signal at every event of the failing
      file's unit.  Reference: the undisturbed runs of the same invocations, whatever they do with the bad file
      (skip it and go on, or die of it); verdict as in D -- no later file may be started after the signal.  Where the
      tool dies of the bad input by itself, dying the same death after the same operations counts as "as if no signal
      had arrived" (counted as ended-as-the-undisturbed-failure): the abort is then not reported as such;
 (V)  vm_compute cross-check of the extracted binary.
"""
import os, sys, json, errno, signal, select, shutil, time, hashlib, builtins, contextlib, io, importlib, itertools, re, traceback
import common
from common import vm_shard

PROP = "C20"
PROP_FILES = ["props/C20.v"]
TRUSTED = [
    "modelled rather than verified: a tool run is abstracted to a list of events (Sig/Enter/Leave/FileOp/Other/Exn); "
    "that the real tools' runs have the shape the theorems need (`protected`) is checked on recorded traces, not proved",
    "the SignalHandler state machine (Model.Signal.sig_step) is hand-written from mutagen/_tools/_util.py and tied to the real "
    "class by the event-list correspondence (R1) on every run",
    "CPython delivers Python-level signal handlers between bytecodes; the harness injects real signals at file-operation, "
    "block-boundary and (thorough) source-line boundaries only",
    "the recording wrappers (builtins.open wrapper, SignalHandler.block/_handler wrappers installed on the class before entry_point())",
    "SignalHandler.init() is not part of the model (it has no state-machine content): that it installs the handler for all three signals "
    "is observed by real signals only, starting from the dispositions of a freshly started interpreter (SIGINT -> signal.default_int_handler, "
    "SIGTERM/SIGHUP -> SIG_DFL); a tool started with other inherited dispositions (nohup, SIGINT ignored by a background shell) is not exercised",
]
MANIFEST = {
    "text": "model full: for every program (event list) whose file operations all lie inside SignalHandler.block() and every schedule "
            "of one or more signals, the block in progress at the first signal runs to completion, nothing of a later block runs, the run "
            "ends in SystemExit; a signal outside a block ends the run at once; no signal, no change; the hypothesis is shown necessary. "
            "Tool tie by recorded traces: each tool/sub-command's real event trace under real SIGINT/SIGTERM/SIGHUP at every operation "
            "index is protected and is predicted by the extracted model; direct byte-level oracle on the files",
    "note": "NOT covered: signal delivery between arbitrary bytecodes (CPython delivers between bytecodes; the harness injects at "
            "file-operation / block-boundary events and, in thorough mode, at source-line events of the tool, mutagen/id3/_file.py, "
            "mutagen/_util.py and mutagen/ogg.py). The tools' control flow is not modelled: `protected` is checked on the traces of the "
            "exercised invocations only. block() is not re-entrant and has no try/finally (mirrored in the model). Process environments exercised: healthy, closed stdout/stderr pipes, EIO on "
            "stdout/stderr, closed stdin -- not: full disks, read-only files, resource limits, threads. A mid3v2 invocation "
            "combining --delete-frames with edits updates each file twice (two blocks): a signal finishes the update in progress, "
            "not both.",
    "technique": "Coq proof by induction over event lists (Model.Signal) + trace correspondence with real signals via the extracted OCaml model "
                 "+ byte-level direct oracle against uninstrumented tool runs",
    "design_ref": "DESIGN.md section 5, C20; Appendix B (Signal handler)",
}
RULE = ("R1: every well-formed event list over {Sig,Enter,Leave,FileOp,Other,Exn} up to length 5 (thorough 7) plus random lists up to length 40, "
        "real SignalHandler (init() under a fresh interpreter's signal dispositions, signal SIGINT/SIGTERM/SIGHUP by list number) vs extracted model (ops, outcome, steps, final flags). R2/D: per tool sub-command (mid3v2 write/-D/--delete-frames, "
        "mid3iconv, mid3cp, moggsplit, and -d -s -C -p, two-phase, --remove-v1 --force-v1 --merge --write-v1 --m3u variants) with >= 2 files, a "
        "real signal at EVERY event index of the run (quick: SIGINT every index, SIGTERM/SIGHUP on a stride with rng offset, plus every source-line "
        "event of two small invocations; thorough: all three at every index plus every source-line event of every invocation). non-trivial = a real signal was delivered to the running tool (R2) / the event list contains a Sig (R1); distinct by "
        "(case, signal, index, mode, environment). Environments (closed stdout/stderr pipes, EIO-raising stdout/stderr, closed stdin): quick = SIGINT at every "
        "index in each environment for one invocation per tool (runs over 200 events: every index once, environment rotating), signal x environment "
        "rotating on a stride of 5 elsewhere; thorough = every index in each environment with the signal rotating; R1 lists alternate plain/EIO streams")

SIGNAMES = ["SIGINT", "SIGTERM", "SIGHUP"]
REAL_OPEN = builtins.open
RUNROOT = os.path.join(common.VERIF, ".run", str(os.getpid()))
CHILD_TIMEOUT = 90
TRACED_OPS = ("read", "write", "seek", "truncate", "flush", "close", "readline", "readinto", "writelines")


def data_dir():
    return os.path.join(common.REPO, "tests", "data")


# ------------------------------------------------------------------------------------------------
# cases
# ------------------------------------------------------------------------------------------------

class Case:
    """One tool invocation.  files: [(name in workdir, sample in tests/data)], targets: the names the tool is
    asked to process, in order; opts: options before the targets; pair: mid3cp-style (all targets are one unit)."""

    def __init__(self, cid, tool, sub, files, opts, targets, pair=False, stages=None, quick=True, damage=None):
        self.id, self.tool, self.sub, self.files, self.opts, self.targets = cid, tool, sub, files, opts, targets
        self.pair, self.custom_stages, self.quick = pair, stages, quick
        # damage: {file name: kind} -- the copy of the sample is damaged so that the tool's per-file work on it raises
        # part-way (FAILING INPUT dimension); such an invocation is signalled over its first file's unit only
        self.damage = damage or {}
        self.failing = bool(damage)

    def argv(self, targets=None):
        return [self.tool] + list(self.opts) + list(self.targets if targets is None else targets)

    def stages(self):
        """stage j = the invocations (uninstrumented) whose result is the expected directory after j units"""
        if self.custom_stages is not None:
            return self.custom_stages
        if self.pair:
            return [[], [self.argv()]]
        return [[]] + [[self.argv(self.targets[:j])] for j in range(1, len(self.targets) + 1)]

    def group(self, name):
        """which target a file belongs to (None: auxiliary, inherits from neighbouring operations)"""
        if self.pair:
            return 0
        if name in self.targets:
            return self.targets.index(name)
        base = os.path.splitext(name)[0]
        for i, t in enumerate(self.targets):
            tb = os.path.splitext(t)[0]
            if self.tool == "moggsplit" and (base == tb or base.startswith(tb + "-")):
                return i
        return None


def case_rng(ctx):
    """the invocations depend on the seed only (not on how much of ctx.rng was consumed before), so that a replay
    file names the same invocation in every later run with that seed"""
    import random
    return random.Random("C20-cases-%d" % ctx.seed)


def make_cases(rng, thorough=True):
    long_a = "".join(rng.choice("abcdefghij klmnop") for _ in range(rng.randrange(2500, 3500)))
    title = "T" + "".join(rng.choice("xyz") for _ in range(rng.randrange(1, 30)))
    tagged = ["silence-44-s.mp3", "vbri.mp3", "id3v1v2-combined.mp3", "97-unknown-23-update.mp3"]
    second = rng.choice(["vbri.mp3", "id3v1v2-combined.mp3"])
    C = []
    C.append(Case("mid3v2.write", "mid3v2", "write_files", [("a.mp3", "silence-44-s.mp3"), ("b.mp3", "no-tags.mp3")],
                  ["-t", title, "-a", long_a, "--TXXX", "desc:val"], ["a.mp3", "b.mp3"]))
    C.append(Case("mid3v2.delete-all", "mid3v2", "delete_tags -D", [("a.mp3", "silence-44-s.mp3"), ("b.mp3", second)],
                  ["-D"], ["a.mp3", "b.mp3"]))
    C.append(Case("mid3v2.delete-frames", "mid3v2", "delete_frames", [("a.mp3", "silence-44-s.mp3"), ("b.mp3", "vbri.mp3")],
                  ["--delete-frames", "TIT2,TPE1"], ["a.mp3", "b.mp3"]))
    C.append(Case("mid3iconv.update", "mid3iconv", "update", [("a.mp3", "silence-44-s.mp3"), ("b.mp3", "vbri.mp3")],
                  ["-e", "latin1"], ["a.mp3", "b.mp3"]))
    C.append(Case("mid3cp.copy", "mid3cp", "copy", [("src.mp3", "id3v1v2-combined.mp3"), ("dst.mp3", "silence-44-s.mp3")],
                  [], ["src.mp3", "dst.mp3"], pair=True))
    C.append(Case("moggsplit.split", "moggsplit", "main", [("m1.spx", "multiplexed.spx"), ("m2.spx", "multiplexed.spx")],
                  [], ["m1.spx", "m2.spx"]))
    # thorough-only variety
    C.append(Case("mid3v2.write3", "mid3v2", "write_files",
                  [("a.mp3", rng.choice(tagged)), ("b.mp3", "xing.mp3"), ("c.mp3", "id3v22-test.mp3")],
                  ["-A", "Album", "-c", "d:comment text:eng", "-g", "12", "-y", "2004", "-T", "1/9", "--TCOM", long_a[:700]],
                  ["a.mp3", "b.mp3", "c.mp3"], quick=False))
    C.append(Case("mid3v2.delete-v2", "mid3v2", "delete_tags -d", [("a.mp3", "silence-44-s.mp3"), ("b.mp3", "id3v1v2-combined.mp3")],
                  ["-d"], ["a.mp3", "b.mp3"], quick=False))
    C.append(Case("mid3v2.delete-v1", "mid3v2", "delete_tags -s", [("a.mp3", "silence-44-s.mp3"), ("b.mp3", "id3v1v2-combined.mp3")],
                  ["-s"], ["a.mp3", "b.mp3"], quick=False))
    C.append(Case("mid3v2.convert", "mid3v2", "write_files -C", [("a.mp3", "silence-44-s.mp3"), ("b.mp3", "id3v22-test.mp3")],
                  ["-C"], ["a.mp3", "b.mp3"], quick=False))
    C.append(Case("mid3v2.picture", "mid3v2", "write_files -p", [("a.mp3", "silence-44-s.mp3"), ("b.mp3", "vbri.mp3"), ("pic.ogg", "empty.ogg")],
                  ["-p", "pic.ogg:cover:3:image/png"], ["a.mp3", "b.mp3"], quick=False))
    dfo, wro = ["--delete-frames", "TALB"], ["-t", title]
    C.append(Case("mid3v2.delete-frames+write", "mid3v2", "delete_frames then write_files",
                  [("a.mp3", "silence-44-s.mp3"), ("b.mp3", "vbri.mp3")], dfo + wro, ["a.mp3", "b.mp3"], quick=False,
                  stages=[[], [["mid3v2"] + dfo + ["a.mp3"]], [["mid3v2"] + dfo + ["a.mp3", "b.mp3"]],
                          [["mid3v2"] + dfo + ["a.mp3", "b.mp3"], ["mid3v2"] + wro + ["a.mp3"]],
                          [["mid3v2"] + dfo + ["a.mp3", "b.mp3"], ["mid3v2"] + wro + ["a.mp3", "b.mp3"]]]))
    C.append(Case("mid3iconv.remove-v1", "mid3iconv", "update --remove-v1", [("a.mp3", "silence-44-s.mp3"), ("b.mp3", "id3v1v2-combined.mp3")],
                  ["-e", "cp1251", "--remove-v1"], ["a.mp3", "b.mp3"], quick=False))
    C.append(Case("mid3iconv.force-v1", "mid3iconv", "update --force-v1", [("a.mp3", "silence-44-s.mp3"), ("b.mp3", "id3v1v2-combined.mp3")],
                  ["-e", "latin1", "--force-v1"], ["a.mp3", "b.mp3"], quick=False))
    C.append(Case("mid3cp.merge", "mid3cp", "copy --merge", [("src.mp3", "vbri.mp3"), ("dst.mp3", "silence-44-s.mp3")],
                  ["--merge"], ["src.mp3", "dst.mp3"], pair=True, quick=False))
    C.append(Case("mid3cp.write-v1", "mid3cp", "copy --write-v1 -x", [("src.mp3", "silence-44-s.mp3"), ("dst.mp3", "no-tags.mp3")],
                  ["--write-v1", "-x", "TPE1"], ["src.mp3", "dst.mp3"], pair=True, quick=False))
    C.append(Case("moggsplit.m3u", "moggsplit", "main --m3u", [("m1.spx", "multiplexed.spx"), ("m2.ogg", "empty.ogg")],
                  ["--m3u", "--extension", "out"], ["m1.spx", "m2.ogg"], quick=False))
    # failing inputs: per tool one invocation whose first file makes the per-file work raise part-way, then a healthy file
    C.append(Case("moggsplit.bad-first", "moggsplit", "main, damaged Ogg page in the first input", [("m1.spx", "multiplexed.spx"), ("m2.ogg", "empty.ogg")],
                  [], ["m1.spx", "m2.ogg"], damage={"m1.spx": "oggpage"}))
    C.append(Case("mid3v2.bad-first", "mid3v2", "write_files, unsupported tag version in the first file", [("a.mp3", "silence-44-s.mp3"), ("b.mp3", "vbri.mp3")],
                  ["-t", title], ["a.mp3", "b.mp3"], damage={"a.mp3": "id3version"}))
    C.append(Case("mid3iconv.bad-first", "mid3iconv", "update, unsupported tag version in the first file", [("a.mp3", "silence-44-s.mp3"), ("b.mp3", "vbri.mp3")],
                  ["-e", "latin1"], ["a.mp3", "b.mp3"], damage={"a.mp3": "id3version"}))
    C.append(Case("mid3cp.bad-dst", "mid3cp", "copy, unsupported tag version in the destination", [("src.mp3", "id3v1v2-combined.mp3"), ("dst.mp3", "silence-44-s.mp3")],
                  [], ["src.mp3", "dst.mp3"], pair=True, damage={"dst.mp3": "id3version"}))
    return C


def damaged(data, kind):
    if kind == "oggpage":                # the capture pattern of a page in the middle: mutagen.ogg.error after some pages were written
        pos = [m.start() for m in re.finditer(b"OggS", data)]
        k = pos[len(pos) // 2]
        return data[:k] + b"XggS" + data[k + 4:]
    if kind == "id3version":             # ID3v2.9: load / save raise ID3UnsupportedVersionError after reading the header
        assert data[:3] == b"ID3"
        return data[:3] + b"\x09" + data[4:]
    raise ValueError(kind)


# ------------------------------------------------------------------------------------------------
# child side: instrumentation
# ------------------------------------------------------------------------------------------------

def _nop():
    return None


class Tracer:
    def __init__(self, wd, case, at, signum, linemode):
        self.wd = os.path.realpath(wd)
        self.case, self.at, self.signum, self.linemode = case, at, signum, linemode
        self.n = 0                 # ticks so far == non-S events recorded so far
        self.trace = []
        self.names = [n for n, _ in case.files]
        self.cnt = {}
        self.active = False
        self.delivered = False
        self.sent = False
        self.nosig_at = None
        self.late = False
        self.depth = 0             # SignalHandler.block() contexts entered (any instance), from the class-level wrapper

    # one tick per event, BEFORE the event takes effect; the signal goes out at tick `at`
    def tick(self):
        k = self.n
        self.n += 1
        if k == self.at:
            self.nosig_at = self.depth > 0
            self.sent = True
            os.kill(os.getpid(), self.signum)
            _nop()                 # a call: CPython runs pending handlers here at the latest
            self.late = not self.delivered

    def event(self, tok):
        if not self.active:
            return
        self.tick()
        self.trace.append(tok)

    def fileidx(self, path):
        try:
            rp = os.path.realpath(os.fspath(path))
        except TypeError:
            return None
        if isinstance(rp, bytes):
            rp = os.fsdecode(rp)
        if not (rp == self.wd or rp.startswith(self.wd + os.sep)):
            return None
        name = os.path.relpath(rp, self.wd)
        if name not in self.names:
            self.names.append(name)
        return self.names.index(name)

    def fileop(self, idx, op):
        if not self.active:
            return
        self.tick()
        i = self.cnt.get(idx, 0)
        self.cnt[idx] = i + 1
        self.trace.append("F%x:%x:%s" % (idx, i, op))


class FW:
    """recording proxy around a real file object"""

    def __init__(self, f, T, idx):
        self.__dict__["_f"] = f
        self.__dict__["_T"] = T
        self.__dict__["_idx"] = idx

    def __getattr__(self, n):
        return getattr(self._f, n)

    def __setattr__(self, n, v):
        setattr(self._f, n, v)

    def __enter__(self):
        self._f.__enter__()
        return self

    def __exit__(self, *a):
        self._T.fileop(self._idx, "close")
        return self._f.__exit__(*a)

    def __iter__(self):
        return iter(self._f)


def _mk(op):
    def m(self, *a, **k):
        self._T.fileop(self._idx, op)
        return getattr(self._f, op)(*a, **k)
    m.__name__ = op
    return m


for _op in TRACED_OPS:
    setattr(FW, _op, _mk(_op))


def fresh_dispositions():
    """the dispositions of a freshly started Python process: SIGINT -> default_int_handler, SIGTERM/SIGHUP -> SIG_DFL
    (what a console script sees when its entry_point() / SignalHandler.init() runs)"""
    for s in SIGNAMES:
        signal.signal(getattr(signal, s), signal.default_int_handler if s == "SIGINT" else signal.SIG_DFL)


def install(T, mod):
    """patch open / OptionParser.parse_args and, ON THE CLASS (whatever instance a tool uses, wherever it keeps it),
    SignalHandler.block / SignalHandler._handler; returns undo().  The direct oracle needs only the open wrapper
    (it is what places the signal); block/_handler recording serves the model correspondence and is skipped when the
    class no longer has these methods (the correspondence then reports it)."""
    import optparse
    from mutagen._tools import _util
    SignalHandler = getattr(_util, "SignalHandler", None)
    orig_block = getattr(SignalHandler, "block", None)
    orig_handler = getattr(SignalHandler, "_handler", None)
    orig_parse = optparse.OptionParser.parse_args

    def traced_open(file, *a, **k):
        idx = None if isinstance(file, int) else T.fileidx(file)
        if idx is None or not T.active:
            return REAL_OPEN(file, *a, **k)
        T.fileop(idx, "open")          # open(..., "wb") creates/truncates: it is an operation of its own
        return FW(REAL_OPEN(file, *a, **k), T, idx)

    @contextlib.contextmanager
    def traced_block(self):
        T.tick_pre_enter()
        cm = orig_block(self)
        cm.__enter__()                  # self._nosig = True
        T.depth += 1
        T.rec("E")
        try:
            yield
        except BaseException as e:      # the body raised: no Leave; the real generator re-raises, _nosig stays
            T.rec("X")
            if not cm.__exit__(type(e), e, e.__traceback__):
                raise
            return
        T.event("L")                    # tick inside the block, then the code after the yield
        T.depth -= 1
        cm.__exit__(None, None, None)

    def traced_handler(self, signum, frame):
        T.trace.append("S")
        T.delivered = True
        return orig_handler(self, signum, frame)

    def traced_parse(self, *a, **k):
        T.event("O")
        return orig_parse(self, *a, **k)

    # Enter is one model event: the tick before it is outside the block, the event is recorded once _nosig is set
    def tick_pre_enter():
        if T.active:
            T.tick()
    def rec(tok):
        if T.active:
            T.trace.append(tok)
    T.tick_pre_enter, T.rec = tick_pre_enter, rec

    builtins.open = traced_open
    if orig_block is not None:
        SignalHandler.block = traced_block
    if orig_handler is not None:
        SignalHandler._handler = traced_handler
    optparse.OptionParser.parse_args = traced_parse

    linefiles = set()
    if T.linemode:
        import mutagen._util, mutagen.id3._file, mutagen.ogg
        for m in (mod, mutagen._util, mutagen.id3._file, mutagen.ogg):
            linefiles.add(m.__file__)

        def local(frame, ev, arg):
            if ev == "line" and T.active:
                T.tick()
                T.trace.append("N")
            return local

        def glob(frame, ev, arg):
            # entry_point() itself is not traced: before it has installed the handlers a signal is not the tools' to handle
            if frame.f_code.co_filename in linefiles and frame.f_code.co_name != "entry_point":
                return local
            return None
        sys.settrace(glob)

    def undo():
        sys.settrace(None)
        builtins.open = REAL_OPEN
        if orig_block is not None:
            SignalHandler.block = orig_block
        if orig_handler is not None:
            SignalHandler._handler = orig_handler
        optparse.OptionParser.parse_args = orig_parse
    return undo


def snapshot(wd):
    snap = {}
    for root, _, files in os.walk(wd):
        for fn in files:
            p = os.path.join(root, fn)
            with REAL_OPEN(p, "rb") as f:
                d = f.read()
            snap[os.path.relpath(p, wd)] = "%d:%s" % (len(d), hashlib.blake2b(d, digest_size=12).hexdigest())
    return snap


def prepare(case, wd):
    os.makedirs(wd)
    for name, sample in case.files:
        shutil.copyfile(os.path.join(data_dir(), sample), os.path.join(wd, name))
        if name in case.damage:
            with REAL_OPEN(os.path.join(wd, name), "rb") as f:
                data = f.read()
            with REAL_OPEN(os.path.join(wd, name), "wb") as f:
                f.write(damaged(data, case.damage[name]))


# process environments a tool may find itself in when the signal arrives (besides "plain": healthy captured
# stdout/stderr).  For each name the variants are tried in order; the first in which the UNDISTURBED run behaves like
# the plain one is used (a tool that prints to stdout in normal operation cannot run at all with a raising stdout)
ENVS = ["closed-pipes", "eio", "no-stdin"]
ENV_VARIANTS = {"closed-pipes": ["closed-pipes", "closed-pipe-stderr"], "eio": ["eio", "eio-stderr"], "no-stdin": ["no-stdin"]}
ENV_TEXT = {"plain": "stdout/stderr healthy",
            "closed-pipes": "stdout and stderr are pipes whose read end is closed (EPIPE)",
            "closed-pipe-stderr": "stderr is a pipe whose read end is closed (EPIPE)",
            "eio": "writing to stdout or stderr raises OSError(EIO) (terminal gone)",
            "eio-stderr": "writing to stderr raises OSError(EIO) (terminal gone)",
            "no-stdin": "stdin (fd 0) closed"}
UNWRITABLE = ("closed-pipes", "closed-pipe-stderr", "eio", "eio-stderr")   # the abort report itself may be unwritable


class EIOStream:
    """a text stream on a vanished terminal: every write fails with EIO"""
    encoding, errors, name = "utf-8", "strict", "<gone>"

    def write(self, s):
        raise OSError(errno.EIO, os.strerror(errno.EIO))

    def flush(self):
        return None                      # nothing is ever buffered

    def isatty(self):
        return False

    def writable(self):
        return True


_keep = []                               # replaced stream objects are kept alive (no finalizer noise)


def setup_env(env):
    sys.stdout, sys.stderr = io.StringIO(), io.StringIO()
    if env in ("closed-pipes", "closed-pipe-stderr"):
        signal.signal(signal.SIGPIPE, signal.SIG_IGN)          # as CPython does at start-up: EPIPE, not death
        r, w = os.pipe()
        os.close(r)
        fds = (1, 2) if env == "closed-pipes" else (2,)
        for fd in fds:
            os.dup2(w, fd)
        os.close(w)
        if 1 in fds:
            sys.stdout = REAL_OPEN(1, "w", encoding="utf-8", closefd=False)                 # a pipe: block buffered
        sys.stderr = REAL_OPEN(2, "w", buffering=1, encoding="utf-8", errors="backslashreplace", closefd=False)   # line buffered
        _keep.extend([sys.stdout, sys.stderr])
    elif env in ("eio", "eio-stderr"):
        sys.stderr = EIOStream()
        if env == "eio":
            sys.stdout = EIOStream()
    elif env == "no-stdin":
        os.close(0)                      # the tool's first open() gets descriptor 0, as in a process started with <&-
        sys.stdin = None


def child_body(job):
    case, wd = job["case"], job["wd"]
    fresh_dispositions()
    prepare(case, wd)
    os.chdir(wd)
    sys.stdout, sys.stderr = io.StringIO(), io.StringIO()
    import mutagen
    mod = importlib.import_module("mutagen._tools." + case.tool)
    res = {"mutagen": os.path.dirname(os.path.dirname(mutagen.__file__))}
    if job["kind"] == "stage":
        # uninstrumented reference runs (no signal is ever sent here, so the handler objects stay in their initial state)
        for argv in job["invocations"]:
            sys.argv = list(argv)
            try:
                rc = mod.entry_point()
            except SystemExit as e:
                rc = "SystemExit:%r" % (e.code,)
            except Exception as e:              # the tool died of its input (failing-input invocations)
                rc = "Crashed:%s" % type(e).__name__
            res.setdefault("rcs", []).append(repr(rc))
        res["snap"] = snapshot(wd)
        return res
    T = Tracer(wd, case, job["at"], getattr(signal, job["sig"]), job["linemode"])
    undo = install(T, mod)
    sys.argv = case.argv()
    setup_env(job.get("env", "plain"))
    outcome, code = None, None
    try:
        T.active = True
        try:
            rc = mod.entry_point()
            T.active = False
            outcome, code = "Finished", repr(rc)
        except SystemExit as e:
            T.active = False
            outcome, code = "Exit", repr(e.code)
            res["code_true"] = bool(e.code)
        except BaseException as e:
            T.active = False
            outcome, code = "Crashed", repr(e)[:200]
            res["exc"] = type(e).__name__
    finally:
        T.active = False
        undo()
    res.update({"trace": T.trace, "names": T.names, "outcome": outcome, "code": code, "sent": T.sent,
                "delivered": T.delivered, "late": T.late, "nosig_at": T.nosig_at, "snap": snapshot(wd)})
    return res


def child_main(job, wfd):
    try:
        try:
            res = child_body(job)
        except BaseException:
            res = {"error": traceback.format_exc()[-1500:]}
        data = json.dumps(res).encode()
        off = 0
        while off < len(data):
            off += os.write(wfd, data[off:off + 65536])
    finally:
        os._exit(0)


# ------------------------------------------------------------------------------------------------
# parent side: job pool
# ------------------------------------------------------------------------------------------------

_jobno = [0]


def run_jobs(jobs, par):
    """fork one child per job (at most `par` at a time); returns results in job order"""
    os.makedirs(RUNROOT, exist_ok=True)
    results = [None] * len(jobs)
    running = {}                         # rfd -> (index, pid, t0, chunks, wd)
    nxt = 0
    sys.stdout.flush()
    sys.stderr.flush()
    while nxt < len(jobs) or running:
        while nxt < len(jobs) and len(running) < par:
            _jobno[0] += 1
            wd = os.path.join(RUNROOT, "j%d" % _jobno[0])
            job = dict(jobs[nxt], wd=wd)
            r, w = os.pipe()
            pid = os.fork()
            if pid == 0:
                os.close(r)
                child_main(job, w)
            os.close(w)
            running[r] = (nxt, pid, time.time(), [], wd)
            nxt += 1
        ready, _, _ = select.select(list(running), [], [], 1.0)
        now = time.time()
        for r in list(running):
            idx, pid, t0, chunks, wd = running[r]
            done = False
            if r in ready:
                b = os.read(r, 1 << 20)
                if b:
                    chunks.append(b)
                else:
                    done = True
            elif now - t0 > CHILD_TIMEOUT:
                try:
                    os.kill(pid, signal.SIGKILL)
                except OSError:
                    pass
                done = True
                chunks[:] = [json.dumps({"timeout": True}).encode()]
            if done:
                os.close(r)
                _, status = os.waitpid(pid, 0)
                raw = b"".join(chunks)
                try:
                    res = json.loads(raw.decode()) if raw else {}
                except ValueError:
                    res = {"error": "unparsable child output"}
                if os.WIFSIGNALED(status) and not res.get("timeout"):
                    res["killed_by"] = os.WTERMSIG(status)
                    try:
                        res["snap"] = snapshot(wd)        # what the dead tool left behind
                    except OSError:
                        pass
                results[idx] = res
                shutil.rmtree(wd, ignore_errors=True)
                del running[r]
    return results


def cleanup():
    shutil.rmtree(RUNROOT, ignore_errors=True)


# ------------------------------------------------------------------------------------------------
# checking one case
# ------------------------------------------------------------------------------------------------

def tok_model(t):
    """trace token -> model token"""
    if t[0] == "F":
        f, i, _ = t[1:].split(":")
        return "F%s:%s" % (f, i)
    if t == "N":
        return "O"
    return t


def parse_run(reply):
    m = re.match(r"ok out=(\w+) steps=(-?[0-9a-f]+) st=(\d)(\d) nops=(\d+) ops=(\S+)", reply)
    if not m:
        return None
    ops = [] if m.group(6) == "-" else m.group(6).split(",")
    return {"out": m.group(1), "steps": int(m.group(2), 16), "interrupted": m.group(3) == "1", "nosig": m.group(4) == "1", "ops": ops}


class Plan:
    """what the undisturbed run of a case looks like, and the expected directory after each unit"""
    pass


def build_plan(ctx, case, linemode, par, envs=()):
    """envs: environment names (keys of ENV_VARIANTS) wanted for this invocation; P.envs maps each to the variant in
    which the undisturbed run is the plain one (same events, same files, finishes), or None"""
    stage_jobs = [{"case": case, "kind": "stage", "invocations": inv} for inv in case.stages()]
    plain = {"case": case, "kind": "trace", "at": -1, "sig": "SIGINT", "linemode": linemode}
    variants = [v for e in envs for v in ENV_VARIANTS[e]]
    res = run_jobs([dict(plain, env=v) for v in variants] + stage_jobs + [plain, plain], par)
    env_res, res = dict(zip(variants, res[:len(variants)])), res[len(variants):]
    P = Plan()
    P.case, P.linemode = case, linemode
    P.problems = []          # every one is a broken harness expectation (reported as a c20.plan disagreement)
    P.fatal = False          # no usable undisturbed reference: signalled runs cannot be judged at all
    P.weak = False           # the per-file unit structure is unknown: judge by whole-file states + exit status only
    P.reported = set()
    P.envs = {}
    for r in res:
        if r.get("error") or r.get("timeout") or "killed_by" in r:
            P.problems.append("undisturbed run failed: %s" % (r.get("error") or r))
    if P.problems:
        P.fatal = True
        return P
    P.stage_snaps = [r["snap"] for r in res[:len(stage_jobs)]]
    P.mutagen = res[0].get("mutagen")
    u1, u2 = res[-2], res[-1]
    P.prog, P.names = u1["trace"], u1["names"]
    if u1["trace"] != u2["trace"]:
        P.problems.append("undisturbed trace is not deterministic")
        P.weak = True
    P.und_outcome, P.und_exc = u1["outcome"], u1.get("exc")
    if (u1["outcome"], u1.get("exc"), u1["code"]) != (u2["outcome"], u2.get("exc"), u2["code"]):
        P.problems.append("undisturbed run does not end the same way twice")
        P.fatal = True
    if (u1["outcome"] != "Finished" and not case.failing) or "S" in P.prog:     # a failing input may make the tool die by itself
        P.problems.append("undisturbed run ended %s %s" % (u1["outcome"], u1["code"]))
        P.fatal = True
    if u1["snap"] != P.stage_snaps[-1] or u2["snap"] != P.stage_snaps[-1]:
        P.problems.append("instrumented undisturbed run differs from the uninstrumented run (recording changes behaviour)")
        P.fatal = True
    P.ended_in_unit = None
    # units: maximal runs of file operations belonging to the same target
    groups = []
    for t in P.prog:
        if t[0] == "F":
            groups.append(case.group(P.names[int(t[1:].split(":")[0], 16)]))
        else:
            groups.append("-")
    fidx = [i for i, g in enumerate(groups) if g != "-"]
    known = [groups[i] for i in fidx]
    for k in range(len(known)):            # auxiliary files inherit the previous (else the next) known group
        if known[k] is None:
            known[k] = known[k - 1] if k > 0 and known[k - 1] is not None else next((g for g in known[k:] if g is not None), 0)
    P.unit_of_event = {}
    spans = []
    for k, i in enumerate(fidx):
        if k == 0 or known[k] != known[k - 1]:
            spans.append([i, i])
        spans[-1][1] = i
        P.unit_of_event[i] = len(spans)
    P.spans = spans
    if case.failing and P.und_outcome != "Finished" and 0 < len(spans) < len(P.stage_snaps) - 1 and \
            all(sn == P.stage_snaps[len(spans)] for sn in P.stage_snaps[len(spans):]):
        # the tool dies of the failing input by itself: the later files are never touched, with or without a signal
        P.ended_in_unit = len(spans)
        P.stage_snaps = P.stage_snaps[:len(spans) + 1]
    for j in range(1, len(P.stage_snaps)):
        if P.stage_snaps[j] == P.stage_snaps[j - 1] and not (case.failing and (j == 1 or case.pair)):
            P.problems.append("stage %d does not change any byte: sample/sub-command cannot show a cut" % j)
    if len(spans) != len(P.stage_snaps) - 1:
        P.problems.append("run has %d per-file units, expected %d" % (len(spans), len(P.stage_snaps) - 1))
        P.weak = True
    P.mprog = [tok_model(t) for t in P.prog]
    P.envs = {}
    for e in envs:
        P.envs[e] = None
        for v in ENV_VARIANTS[e]:
            r = env_res[v]
            if r.get("trace") == P.prog and (r.get("outcome"), r.get("exc")) == (P.und_outcome, P.und_exc) and r.get("snap") == u1["snap"]:
                P.envs[e] = v
                break
        if P.envs[e] is None:
            # not a C20 matter: the tool cannot do its undisturbed work in this environment (e.g. it prints to stdout)
            ctx.count("environment-unusable:%s/%s" % (case.id, e))
    return P


def expected_stages(P, t):
    """stages (1-based count of completed units) the directory may be in after a signal before event t"""
    for u, (a, b) in enumerate(P.spans, 1):
        if a <= t <= b:
            return [u], u
    prev = sum(1 for (a, b) in P.spans if b < t)
    tok = P.prog[t]
    if tok == "N":
        # a source line between two files' operations: inside the next file's block (the file is then processed
        # completely) or outside any block (immediate exit) -- both leave every file whole
        return [prev, min(prev + 1, len(P.spans))], None
    return [prev], None


def check_run(ctx, P, signame, t, r, mode, env="plain"):
    """D + R2 on one signalled run (env: the process environment variant it ran in).  Returns True if the property held.

    D judges the run by the property statement alone -- the files afterwards against the undisturbed runs' files, the
    exit status, and which file operations still happened -- whatever the recording of block()/_handler shows (handler
    never ran, unknown handler instance, no Enter seen, tool crashed with KeyboardInterrupt/SystemExit inside the
    block ...).  R2 (the model predicts the run) is reported separately as a correspondence disagreement and never
    replaces D's verdict."""
    case = P.case
    data = {"runner": "c20.tool", "case": case.id, "tool": case.tool, "sub": case.sub, "argv": case.argv(), "signal": signame,
            "index": t, "mode": mode, "event": P.prog[t] if 0 <= t < len(P.prog) else None, "environment": env,
            "environment_text": ENV_TEXT.get(env, env)}
    tag = "%s %s%s" % (case.id, mode, "" if env == "plain" else " [" + env + "]")
    use_model = getattr(ctx, "use_model", True)

    reported = []

    def disagree(runner, what, d):
        P.ndis = getattr(P, "ndis", 0) + 1
        if P.ndis <= 3:                      # a few per invocation are enough to describe a broken correspondence
            ctx.disagree(runner, what, d)
        else:
            ctx.count("disagreements-not-listed")

    def viol(what, **extra):
        # one violation per run, one per (case, kind) per check: a single broken schedule is enough to replay
        base = "%s: %s" % (case.id, what)           # one schedule per kind, whatever the environment
        key = base + ("" if env == "plain" else " [environment: %s]" % ENV_TEXT.get(env, env))
        if not reported and base not in P.reported:
            P.reported.add(base)
            ctx.violation("oracle", key, dict(data, **extra))
        reported.append(key)
        return False
    if r.get("timeout"):
        return viol("tool did not terminate after the signal")
    if "killed_by" in r:
        # the process died of the signal at the point of delivery (no Python-level handler installed for it): at once, by
        # construction.  Outside a file's operations that IS "terminates the tool immediately" (files must be untouched);
        # inside, the modification was abandoned
        stages, inunit = (list(range(len(P.stage_snaps))), None) if P.weak else expected_stages(P, t)
        ctx.count("deliveries:" + signame)
        ctx.oracle_cases += 1
        if inunit is None and r["killed_by"] == getattr(signal, signame) and any(r.get("snap") == P.stage_snaps[j] for j in stages):
            disagree("c20.tool", "%s: sig %s at %d: no handler installed, the process was killed by the signal (outside any file's operations: "
                                 "files intact, terminated at once)" % (tag, signame, t), data)
            return True
        return viol("tool process killed by signal %d while working on a file (no handler installed for it by entry_point)" % r["killed_by"],
                    directory_is_an_undisturbed_state=any(r.get("snap") == sn for sn in P.stage_snaps))
    if r.get("error"):
        disagree("c20.harness", "%s: child failed: %s" % (tag, r["error"][-300:]), data)
        return True
    if not r["sent"]:
        disagree("c20.harness", "%s: run ended before event %d, no signal sent" % (tag, t), data)
        return True
    # os.kill(own pid) returns with the signal pending/handled; WHICH Python-level handler ran is the tool's business
    ctx.count("deliveries:" + signame)
    trace = r["trace"]
    stripped = [tk for tk in trace if tk != "S"]
    handled = "S" in trace                                  # the class's _handler ran (recorded on the class)
    prefix = stripped == P.prog[:len(stripped)]
    weak = P.weak or stripped[:t] != P.prog[:t]             # the unit structure of this run is not the plan's
    if r["late"]:
        ctx.count("late-delivery")
    ok = True
    # ---- D: direct oracle -------------------------------------------------------------------------
    if weak:
        stages, inunit = list(range(len(P.stage_snaps))), None   # any state with every file whole
        ctx.count("oracle-whole-files-only")
    else:
        stages, inunit = expected_stages(P, t)
    got = r["snap"]
    ended = "%s %s" % (r["outcome"], r.get("exc") or r["code"])
    match = [j for j in stages if got == P.stage_snaps[j]]
    if not match:
        whole = [j for j in range(len(P.stage_snaps)) if got == P.stage_snaps[j]]
        ref = P.stage_snaps[stages[0] if not weak else -1]
        diff = sorted(n for n in set(got) | set(ref) if got.get(n) != ref.get(n))
        if whole:
            what = ("files are whole, but the tool %s" % ("continued with further files after the signal" if whole[0] > stages[-1]
                                                          else "did not finish the file it was working on"))
        else:
            what = "file(s) left half-done: directory matches no undisturbed state"
        ok = viol(what, differing=diff[:6], inside_block_at_delivery=r["nosig_at"], handler_ran=handled, run_ended=ended,
                  state_after_files=whole[:1], expected_after_files=stages)
    aborted = r["outcome"] == "Exit" and r.get("code_true")
    # outside a file modification "the signal terminates the tool immediately": Python's own way of dying of a SIGINT
    # (KeyboardInterrupt out of entry_point) is such a termination too; inside, the tool must finish and REPORT the abort
    died = r["outcome"] == "Crashed" and r.get("exc") == "KeyboardInterrupt" and signame == "SIGINT"
    # where the report itself cannot be written (stderr unwritable) a failing end of any kind is enough -- the FILES are
    # judged above all the same
    if env in UNWRITABLE and r["outcome"] == "Crashed":
        aborted = True
        ctx.count("abort-report-unwritable")
    # a failing input of which the tool dies by itself: dying the same death, having done everything the undisturbed run
    # does, is "as if no signal had arrived" (the tool stops, failing, and touches no later file)
    if P.und_outcome == "Crashed" and r["outcome"] == "Crashed" and r.get("exc") == P.und_exc and stripped == P.prog:
        aborted = True
        ctx.count("ended-as-the-undisturbed-failure")
    if not aborted and not (died and (weak or inunit is None)):
        ok = viol("run did not end in an aborting SystemExit after the signal (ended %s)" % ended, handler_ran=handled)
    if not weak:
        after = [i for i, tk in enumerate(stripped) if i >= t and tk[0] == "F"]     # executed after the signal was sent
        if inunit is None and mode == "event" and after:
            ok = viol("signal outside any file's operations did not end the run immediately", file_operations_after_signal=len(after))
        if prefix:
            for i in after:
                u = P.unit_of_event.get(i)
                if u is not None and u > stages[-1]:
                    ok = viol("file operation of a later file executed after the signal")
                    break
    ctx.oracle_cases += 1
    # ---- R2: the model predicts the run -------------------------------------------------------------
    if not handled:
        disagree("c20.tool", "%s: sig %s at %d (%s): SignalHandler._handler did not run; the run ended %s" %
                 (tag, signame, t, P.prog[t], ended), data)
    elif not prefix:
        disagree("c20.tool", "%s: signalled run is not a prefix of the undisturbed program (sig %s at %d; diverges at %d)" %
                     (tag, signame, t, next((i for i, (a, b) in enumerate(zip(stripped, P.prog)) if a != b), len(P.prog))), data)
    elif use_model:
        spos = trace.index("S")
        woven = P.mprog[:spos] + ["S"] + P.mprog[spos:]
        pr = parse_run(ctx.model.call("sig_run", *woven))
        obs_ops = [tok_model(tk)[1:] for tk in trace if tk[0] == "F"]
        if pr is None:
            disagree("c20.tool", "%s: model error" % tag, data)
        elif (pr["out"], pr["steps"], pr["ops"]) != (r["outcome"], len(trace), obs_ops):
            disagree("c20.tool", "%s: sig %s at %d (%s): model predicts %s after %d events / %d ops, observed %s after %d events / %d ops" %
                         (tag, signame, t, P.prog[t], pr["out"], pr["steps"], len(pr["ops"]), r["outcome"], len(trace), len(obs_ops)), data)
        elif spos != t:
            disagree("c20.tool", "%s: handler ran at event %d, signal sent at %d" % (tag, spos, t), data)
    ctx.corr_cases += 1
    cut = len(stripped) < len(P.prog)
    ctx.count("cut-short" if cut else "ran-to-end-then-exit")
    ctx.count("environment:" + env)
    ctx.case((case.id, signame, t, mode, env),
             {"case": case.id, "signal": signame, "index": t, "environment": env, "event": P.prog[t], "inside_block": r["nosig_at"], "outcome": r["outcome"],
              "events_run": len(trace), "of": len(P.prog)} if ctx.evaluations % 97 == 0 else None)
    ctx.count("delivered-%s" % ("inside-block" if r["nosig_at"] else "outside-block"))
    ctx.count("at:" + ("F" if P.prog[t][0] == "F" else P.prog[t]))
    return ok


JOB_CHUNK = 96


def check_case(ctx, case, schedule, linemode, par, deadline=None):
    """schedule: function (number of events, case) -> list of (signame, index, environment name); deadline: wall-clock
    time after which no further signalled runs are started (escalated search)"""
    mode = "line" if linemode else "event"
    use_model = getattr(ctx, "use_model", True)
    wanted = schedule(None, case)                # which environments this schedule will ask for
    P = build_plan(ctx, case, linemode, par, wanted)
    for p in P.problems:
        ctx.disagree("c20.plan", "%s %s: %s" % (case.id, mode, p), {"case": case.id, "mode": mode})
    if P.fatal:                                  # no undisturbed reference to judge signalled runs against
        return P
    if os.path.realpath(P.mutagen) != os.path.realpath(common.REPO):
        ctx.disagree("c20.harness", "child imported mutagen from %s, not %s" % (P.mutagen, common.REPO), {})
    ctx.notes.setdefault("events_per_run", {})["%s/%s" % (case.id, mode)] = len(P.prog)
    ctx.notes.setdefault("mutagen_path", P.mutagen)
    if use_model:
        mp = P.mprog
        if P.und_outcome == "Crashed" and mp and mp[-1] == "X":
            mp = mp[:-1] + ["L"]          # the file operations before the tool's own death must lie inside the block all the same
        prot = ctx.model.call("sig_protected", *mp)
        ctx.corr_cases += 1
        if prot != "ok 1":
            k = first_unprotected(mp)
            ctx.disagree("c20.tool", "%s %s: recorded trace is NOT protected (%s): event %d %s lies outside SignalHandler.block()" %
                         (case.id, mode, prot, k, P.prog[k] if k is not None else "?"), {"case": case.id, "mode": mode})
        und = parse_run(ctx.model.call("sig_run", *P.mprog))
        if und is None or und["out"] != P.und_outcome or und["steps"] != len(P.prog):
            ctx.disagree("c20.tool", "%s %s: model does not finish the undisturbed program: %s" % (case.id, mode, und), {"case": case.id})
    todo = schedule(len(P.prog), case)
    if case.failing and P.spans:                 # every event of the failing file's unit (and the block boundaries around it)
        todo = [x for x in todo if x[1] <= P.spans[0][1] + 2]
    todo = [x for x in todo if P.prog[x[1]] != "X"]      # an exception leaving a block is recorded, it is not a point of delivery
    done = 0
    nviol0 = len(ctx.violations)
    # healthy environment first; the other environments only add information where the tool is fine in the healthy one
    for part_envs in (False, True):
        if part_envs and len(ctx.violations) > nviol0:
            break
        sub = [(s, t, P.envs.get(e)) if e != "plain" else (s, t, e) for s, t, e in todo if (e != "plain") == part_envs]
        sub = [x for x in sub if x[2] is not None]
        chunk = JOB_CHUNK if deadline is not None else max(1, len(sub))
        for c in range(0, len(sub), chunk):
            if deadline is not None and time.time() > deadline:
                ctx.count("runs-skipped-search-budget", len(sub) - c)
                break
            part = sub[c:c + chunk]
            jobs = [{"case": case, "kind": "trace", "at": t, "sig": s, "linemode": linemode, "env": e} for s, t, e in part]
            for (s, t, e), r in zip(part, run_jobs(jobs, par)):
                check_run(ctx, P, s, t, r, mode, e)
            done += len(part)
    ctx.count("runs:%s/%s" % (case.id, mode), done)
    ctx.violations[nviol0:] = sorted(ctx.violations[nviol0:], key=viol_rank)      # stable: the most telling schedule first
    return P


def viol_rank(v):
    w = v["what"]
    return 0 if "half-done" in w else 1 if "killed" in w else 2 if "continued" in w or "later file" in w else 3 if "did not finish" in w else 4


def first_unprotected(mprog):
    flag = False
    for i, t in enumerate(mprog):
        if t == "E":
            flag = True
        elif t == "L":
            flag = False
        elif t[0] == "F" and not flag:
            return i
        elif t == "X":
            return i
    return None


# ------------------------------------------------------------------------------------------------
# R1: the real SignalHandler class against the model, on abstract event lists
# ------------------------------------------------------------------------------------------------

def sm_lists(rng, maxlen, nrandom):
    alpha = ["S", "E", "L", "F", "O", "X"]
    out = []
    for n in range(0, maxlen + 1):
        for tup in itertools.product(alpha, repeat=n):
            depth, good = 0, True
            for e in tup:
                if e == "E":
                    depth += 1
                elif e == "L":
                    if depth == 0:
                        good = False
                        break
                    depth -= 1
            if good:
                out.append(list(tup))
    for _ in range(nrandom):
        n = rng.randrange(6, 41)
        l, depth = [], 0
        for _ in range(n):
            e = rng.choice("SSEELLFFFFOX" if rng.random() < 0.3 else "SEELLFFFFFO")
            if e == "L" and depth == 0:
                e = "E"
            depth += 1 if e == "E" else -1 if e == "L" else 0
            l.append(e)
        out.append(l)
    # number the file operations
    res = []
    for l in out:
        k, m = 0, []
        for e in l:
            if e == "F":
                m.append("F%x:%x" % (1 + k % 2, k))
                k += 1
            else:
                m.append(e)
        res.append(m)
    return res


def sm_child(lists, wfd):
    """drive the real class: Sig = a real signal through whatever init() installed.  lists: [(events, signal name,
    environment "plain" | "eio")].
    Every list starts from the dispositions of a freshly started interpreter (the state in which a console script
    calls init()); one result line is written per list as soon as it is done, so that a run in which the signal
    kills the process (no handler installed for it) still tells the parent which list did it."""
    try:
        from mutagen._tools._util import SignalHandler
        missing = [m for m in ("init", "block") if not callable(getattr(SignalHandler, m, None))]
        if missing:                               # the class is not the one this driver knows: nothing to judge here
            os.write(wfd, json.dumps({"undrivable": "SignalHandler has no %s()" % "/".join(missing)}).encode() + b"\n")
            return
        for item in lists:
            l, signame, env = item if len(item) == 3 else (item[0], item[1], "plain")
            fresh_dispositions()
            setup_env(env)                        # "plain" / "eio": in-process streams only
            h = SignalHandler()
            h.init()
            stack, ops, steps, res, at_signal = [], [], 0, "Finished", False
            try:
                for e in l:
                    steps += 1
                    if e == "S":
                        at_signal = True
                        os.kill(os.getpid(), getattr(signal, signame))
                        _nop()
                        at_signal = False
                    elif e == "E":
                        cm = h.block()
                        cm.__enter__()
                        stack.append(cm)
                    elif e == "L":
                        stack.pop().__exit__(None, None, None)
                    elif e == "X":
                        try:
                            raise ValueError("body")
                        except ValueError as exc:
                            swallowed = False
                            for cm in reversed(stack):
                                if cm.__exit__(type(exc), exc, exc.__traceback__):
                                    swallowed = True
                                    break
                            if not swallowed:
                                raise
                    elif e[0] == "F":
                        ops.append(e[1:])
            except SystemExit:
                res = "Exit"
            except ValueError:
                res = "Crashed"
            except BaseException as exc:
                # out of the signal delivery (KeyboardInterrupt: somebody else's handler; OSError: the handler's own I/O
                # failed) -- an observation of the class; anywhere else the driver could not drive this class
                res = ("RaisedAtSignal:" if at_signal else "Raised:") + type(exc).__name__
            line = json.dumps([res, steps, ops, bool(getattr(h, "_interrupted", None)), bool(getattr(h, "_nosig", None))]).encode() + b"\n"
            off = 0
            while off < len(line):
                off += os.write(wfd, line[off:])
    finally:
        os._exit(0)


def drive_class(lists):
    """observations of the real class for every (events, signal) of lists, in order; a list during which the process
    died is observed as ["Killed:<signo>", ...] and the remaining lists are driven by a new child"""
    obs, restarts = [], 0
    while len(obs) < len(lists) and restarts <= 12:
        r, w = os.pipe()
        sys.stdout.flush()
        sys.stderr.flush()
        pid = os.fork()
        if pid == 0:
            os.close(r)
            sm_child(lists[len(obs):], w)
        os.close(w)
        chunks = []
        while True:
            b = os.read(r, 1 << 20)
            if not b:
                break
            chunks.append(b)
        os.close(r)
        _, status = os.waitpid(pid, 0)
        for line in b"".join(chunks).split(b"\n"):
            if line:
                try:
                    o = json.loads(line.decode())
                except ValueError:
                    return obs, "unparsable output of the child driving SignalHandler"
                if isinstance(o, dict):
                    return obs, o.get("undrivable", "?")
                obs.append(o)
        if len(obs) < len(lists):
            restarts += 1
            if os.WIFSIGNALED(status):
                obs.append(["Killed:%d" % os.WTERMSIG(status), None, None, None, None])
            else:
                return obs, "child driving SignalHandler ended early (exit status %r) at list %d" % (status, len(obs))
    return obs, (None if len(obs) == len(lists) else "child driving SignalHandler was killed %d times" % restarts)


def state_machine_correspondence(ctx, maxlen, nrandom):
    lists = sm_lists(ctx.rng, maxlen, nrandom)
    # signal by list number; every second triple of lists with stdout/stderr whose write raises EIO
    pairs = [(l, SIGNAMES[n % 3], "eio" if (n // 3) % 2 else "plain") for n, l in enumerate(lists)]
    obs, problem = drive_class(pairs)
    if problem:
        ctx.disagree("c20.class", "driving the real SignalHandler failed: %s" % problem, {})
    nd = 0
    for (l, signame, env), o in zip(pairs, obs):
        pr = None
        if getattr(ctx, "use_model", True):
            pr = parse_run(ctx.model.call("sig_run", *l)) if l else parse_run(ctx.model.call("sig_run"))
        ctx.corr_cases += 1
        ctx.count("class-corr:%s" % o[0])
        ctx.case(("sm", tuple(l)) if "S" in l else None)
        got = None if pr is None else [pr["out"], pr["steps"], pr["ops"], pr["interrupted"], pr["nosig"]]
        if got != o:
            nd += 1
            if nd <= 3:
                ctx.disagree("c20.class", "events %s (%s, %s): real SignalHandler %s, model %s" % (" ".join(l), signame, env, o, got),
                             {"events": l, "signal": signame, "environment": env})
            # is the difference a property failure?  a protected, exception-free program whose blocked work is cut or continued
            direct_class_oracle(ctx, l, o, signame, env)


def direct_class_oracle(ctx, l, o, signame="SIGINT", env="plain"):
    """property statement on the class alone (no model): used when the class and the model differ"""
    prog = [e for e in l if e != "S"]
    if "X" in prog or "S" not in l or first_unprotected(prog) is not None:
        return
    if o[0] not in ("Finished", "Exit", "Crashed") and not o[0].startswith(("Killed:", "RaisedAtSignal:")):
        return                                    # the driver itself failed on this class (TypeError ...): a disagreement, not a verdict
    depth = 0
    for e in prog:
        depth += 1 if e == "E" else -1 if e == "L" else 0
        if depth > 1:
            return
    if depth != 0:
        return
    # reference: cut at the first signal; outside -> there; inside -> after the block's Leave
    k = l.index("S")
    pre = l[:k]
    inside = pre.count("E") > pre.count("L")
    rest = [e for e in l[k + 1:] if e != "S"]
    if inside:
        j = rest.index("L")
        done = pre + rest[:j + 1]
    else:
        done = pre
    want_ops = [e[1:] for e in done if e[0] == "F"]
    # an unblocked signal "terminates immediately": so does Python's own KeyboardInterrupt on SIGINT / death by the signal
    died = not inside and ((o[0].startswith("RaisedAtSignal:") and o[2] == want_ops) or o[0] == "Killed:%d" % getattr(signal, signame))
    if (o[0] != "Exit" or o[2] != want_ops) and not died:
        key = "SignalHandler: " + ("blocked work not completed / run not aborted" if inside else "unblocked signal did not abort at once")
        ctx.count("class-oracle-failures")
        if env != "plain":
            key += " [environment: %s]" % ENV_TEXT.get(env, env)
        if not any(v["what"] == key and v["data"].get("signal") == signame for v in ctx.violations):   # one schedule per kind and signal
            ctx.violation("oracle", key, {"runner": "c20.class", "events": l, "signal": signame, "environment": env, "observed": o, "expected_ops": want_ops,
                                          "dispositions_before_init": "fresh interpreter (SIGINT default_int_handler, SIGTERM/SIGHUP SIG_DFL)"})


# ------------------------------------------------------------------------------------------------
# V: vm_compute cross-check
# ------------------------------------------------------------------------------------------------

def coq_event(t):
    if t[0] == "F":
        f, i = t[1:].split(":")
        return "FileOp %d %d" % (int(f, 16), int(i, 16))
    return {"S": "Sig", "E": "Enter", "L": "Leave", "O": "Other", "X": "Exn"}[t]


def vm_crosscheck(ctx):
    rng = ctx.rng
    lists = []
    for _ in range(30):
        n = rng.randrange(0, 15)
        l, k = [], 0
        for _ in range(n):
            e = rng.choice("SSEELLFFFFOX")
            if e == "F":
                l.append("F%x:%x" % (rng.randrange(1, 4), k))
                k += 1
            else:
                l.append(e)
        lists.append(l)
    cases = ["let l := [%s] in let r := sig_run l in (r_ops r, sig_outcome_code (r_out r), r_steps r, sig_protected (sig_strip l))" %
             "; ".join(coq_event(t) for t in l) for l in lists]
    pre = "From Coq Require Import ZArith List. Import ListNotations. Require Import Model.Signal. Open Scope Z_scope."
    res, log = vm_shard("c20", pre, cases)
    if res is None or len(res) != len(cases):
        ctx.disagree("c20.vm_shard", "vm_compute shard failed to run: %s" % (log,), {})
        return
    codes = {"Finished": 0, "Exit": 1, "Crashed": 2}
    for l, rv in zip(lists, res):
        pr = parse_run(ctx.model.call("sig_run", *l))
        prot = ctx.model.call("sig_protected", *[t for t in l if t != "S"])
        ctx.vm_cases += 1
        m = re.match(r"\(\[(.*)\], (\d+), (\d+), (true|false)\)$", rv.replace("%Z", ""))
        if not m or pr is None:
            ctx.disagree("c20.vm_shard", "cannot parse %r / %r" % (rv, pr), {})
            return
        ops = ["%x:%x" % (int(a), int(b)) for a, b in re.findall(r"\((\d+), (\d+)\)", m.group(1))]
        if ops != pr["ops"] or int(m.group(2)) != codes[pr["out"]] or int(m.group(3)) != pr["steps"] or \
                (m.group(4) == "true") != (prot == "ok 1"):
            ctx.disagree("c20.vm_shard", "extracted binary and vm_compute differ on %s: %s vs %s/%s" % (" ".join(l), rv, pr, prot), {"events": l})
            return


# ------------------------------------------------------------------------------------------------
# entry points
# ------------------------------------------------------------------------------------------------

def parallelism():
    try:
        n = len(os.sched_getaffinity(0))
    except AttributeError:
        n = os.cpu_count() or 2
    return max(2, min(8, n // 2))


def primary_cases(cases):
    """one invocation per tool (the first listed): the environment dimension is explored densely on these"""
    first = {}
    for c in cases:
        first.setdefault(c.tool, c.id)
    return set(first.values())


def _stride_envs(n, off, stride=5):
    """every stride-th index, signal and environment rotating so that all 9 pairs occur"""
    out = []
    for t in range(off, n, stride):
        k = t // stride
        out.append((SIGNAMES[k % 3], t, ENVS[(k + k // 3 + off) % 3]))
    return out


def quick_schedule(rng, primary):
    """schedules return the environment names they use when called with n = None"""
    def sched(n, case):
        if n is None:
            return list(ENVS)
        todo = [("SIGINT", t, "plain") for t in range(n)]
        for s in ("SIGTERM", "SIGHUP"):
            stride = 5
            off = rng.randrange(stride)
            todo += [(s, t, "plain") for t in range(off, n, stride)]
        off = rng.randrange(5)
        if case.id in primary:
            if n <= 200:
                todo += [("SIGINT", t, e) for e in ENVS for t in range(n)]
            else:                                  # long runs: every index once, the environment rotating
                todo += [("SIGINT", t, ENVS[(t + off) % 3]) for t in range(n)]
            todo += [x for x in _stride_envs(n, off) if x[0] != "SIGINT"]
        else:
            todo += _stride_envs(n, off)
        return todo
    return sched


def full_schedule(n, case):
    if n is None:
        return list(ENVS)
    todo = [(s, t, "plain") for s in SIGNAMES for t in range(n)]
    todo += [(SIGNAMES[(t + i) % 3], t, e) for i, e in enumerate(ENVS) for t in range(n)]
    return todo


def line_schedule(rng):
    def sched(n, case):
        if n is None:
            return []
        off = rng.randrange(3)
        return [(SIGNAMES[(t + off) % 3], t, "plain") for t in range(n)]
    return sched


def run(ctx):
    par = parallelism()
    try:
        cases = make_cases(case_rng(ctx))
        failing = set()
        for case in cases:
            if len(failing) >= 3:                # enough concrete failing schedules; do not flood the replay directory
                ctx.notes["stopped_early"] = "violations in %s" % sorted(failing)
                break
            check_case(ctx, case, full_schedule if ctx.thorough else quick_schedule(ctx.rng, primary_cases(cases)), False, par)
            failing = set(v["data"].get("case") for v in ctx.violations if v["data"].get("case"))
        for case in cases:                       # source-line granularity: two small invocations in quick, all in thorough
            if failing:
                break
            if ctx.thorough or case.id in ("mid3cp.copy", "mid3v2.delete-v1"):
                check_case(ctx, case, line_schedule(ctx.rng), True, par)
                failing = set(v["data"].get("case") for v in ctx.violations if v["data"].get("case"))
        # the class on its own (after the tools, so that a tool-level failing schedule is the first one listed)
        state_machine_correspondence(ctx, 7 if ctx.thorough else 5, 3000 if ctx.thorough else 400)
        vm_crosscheck(ctx)
        ctx.notes["real_signal_deliveries"] = sum(v for k, v in ctx.hist.items() if k.startswith("deliveries:"))
    finally:
        cleanup()


SEARCH_BUDGET = {"quick": 75, "thorough": 1500}       # seconds of wall clock for the escalated search


def search(ctx, broken):
    """a proof or the correspondence broke and run() found no failing schedule: every index x every signal (event
    mode) on every invocation, then line mode on the small ones -- within a wall-clock budget.  run() has already
    delivered SIGINT at every event index of every invocation (and the other two on a stride), so what is new here
    is SIGTERM/SIGHUP at the indices the stride skipped and more source lines; a change that breaks the property for
    the tools is found by run() itself, this search is the second look before `no-failing-input-found`"""
    before = len(ctx.violations)
    par = parallelism()
    deadline = time.time() + SEARCH_BUDGET["thorough" if ctx.thorough else "quick"]
    tried = []
    try:
        cases = make_cases(case_rng(ctx))
        plan = [(c, False) for c in cases if c.quick] + [(c, False) for c in cases if not c.quick] + [(c, True) for c in cases if c.quick]
        for case, linemode in plan:
            if time.time() > deadline or len(ctx.violations) > before + 8:
                break
            if linemode and len(ctx.violations) > before:
                break
            if ctx.thorough and not linemode:
                continue                       # run() did exactly this
            check_case(ctx, case, line_schedule(ctx.rng) if linemode else full_schedule, linemode, par, deadline)
            tried.append("%s/%s" % (case.id, "line" if linemode else "event"))
    finally:
        cleanup()
    ctx.notes["search"] = "every event index x 3 signals on %d invocation/mode pairs%s found %d failing schedules" % (
        len(tried), " (stopped by the %d s budget; %d runs skipped)" % (SEARCH_BUDGET["thorough" if ctx.thorough else "quick"],
                                                                        ctx.hist.get("runs-skipped-search-budget", 0))
        if time.time() > deadline else "", len(ctx.violations) - before)


def replay(ctx, payload):
    d = payload.get("data", {})
    try:
        if payload.get("kind") != "failing-input" or d.get("runner") not in ("c20.tool", "c20.class"):
            run(ctx)
            return bool(ctx.violations or ctx.disagreements)
        if d["runner"] == "c20.class":
            l, signame, env = d["events"], d.get("signal", "SIGINT"), d.get("environment", "plain")
            obs, problem = drive_class([(l, signame, env)])
            if not obs:
                return True
            direct_class_oracle(ctx, l, obs[0], signame, env)
            return bool(ctx.violations)
        import random
        cases = [c for c in make_cases(random.Random("C20-cases-%d" % payload.get("seed", ctx.seed))) if c.id == d["case"]]
        if not cases:
            return False
        case = cases[0]
        if case.argv() != d.get("argv"):
            ctx.notes["replay"] = "invocation rebuilt from the seed differs from the recorded argv"
        linemode = d["mode"] == "line"
        env = d.get("environment", "plain")
        P = build_plan(ctx, case, linemode, 2)
        if P.fatal:
            return True
        r = run_jobs([{"case": case, "kind": "trace", "at": d["index"], "sig": d["signal"], "linemode": linemode, "env": env}], 1)[0]
        return not check_run(ctx, P, d["signal"], d["index"], r, d["mode"], env)
    finally:
        cleanup()


def coverage_extra(ctx):
    return {"exhaustive": False,
            "exhaustive_note": "per exercised invocation every event index is signalled (quick: all indices for SIGINT, stride 5 for SIGTERM/SIGHUP; "
                               "thorough: all indices x 3 signals + every source line); the theorems cover all programs and schedules",
            "real_signal_deliveries": ctx.notes.get("real_signal_deliveries"),
            "events_per_run": ctx.notes.get("events_per_run")}
