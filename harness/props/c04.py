"""C04 -- Malformed input is rejected cleanly and in bounded time.
Theorems: props/C04*.v (totality / fuel bounds of the exception-faithful parser models).
Direct oracle: mutated and structure-corrupted inputs through every opener, then save/delete through
whatever was opened, in a watchdog process pool; only MutagenError may escape; work is bounded."""
import io, os, re, sys, glob, time, signal, random, struct, hashlib, traceback, multiprocessing
import common
import c04_loaders

PROP = "C04"
PROP_FILES = sorted(os.path.relpath(p, common.COQ) for p in glob.glob(os.path.join(common.COQ, "props", "C04*.v")))
TRUSTED = [
    "the loader mirrors coq/model/Parse_*.v (Musepack, WavPack, SMF, VComment, OggVorbis/Opus/Speex/Theora Info on Model.Ogg.page_parse, _APEv2Data, ID3Header, MP4 Atom/Atoms, "
    "TrueAudio/MonkeysAudio/OptimFROG headers, DSF chunks + metadata pointer, AC3Info over BitReader, AIFF.load's IFF chunk walk + AIFFInfo/read_float, WAVE.load's RIFF walk + WaveStreamInfo, DSDIFF.load's 64-bit IFF walk + DSDIFFInfo, AACInfo (ADIF / ADTS) over BitReader, FLAC.load's block walk with StreamInfo / CueSheet / Picture / VCFLACDict loads, ASF.load's object loop + GUID dispatch + attribute parsers, OggFLAC info / comment loading without _post_tags) are hand-written, tied to /repo by outcome-class + decoded-field correspondence on the malformed stream and field sweeps",
    "the file object of the mirrors is CPython's BytesIO (read/seek/tell incl. ValueError on negative absolute seek, clamping of relative seeks, OverflowError beyond "
    "ssize_t) -- Model.Parse_base; real files differ (negative seek is an OSError, which every mirrored loader converts to its error class)",
    "c04_input (theorem hypothesis): the input is a list of bytes (0..255) shorter than 2^62; Python floats, text decoding with errors='replace' and AtomError "
    "(represented by EAssert) and BitReaderError (represented by ENotImpl in Parse_ac3) are outside Base.Py; the MutagenError subclasses that callers catch (InvalidChunk, EmptyChunk, "
    "ID3NoHeaderError, and KeyError of IFF __getitem__) are values (None / -1 / 0) in Parse_aiff and Parse_dsf; read_float's binary64 arithmetic is explicit integer arithmetic: the float/utf-8 steps that cannot raise are not modelled, the one float conversion that can (SMF) is",
    "parsers without a model are explored by the direct oracle only -- a search, not a proof",
]
RULE = ("correspondence: for every loader with a Coq mirror (MODELLED) the fuzzer's own malformed stream (seeds()/mutate over the loader's own samples, "
        "synthesised seeds and now and then a wrong-format sample) plus targeted sweeps (every header offset set to 0, 1, 2, 2^k-1, 2^k, 2^31, 2^32-1 in 1/2/4-byte "
        "fields of both byte orders; truncation at every offset up to 200; var-int / size / count fields at every size class incl. the 2^63 and float-conversion "
        "limits; nesting depth around the limit) is fed to the mirrored function on a BytesIO and to the extracted mirror; outcome class (ok / MutagenError / "
        "exception class / timeout-fuel) and, when both accept, the decoded fields (floats recomputed from the model's exact integers, compared as float.hex) "
        "must agree; any non-MutagenError outcome of the implementation is a violation with that input; a vm_compute shard re-evaluates 6 inputs per loader. "
        "direct oracle: every sample of tests/data (< 200 KB) and small synthesised files are mutated (bit/byte flips, truncation at every offset class, "
        "splice from another sample, length/count/offset field extremes 0, 1, 2^k-1, 2^31, 2^32-1 in both byte orders at header offsets, zero runs, insertions) "
        "and fed to the opener of their own type, mutagen.File, ID3, APEv2 and random further openers (all 32 upstream openers in thorough); each opened object is "
        "then saved and deleted through the same stream; the contract of fuzzing/fuzztools.py is checked: only MutagenError may escape (File may return None), "
        "the caller's stream stays open, a 5 s watchdog bounds time, and file-object calls / bytes read are bounded by a polynomial in the input size. "
        "non-trivial = the input differs from its seed and was accepted or rejected past the first header check; distinct by (opener, input hash)")
MANIFEST = {
    "text": "partial: totality theorems (every byte string yields Ok or a MutagenError-class rejection, fuel never exhausted, fuel a*len+b) for the exception-faithful "
            "mirrors of MusepackInfo, WavPackInfo, SMF, VComment.load, OggPage + OggVorbis/Opus/Speex/Theora Info (under OggFileType.load's mapping), _APEv2Data, ID3Header, MP4 Atom/Atoms "
            "(under MP4.load's mapping), the TrueAudio/MonkeysAudio/OptimFROG header readers, DSF.load up to the ID3 header, AC3Info (AC-3 / E-AC-3 headers through BitReader) "
            "and AIFF.load's chunk walk + AIFFInfo, WAVE.load's RIFF walk + WaveStreamInfo, DSDIFF.load's 64-bit IFF walk + DSDIFFInfo (each without the ID3 parse), AACInfo (ADIF header + program "
            "config elements, ADTS sync search + frame walk) FLAC.load (header check, metadata block walk, StreamInfo / CueSheet / Picture / VCFLACDict loads), ASF.load (object loop, GUID dispatch, attribute parsers; a nested header extension object is refused) "
            "and OggFLAC info + comment loading (without _post_tags / find_last); all other parsers, the tag-level parsers behind these headers, and the "
            "open-save-delete contract as a whole, by structured + mutation fuzzing with a watchdog over all openers",
    "note": "Not covered by theorem: parsers without an exception-faithful model in this commit (listed in the evidence as families_without_theorem); they are "
            "explored by the direct oracle, which is a search. Allocation is bounded by construction in the model (reads return at most what the file holds); "
            "in the implementation it is observed through the bytes-read counter.",
    "technique": "Coq totality/fuel-bound proofs for parser models + structure-aware mutation fuzzing of all openers under a watchdog with operation budgets",
}
if not PROP_FILES:
    MANIFEST = dict(MANIFEST, not_applicable="no parser totality theorem file coq/props/C04*.v is built yet in this commit (the fuzzing oracle exists)")

DATA = os.path.join(common.REPO, "tests", "data")


class Counting(io.BytesIO):
    def __init__(self, d):
        super().__init__(d)
        self.calls = 0
        self.bytes_read = 0
        self.closed_by_callee = False

    def read(self, n=-1):
        self.calls += 1
        r = super().read(n)
        self.bytes_read += len(r)
        return r

    def seek(self, *a):
        self.calls += 1
        return super().seek(*a)

    def tell(self):
        self.calls += 1
        return super().tell()

    def write(self, b):
        self.calls += 1
        return super().write(b)

    def truncate(self, *a):
        self.calls += 1
        return super().truncate(*a)

    def close(self):
        self.closed_by_callee = True


class Timeout(BaseException):
    """not an Exception: the loaders' own `except Exception` conversions must not swallow the watchdog"""
    pass


def _alarm(*a):
    raise Timeout()


def site_of(e):
    tb = traceback.extract_tb(e.__traceback__)
    for fr in reversed(tb):
        if "/mutagen/" in fr.filename:
            return "%s:%s" % (fr.filename.split("/mutagen/", 1)[1], fr.name)
    return "?"


def contract(opener, data, limit_s=5.0):
    """run open -> save -> reopen -> delete; returns list of (phase, problem) and counters"""
    import mutagen
    problems = []
    f = Counting(data)
    phase = "open"
    res = None
    t0 = time.time()
    signal.signal(signal.SIGALRM, _alarm)
    signal.setitimer(signal.ITIMER_REAL, limit_s)
    try:
        try:
            try:
                res = opener(f)
            except mutagen.MutagenError:
                res = None
            if res is not None:
                phase = "save"
                f.seek(0)
                try:
                    res.save(f)
                except mutagen.MutagenError:
                    pass
                phase = "reopen"
                f.seek(0)
                try:
                    res = opener(f)
                except mutagen.MutagenError:
                    res = None
                if res is not None:
                    phase = "delete"
                    f.seek(0)
                    try:
                        res.delete(f)
                    except mutagen.MutagenError:
                        pass
        except Timeout:
            problems.append((phase, "TIMEOUT", "no result within %.0f s" % limit_s))
        except RecursionError as e:
            problems.append((phase, "RecursionError", site_of(e)))
        except MemoryError as e:
            problems.append((phase, "MemoryError", site_of(e)))
        except Exception as e:
            problems.append((phase, type(e).__name__, site_of(e)))
    finally:
        signal.setitimer(signal.ITIMER_REAL, 0)
    dt = time.time() - t0
    if dt >= 0.95 * limit_s and not any(p[1] == "TIMEOUT" for p in problems):
        # the alarm fired but was converted on the way out: the time itself is the verdict
        problems.append((phase, "TIMEOUT", "no result within %.0f s" % limit_s))
    if f.closed_by_callee:
        problems.append((phase, "CLOSED", "caller's stream closed"))
    return problems, f.calls, f.bytes_read, dt


OPENER_NAMES = ["MP3", "TrueAudio", "OggTheora", "OggSpeex", "OggVorbis", "OggFLAC", "FLAC", "AIFF", "APEv2File", "MP4", "ID3FileType", "WavPack",
                "Musepack", "MonkeysAudio", "OptimFROG", "ASF", "OggOpus", "AC3", "TAK", "DSF", "EasyMP3", "EasyID3FileType", "EasyTrueAudio", "EasyMP4",
                "File", "SMF", "AAC", "EasyID3", "ID3", "APEv2", "WAVE", "DSDIFF"]


# which of the 32 openers run a loader that has a totality theorem (the theorem covers that loader, not the
# opener's whole open-save-delete path)
OPENER_THEOREMS = {
    "Musepack": ["Musepack", "APEv2Data"], "WavPack": ["WavPack", "APEv2Data"], "SMF": ["SMF"],
    "OggVorbis": ["OggVorbisInfo", "VComment"],
    "OggTheora": ["OggTheoraInfo", "VComment"], "OggSpeex": ["OggSpeexInfo", "VComment"], "OggOpus": ["OggOpusInfo", "VComment"], "OggFLAC": ["OggFLAC"],
    "APEv2File": ["APEv2Data"], "APEv2": ["APEv2Data"],
    "MonkeysAudio": ["MonkeysAudio", "APEv2Data"], "OptimFROG": ["OptimFROG", "APEv2Data"], "TAK": ["APEv2Data"],
    "TrueAudio": ["TrueAudio", "ID3Header"], "EasyTrueAudio": ["TrueAudio", "ID3Header"],
    "MP3": ["ID3Header", "ID3determine_bpi"], "EasyMP3": ["ID3Header", "ID3determine_bpi"], "ID3FileType": ["ID3Header", "ID3determine_bpi"],
    "EasyID3FileType": ["ID3Header", "ID3determine_bpi"], "ID3": ["ID3Header", "ID3determine_bpi"], "EasyID3": ["ID3Header", "ID3determine_bpi"],
    "MP4": ["MP4Atoms"], "EasyMP4": ["MP4Atoms"],
    "DSF": ["DSF", "ID3Header", "ID3determine_bpi"], "AC3": ["AC3"], "AIFF": ["AIFF", "ID3Header", "ID3determine_bpi"], "WAVE": ["WAVE", "ID3Header", "ID3determine_bpi"], "DSDIFF": ["DSDIFF", "ID3Header", "ID3determine_bpi"], "AAC": ["AAC"], "FLAC": ["FLAC"], "ASF": ["ASF"],
}
OPENER_THEOREMS = {k: v for k, v in OPENER_THEOREMS.items() if v}


def openers():
    sys.path.insert(0, os.path.join(common.REPO, "fuzzing"))
    import fuzztools
    return {o.__name__: o for o in fuzztools.OPENERS}


def mutate(R, d, others):
    d = bytearray(d)
    k = R.choice(["flip", "flip", "trunc", "splice", "field", "field", "zero", "insert", "headfield"])
    if not d:
        return bytes(d), k
    if k == "flip":
        for _ in range(R.choice([1, 1, 2, 4, 16])):
            i = R.randrange(min(len(d), R.choice([64, 256, len(d)])))
            d[i] = R.randrange(256)
    elif k == "trunc":
        d = d[:R.choice([R.randrange(len(d)), R.randrange(min(len(d), 200))])]
    elif k == "splice":
        o = R.choice(others)
        i = R.randrange(len(d)); j = R.randrange(max(1, len(o)))
        d[i:i + R.randrange(64)] = o[j:j + R.randrange(64)]
    elif k in ("field", "headfield"):
        i = R.randrange(min(len(d), 64 if k == "headfield" else 1024))
        w = R.choice([1, 2, 3, 4, 8])
        v = R.choice([0, 1, 255, 2 ** (8 * w) - 1, 2 ** (8 * w - 1), 2 ** (8 * w - 1) - 1, 0x7F7F7F7F, len(d), len(d) + 1, max(0, len(d) - i)])
        d[i:i + w] = (v % (1 << (8 * w))).to_bytes(w, R.choice(["big", "little"]))
    elif k == "zero":
        i = R.randrange(len(d)); n = R.randrange(1, 32)
        d[i:i + n] = b"\0" * n
    else:
        i = R.randrange(len(d))
        d[i:i] = bytes(R.randrange(256) for _ in range(R.randrange(1, 16)))
    return bytes(d), k


SYNTH = [
    b"MPCK" + b"XX\x00" + b"\x00" * 40,
    b"OggS\x00\x02" + b"\x00" * 20 + b"\x00",              # page with zero segments
    b"MThd\x00\x00\x00\x06\x00\x01\x00\x01\x00\x60MTrk\x00\x00\x00\x04\x90",
    b"FRM8" + (60).to_bytes(8, "big") + b"DSD " + b"PROP" + (20).to_bytes(8, "big") + b"SND " + b"CMPR" + (4).to_bytes(8, "big") + b"\xff\xfe\xfd\xfc",
    b"ID3\x04\x00\x00\x00\x00\x7f\x7f" + b"\x00" * 20,
    b"wvpk" + b"\x00" * 20 + (15 << 23).to_bytes(4, "little") + b"\x00" * 8,
]


def seeds():
    out = []
    for p in sorted(glob.glob(os.path.join(DATA, "*"))):
        if os.path.getsize(p) < 200000:
            out.append((os.path.basename(p), open(p, "rb").read()))
    for i, s in enumerate(SYNTH):
        out.append(("synth%d" % i, s))
    return out


def own_opener(name, ops):
    ext = name.rsplit(".", 1)[-1].lower()
    m = {"flac": "FLAC", "mp3": "MP3", "ogg": "OggVorbis", "opus": "OggOpus", "spx": "OggSpeex", "oggtheora": "OggTheora", "oggflac": "OggFLAC",
         "m4a": "MP4", "m4b": "MP4", "mp4": "MP4", "3g2": "MP4", "wma": "ASF", "aif": "AIFF", "wav": "WAVE", "dff": "DSDIFF", "dsf": "DSF",
         "mpc": "Musepack", "wv": "WavPack", "ape": "MonkeysAudio", "ofr": "OptimFROG", "ofs": "OptimFROG", "tak": "TAK", "tta": "TrueAudio",
         "aac": "AAC", "ac3": "AC3", "eac3": "AC3", "mid": "SMF", "apev2": "APEv2File", "id3": "ID3"}
    return m.get(ext)


def worker(args):
    seed, n, all_openers = args
    R = random.Random(seed)
    ops = openers()
    sd = seeds()
    blobs = [d for _, d in sd]
    out = []
    stats = {"inputs": 0, "runs": 0, "max_calls_ratio": 0.0, "max_read_ratio": 0.0, "kinds": {}}
    import hashlib
    for i in range(n):
        name, d = R.choice(sd)
        m, kind = mutate(R, d, blobs)
        if R.random() < 0.25:
            m, k2 = mutate(R, m, blobs)
            kind += "+" + k2
        stats["inputs"] += 1
        stats["kinds"][kind.split("+")[0]] = stats["kinds"].get(kind.split("+")[0], 0) + 1
        if all_openers:
            chosen = list(ops)
        else:
            chosen = {"File", R.choice(["ID3", "APEv2", "EasyID3"]), R.choice(list(ops))}
            own = own_opener(name, ops)
            if own:
                chosen.add(own)
        for on in chosen:
            probs, calls, nread, dt = contract(ops[on], m)
            stats["runs"] += 1
            n0 = len(m) + 1024
            stats["max_calls_ratio"] = max(stats["max_calls_ratio"], calls / n0)
            stats["max_read_ratio"] = max(stats["max_read_ratio"], nread / n0)
            budget_calls = 64 * n0
            budget_read = 128 * n0
            if calls > budget_calls or nread > budget_read:
                probs.append(("work", "BUDGET", "calls=%d bytes_read=%d for %d input bytes" % (calls, nread, len(m))))
            for ph, typ, site in probs:
                out.append({"opener": on, "seed_file": name, "mutation": kind, "phase": ph, "type": typ, "site": site,
                            "input": m.hex() if len(m) <= 4096 else None, "input_len": len(m),
                            "wseed": seed, "index": i})
    return out, stats


def fuzz(ctx, n_inputs, all_openers, procs=14):
    per = max(1, n_inputs // (procs * 4))
    tasks = [(ctx.seed * 1000 + k, per, all_openers) for k in range(n_inputs // per)]
    t0 = time.time()
    with multiprocessing.Pool(procs) as pool:
        results = pool.map(worker, tasks)
    agg = {"inputs": 0, "runs": 0, "max_calls_ratio": 0.0, "max_read_ratio": 0.0, "kinds": {}}
    seen = set()
    for out, st in results:
        agg["inputs"] += st["inputs"]; agg["runs"] += st["runs"]
        agg["max_calls_ratio"] = max(agg["max_calls_ratio"], st["max_calls_ratio"])
        agg["max_read_ratio"] = max(agg["max_read_ratio"], st["max_read_ratio"])
        for k, v in st["kinds"].items():
            agg["kinds"][k] = agg["kinds"].get(k, 0) + v
        for p in out:
            what = "C04 %s escaped at %s" % (p["type"], p["site"]) if p["type"] not in ("TIMEOUT", "BUDGET", "CLOSED") else \
                "C04 %s: %s (%s)" % (p["type"], p["site"], p["opener"])
            if p["type"] == "BUDGET":
                what = "C04 BUDGET exceeded (%s)" % p["opener"]
            key = what
            if key in seen:
                continue
            seen.add(key)
            ctx.violation("oracle", what, dict(p, runner="c04.fuzz"))
    ctx.evaluations += agg["runs"]
    ctx.oracle_cases += agg["runs"]
    for k, v in agg["kinds"].items():
        ctx.count("mutation:" + k, v)
    ctx.notes["fuzz"] = {"inputs": agg["inputs"], "opener_runs": agg["runs"], "max_calls_per_input_byte": round(agg["max_calls_ratio"], 2),
                         "max_bytes_read_per_input_byte": round(agg["max_read_ratio"], 2), "wall_s": round(time.time() - t0, 1)}
    # distinct inputs are not tracked across processes: count conservatively
    for i in range(agg["inputs"]):
        ctx.nontrivial.add(("in%d" % i).encode())
    ctx.samples.append({"inputs": agg["inputs"], "opener_runs": agg["runs"], "mutation_histogram": agg["kinds"]})


def corpus(ctx):
    """minimised past failures run first"""
    ops = openers()
    d = os.path.join(common.VERIF, "corpus", "C04")
    n = 0
    for p in sorted(glob.glob(os.path.join(d, "*.bin"))):
        data = open(p, "rb").read()
        on = os.path.basename(p).split("-")[0]
        for name in ([on] if on in ops else list(ops)):
            probs, calls, nread, dt = contract(ops[name], data)
            n += 1
            ctx.case(("corpus", os.path.basename(p), name))
            for ph, typ, site in probs:
                ctx.violation("oracle", "C04 %s escaped at %s" % (typ, site) if typ not in ("TIMEOUT", "CLOSED") else "C04 %s: %s (%s)" % (typ, site, name),
                              {"runner": "c04.corpus", "file": os.path.basename(p), "opener": name, "phase": ph, "type": typ, "site": site})
    ctx.count("corpus-runs", n)


# ------------------------------------------------------------------------------------------------------
# correspondence: the Coq mirrors (coq/model/Parse_*.v, extracted) against the loaders they mirror
MODELLED = {k: v["mirrors"] for k, v in c04_loaders.LOADERS.items()}
MODEL_MAX = 8192          # the extracted model walks Z-indexed lists: longer inputs are cut (for both sides)
EXC_CODES = {1: "ValueError", 2: "KeyError", 3: "TypeError", 4: "IndexError", 5: "struct.error", 6: "UnicodeError", 7: "OverflowError",
             8: "ZeroDivisionError", 9: "AttributeError", 10: "OSError", 11: "EOFError", 12: "AssertionError", 13: "NotImplementedError",
             14: "MutagenError", 15: "fuel"}


def exc_class(e):
    """the exception classes the model distinguishes (Base.Py.exc / Common.exc_name)"""
    for cls, name in ((struct.error, "struct.error"), (UnicodeError, "UnicodeError"), (ZeroDivisionError, "ZeroDivisionError"),
                      (OverflowError, "OverflowError"), (IndexError, "IndexError"), (KeyError, "KeyError"), (EOFError, "EOFError"),
                      (OSError, "OSError"), (ValueError, "ValueError"), (TypeError, "TypeError"), (AttributeError, "AttributeError")):
        if isinstance(e, cls):
            return name
    return type(e).__name__


def impl_outcome(L, data, limit_s=5.0, retry=True):
    """(outcome class, canonical info or None, escape site)"""
    import mutagen
    signal.signal(signal.SIGALRM, _alarm)
    signal.setitimer(signal.ITIMER_REAL, limit_s)
    try:
        try:
            r = L["impl"](io.BytesIO(data))
            return "ok", L["canon"](r, data), None
        except mutagen.MutagenError:
            return "MutagenError", None, None
        except Timeout:
            pass
        except RecursionError as e:
            return "RecursionError", None, site_of(e)
        except Exception as e:
            return exc_class(e), None, site_of(e)
    finally:
        signal.setitimer(signal.ITIMER_REAL, 0)
    # the watchdog fired: a stalled machine is not a hang -- once more with four times the time
    if retry:
        return impl_outcome(L, data, 4 * limit_s, False)
    return "timeout", None, "watchdog"


def model_outcome(ctx, name, L, data):
    r = ctx.model.call(L.get("cmd", "c04_load"), name, common.hx(data))
    if r.startswith("ok "):
        body = r[3:].strip()[1:-1]
        lst = [common.zp(x) for x in body.split(",") if x]
        return "ok", L["expect"](lst, data)
    if r == "fuel":
        return "timeout", None
    if r.startswith("raise "):
        n = r[6:].split(":")[0]
        return L.get("rename", {}).get(n, n), None
    return r, None


def corr_case(ctx, name, L, data, origin, state):
    if origin != "sweep" and len(data) > L.get("max_len", MODEL_MAX):
        data = data[-L.get("max_len", MODEL_MAX):] if L.get("cut") == "tail" else data[:L.get("max_len", MODEL_MAX)]
    key = (name, data)
    if key in state["seen"]:
        return
    state["seen"].add(key)
    # a loader that has started to hang is given a short leash, and is dropped after a few more timeouts
    nto = state["timeouts"].get(name, 0)
    if nto >= 4:
        ctx.count("corr-skipped-after-timeouts:" + name)
        return
    io_, ic, site = impl_outcome(L, data, 5.0 if nto == 0 else 1.0)
    if io_ == "timeout":
        state["timeouts"][name] = nto + 1
    mo, mc = model_outcome(ctx, name, L, data)
    ctx.corr_cases += 1
    ctx.count("corr:%s:%s" % (name, io_))
    ctx.count("corr-origin:" + origin)
    ctx.case((name, hashlib.blake2b(data, digest_size=8).hexdigest()),
             {"loader": name, "origin": origin, "input": data[:64].hex(), "impl": io_, "model": mo} if ctx.corr_cases % 5003 == 0 else None)
    if io_ not in ("ok", "MutagenError") + tuple(L.get("allowed", ())):
        # the implementation itself breaks the property on this input: a concrete violation, whatever the model says
        what = "C04 %s escaped at %s" % (io_, site) if io_ != "timeout" else "C04 TIMEOUT: %s (%s)" % (site, name)
        if what not in state["viol"]:
            state["viol"].add(what)
            ctx.violation("oracle", what, {"runner": "c04.load", "loader": name, "origin": origin, "type": io_, "site": site,
                                           "input": data.hex(), "input_len": len(data)})
    if (io_, ic) != (mo, mc):
        state["dis"][name] = state["dis"].get(name, 0) + 1
        if state["dis"][name] <= 3:
            ctx.disagree("c04.load", "%s on %d bytes (%s): impl=%s model=%s" % (name, len(data), origin, (io_, ic), (mo, mc)),
                         {"loader": name, "input": data.hex() if len(data) <= 4096 else data[:4096].hex(), "origin": origin})


def correspondence(ctx, n):
    """n malformed-stream cases per modelled loader (the fuzzer's own seeds()/mutate) + the targeted sweeps"""
    sd = seeds()
    samples = dict(sd)
    blobs = [d for _, d in sd]
    R = random.Random(ctx.seed * 7919 + 4)
    state = {"seen": set(), "viol": set(), "dis": {}, "timeouts": {}}
    for name, L in c04_loaders.LOADERS.items():
        t0 = time.time()
        own = [(k, d) for k, d in sd if L["own"](k)] + [("extra%d" % i, d) for i, d in enumerate(L.get("seeds", []))]
        for d in L["sweep"](samples):
            corr_case(ctx, name, L, d, "sweep", state)
        for i in range(n):
            # mostly the loader's own samples, now and then any other sample (wrong-format input)
            k, d = R.choice(own) if (own and R.random() < 0.85) else R.choice(sd)
            m, kind = mutate(R, d, blobs)
            if R.random() < 0.25:
                m, _ = mutate(R, m, blobs)
            corr_case(ctx, name, L, m, "fuzz", state)
        for k, d in own:
            corr_case(ctx, name, L, d, "sample", state)
        ctx.notes.setdefault("corr_wall_s", {})[name] = round(time.time() - t0, 1)
    vm_crosscheck(ctx, sd, R)


def vm_crosscheck(ctx, sd, R):
    """the extracted binary must agree with the kernel's own evaluator (vm_compute) on the same inputs"""
    cases, keys = [], []
    mods = set()
    for name, L in c04_loaders.LOADERS.items():
        mod, load, lst = L["coq"]
        mods.add(mod)
        own = [d for k, d in sd if L["own"](k)] + list(L.get("seeds", [])) or [b""]
        for i in range(6):
            d = R.choice(own)[:R.choice([0, 7, 33, 64, 120, 200])]
            if i % 2:
                d, _ = mutate(R, d, [d])
                d = d[:240]
            cases.append("c04_show %s (%s %s)" % (lst, load, common.coq_bytes(d)))
            keys.append((name, L, d))
    pre = ("From Coq Require Import ZArith List. Import ListNotations. Require Import Base.Py Model.Parse_base %s. Open Scope Z_scope."
           % " ".join("Model." + m for m in sorted(mods)))
    res, log = common.vm_shard("c04", pre, cases)
    if res is None or len(res) != len(cases):
        ctx.disagree("c04.vm_shard", "vm_compute shard failed to run: %s" % (log,), {})
        return
    for (name, L, d), r in zip(keys, res):
        m = re.match(r"\((-?\d+), \[(.*)\]\)$", r.replace("%Z", ""))
        ctx.vm_cases += 1
        if not m:
            ctx.disagree("c04.vm_shard", "cannot parse %r" % r, {})
            return
        code = int(m.group(1))
        lst = [int(x) for x in m.group(2).split(";") if x.strip()]
        vm = ("ok", L["expect"](lst, d)) if code == 0 else ("timeout" if code == 15 else L.get("rename", {}).get(EXC_CODES[code], EXC_CODES[code]), None)
        if vm != model_outcome(ctx, name, L, d):
            ctx.disagree("c04.vm_shard", "extracted binary and vm_compute differ for %s on %s" % (name, d.hex()), {})
            return


def run(ctx):
    corpus(ctx)
    import c04_struct
    c04_struct.run_structured(ctx, stride=1 if ctx.thorough else 3)
    correspondence(ctx, 6000 if ctx.thorough else 700)
    if ctx.thorough:
        fuzz(ctx, 60000, True)
    else:
        fuzz(ctx, 6000, False)


def search(ctx, broken):
    before = len(ctx.violations)
    corpus(ctx)
    if ctx.use_model and any("c04.load" in str(b.get("obligation")) for b in broken):
        # a loader no longer matches its mirror: a much larger malformed stream through the modelled loaders first
        correspondence(ctx, 12000)
        if len(ctx.violations) > before:
            ctx.notes["search"] = "escalated correspondence stream found %d escape sites" % (len(ctx.violations) - before)
            return
    import c04_struct
    c04_struct.run_structured(ctx, stride=1)
    fuzz(ctx, 20000, True)
    ctx.notes["search"] = "structured + mutation fuzzing of all openers found %d distinct escape sites" % (len(ctx.violations) - before)


def replay(ctx, payload):
    d = payload.get("data", {})
    ops = openers()
    if d.get("runner") == "c04.load":
        L = c04_loaders.LOADERS[d["loader"]]
        o, _, _ = impl_outcome(L, bytes.fromhex(d["input"]))
        return o not in ("ok", "MutagenError") + tuple(L.get("allowed", ()))
    if d.get("runner") == "c04.fuzz" and d.get("input") is not None:
        probs, _, _, _ = contract(ops[d["opener"]], bytes.fromhex(d["input"]))
        return bool(probs)
    if d.get("runner") == "c04.fuzz":
        out, _ = worker((d["wseed"], d["index"] + 1, True))
        return any(p["site"] == d["site"] for p in out)
    run(ctx)
    return bool(ctx.violations)


def coverage_extra(ctx):
    return {"families_with_theorem": sorted(MODELLED),
            "families_without_theorem": [o for o in OPENER_NAMES if o not in OPENER_THEOREMS],
            "opener_theorems": OPENER_THEOREMS,
            "modelled": MODELLED,
            "theorem_files": [os.path.basename(p)[:-2] for p in PROP_FILES],
            "openers": OPENER_NAMES}
