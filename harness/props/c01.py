"""C01 -- Saved tags read back exactly (whole-file property; shared engine)"""
from props import _wholefile as W

PROP = "C01"
PROP_FILES = W.prop_files(PROP)
_m = W.make(PROP)
run, search, replay, coverage_extra = _m.run, _m.search, _m.replay, _m.coverage_extra
RULE = W.RULE
TRUSTED = ["hand-written family models coq/model/Fam_*.v (modelled, tied by byte-exact correspondence)",
           "independent walkers/validators/decoders harness/fam/walkers.py (direct oracle)"]
MANIFEST = {
    "text": 'full per family with a model (theorem F_load (F_save f t o) = canon t for every well-formed file and valid tag set); partial overall until every family has a model: the remaining families are covered by the direct oracle (reload through mutagen AND independent decoding of the saved bytes by harness walkers)',
    "note": W.TB_NOTE,
    "technique": "Coq proofs over per-family byte-exact reference models (splice skeleton over py2v-generated resize_bytes) + extracted-model correspondence + independent-walker oracle on random edit histories",
}
if not PROP_FILES:
    MANIFEST = {"not_applicable": "no family theorem file coq/props/C01_*.v is built yet in this commit (direct oracle exists; claimed once a theorem exists)"}
