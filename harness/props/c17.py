"""C17 -- Any conforming file object works exactly like a filename.
Theorems: props/C17.v (flavour irrelevance of the regenerated resize family, seek_end, ownership).
Direct oracle: the same edit histories through every way of passing a file; results compared pairwise."""
import io, os, copy, pathlib, shutil, tempfile
import mutagen
from common import zs, hx, unhx, VERIF
from fam import kinds as KM, shared
from fam.kinds import KINDS
from fam.fileobjs import Minimal, ReadOnlyMinimal
from props.c19 import add_value

PROP = "C17"
PROP_FILES = ["props/C17.v"]
TRUSTED = [
    "modelled rather than verified: _openfile dispatch/ownership (coq/model/IOWrap.v), get_size/seek_end/read_full (coq/model/SeekEnd.v, hand model tied by exhaustive correspondence)",
    "Python's own open(), os.fspath and buffering are runtime behaviour outside the model",
]
RULE = ("direct oracle: for every kind x sample: load, tag, save (growing), reload, save (shrinking), delete executed through str path, bytes path, "
        "pathlib.Path, an open real file, io.BytesIO, a minimal object with only the documented methods (both negative-seek conventions), and the "
        "filename=/fileobj= keyword forms; final bytes, reloaded tags and exception class must agree pairwise with the BytesIO run; the minimal object "
        "records every attribute request and enforces the documented contracts (no truncate beyond the current size); caller-supplied objects must stay open; "
        "loading through an object that has ONLY read/seek/tell (positional, keyword, mutagen.File); cross-way histories (loaded from a path, saved/deleted "
        "through a stream and the reverse: the file GIVEN is the one acted on); mutagen.File picks the same type and leaves .filename as the type called "
        "directly does, for paths, path objects and real file objects opened through str and bytes paths (also on ID3-prefixed copies whose type the "
        "extension decides); instances loaded a second time (path, then a stream / minimal object / open file / other path): .filename and the argument-less "
        "save()/delete() behave as for a fresh instance loaded the second way and the first file stays untouched; content the type cannot handle (empty, noise, lone "
        "ID3 tag, cut or overwritten sample) gives the same exception TYPE for load/save/delete through path, path object, open file, BytesIO, minimal object and fileobj=. correspondence: get_size/seek_end/read_full on all files of length <= 6, "
        "positions and offsets in -1..8, both flavours, vs the extracted hand model. non-trivial = the history changed the file; distinct by (kind, sample, way)")
MANIFEST = {
    "text": "partial: theorems for the logic core (the regenerated resize family gives identical outcome and bytes under both seek conventions for all arguments; "
            "seek_end never targets a negative offset; ownership/closing rule) + the whole-format statement by differential testing over ten ways of passing a file, "
            "load-only objects, cross-way histories and type detection across ways",
    "note": "Not covered: Python's open/os.fspath/buffering (runtime). Format-level operations are compared across file-things by the direct oracle (a search), "
            "they are not proved flavour independent individually; every negative-target seek in mutagen that bypasses seek_end would show up there.",
    "technique": "Coq proof (case split over the C11 specifications of py2v-generated code) + pairwise differential testing across file-thing kinds with a minimal-interface object",
}
ALLOWED_ATTRS = {"name", "close", "fileno", "mode", "closed", "filename"}
WAYS = ["bytesio", "str", "bytes", "path", "pathlike_bytes", "file", "file_bytesname", "min_clamp", "min_raise", "kw_filename", "kw_filename_path",
        "kw_filename_bytes", "kw_filename_pathlike_bytes", "kw_fileobj"]


class BytesPath(object):
    """an os.PathLike whose __fspath__ gives BYTES (as os.DirEntry objects of a bytes directory scan do)"""
    def __init__(self, p):
        self._p = os.fsencode(p)

    def __fspath__(self):
        return self._p


def history(kind, way, data, tmpdir, base, asked):
    """load -> add value -> save -> reload -> shrink save -> delete; returns (tag snapshots, final bytes) or exception class"""
    fn = os.path.join(tmpdir, base)
    with open(fn, "wb") as h:
        h.write(data)
    K = kind.cls
    snaps = []

    def mk():
        if way == "str": return fn, None
        if way == "bytes": return os.fsencode(fn), None
        if way == "path": return pathlib.Path(fn), None
        if way == "pathlike_bytes": return BytesPath(fn), None
        if way == "kw_filename_pathlike_bytes": return None, {"filename": BytesPath(fn)}
        if way == "kw_filename": return None, {"filename": fn}
        if way == "kw_filename_path": return None, {"filename": pathlib.Path(fn)}
        if way == "kw_filename_bytes": return None, {"filename": os.fsencode(fn)}
        return None, None
    fobj = None
    try:
        if way in ("bytesio", "kw_fileobj"):
            fobj = io.BytesIO(data)
        elif way == "min_clamp":
            fobj = Minimal(data, "clamp")
        elif way == "min_raise":
            fobj = Minimal(data, "raise")
        elif way == "file":
            fobj = open(fn, "rb+")
        elif way == "file_bytesname":
            fobj = open(os.fsencode(fn), "rb+")      # .name is bytes

        def call(f, *a, **kw):
            arg, kws = mk()
            if fobj is not None:
                fobj.seek(0)
                if way == "kw_fileobj":
                    return f(*a, fileobj=fobj, **kw)
                return f(fobj, *a, **kw)
            if kws:
                return f(*a, **dict(kw, **kws))
            return f(arg, *a, **kw)

        def load():
            if kind.is_tagclass:
                try:
                    return call(K)
                except mutagen.MutagenError as e:
                    if "NoHeader" in type(e).__name__:
                        return K()
                    raise
            return call(K)
        o = load()
        kind.ensure_tags(o)
        add_value(kind, o, 3000)
        call(o.save)
        o2 = load()
        snaps.append(KM.canon_mem(kind, o2))
        add_value(kind, o2, 2)
        call(o2.save)
        o3 = load()
        snaps.append(KM.canon_mem(kind, o3))
        call(o3.delete)
        o4 = load()
        snaps.append(KM.canon_mem(kind, o4))
        if fobj is not None and way in ("file", "file_bytesname"):
            closed = fobj.closed
            fobj.close()
        else:
            closed = getattr(fobj, "closed", False) if fobj is not None else False
        if isinstance(fobj, Minimal):
            asked |= fobj.asked
            out = fobj.getvalue()
        elif way in ("bytesio", "kw_fileobj"):
            out = fobj.getvalue() if not closed else b"<closed>"
        else:
            with open(fn, "rb") as h:
                out = h.read()
        return ("ok", snaps, out, closed)
    except mutagen.MutagenError as e:
        return ("MutagenError", len(snaps))
    except Exception as e:
        return ("EXC:" + type(e).__name__, len(snaps), str(e)[:80])
    finally:
        if way in ("file", "file_bytesname") and fobj is not None and not fobj.closed:
            fobj.close()


def load_outcome(kind, f, **kw):
    try:
        o = kind.cls(f, **kw) if not kw else kind.cls(**kw)
        return ("ok", KM.canon_mem(kind, o), KM.info_of(o))
    except mutagen.MutagenError as e:
        return ("MutagenError",)
    except Exception as e:
        return ("EXC:" + type(e).__name__, str(e)[:80])


def load_only(ctx, kind, sample, data):
    """loading needs read/seek/tell only: an object with nothing else loads to the same tags and stream info,
    positionally, by keyword and through mutagen.File"""
    ref = load_outcome(kind, io.BytesIO(data))
    for neg in ("clamp", "raise"):
        for how in ("pos", "kw", "File"):
            f = ReadOnlyMinimal(data, neg)
            if how == "pos":
                r = load_outcome(kind, f)
            elif how == "kw":
                r = load_outcome(kind, None, fileobj=f)
            else:
                if kind.is_tagclass:
                    continue
                try:
                    o = mutagen.File(f)
                    r = ("ok", KM.canon_mem(kind, o), KM.info_of(o)) if type(o) is kind.cls else ref
                except mutagen.MutagenError:
                    r = ref if ref[0] != "ok" else ("MutagenError",)
                except Exception as e:
                    r = ("EXC:" + type(e).__name__, str(e)[:80])
            ctx.oracle_cases += 1
            ctx.count("load-only:" + how)
            ctx.case((kind.name, sample, "load-only", neg, how))
            d = {"runner": "c17.ways", "kind": kind.name, "sample": sample, "way": "load-only-%s-%s" % (neg, how)}
            if r != ref:
                ctx.violation("oracle", "C17 %s: loading through an object with only read/seek/tell differs from the in-memory stream (%s)" % (kind.name, how),
                              dict(d, got=repr(r)[:200], ref=repr(ref)[:200]))
            # probing for the (documented) writing methods with hasattr is not needing them
            extra = f.asked - ALLOWED_ATTRS - {"write", "flush", "truncate"}
            if extra:
                ctx.violation("oracle", "C17 %s: loading requested attributes beyond read/seek/tell/name: %s" % (kind.name, sorted(extra)), d)


def cross_ways(ctx, kind, sample, data, tmp):
    """an object loaded one way and saved/deleted another way acts on the file it is GIVEN: load from a path then
    save(fileobj) must write the stream (and leave the path alone), and the other way round"""
    if kind.is_tagclass:
        return
    K = kind.cls
    fn = os.path.join(tmp, "x_" + sample)

    def d(way):
        return {"runner": "c17.ways", "kind": kind.name, "sample": sample, "way": way}
    try:
        ref = K(io.BytesIO(data)); kind.ensure_tags(ref); add_value(kind, ref, 3000)
        rb = io.BytesIO(data); ref.save(rb); want = rb.getvalue()
        rd = io.BytesIO(want); K(io.BytesIO(want)).delete(rd); want_del = rd.getvalue()
    except Exception:
        return
    for thing in ("bytesio", "minimal", "kw_fileobj"):
        with open(fn, "wb") as h:
            h.write(data)
        try:
            o = K(fn); kind.ensure_tags(o); add_value(kind, o, 3000)
            f = Minimal(data, "raise") if thing == "minimal" else io.BytesIO(data)
            o.save(fileobj=f) if thing == "kw_fileobj" else o.save(f)
            got = f.getvalue()
            with open(fn, "rb") as h:
                onpath = h.read()
            ctx.oracle_cases += 1
            ctx.count("cross:path->" + thing)
            ctx.case((kind.name, sample, "cross-save", thing))
            if got != want or onpath != data:
                ctx.violation("oracle", "C17 %s: an object loaded from a path and saved to a file object %s" % (
                    kind.name, "left the stream unchanged and rewrote the path" if onpath != data else "wrote different bytes than saving in memory"), d("path-then-" + thing))
            # delete through a stream, object loaded from the (tagged) path
            with open(fn, "wb") as h:
                h.write(want)
            o = K(fn)
            f = Minimal(want, "raise") if thing == "minimal" else io.BytesIO(want)
            o.delete(fileobj=f) if thing == "kw_fileobj" else o.delete(f)
            with open(fn, "rb") as h:
                onpath = h.read()
            ctx.oracle_cases += 1
            if f.getvalue() != want_del or onpath != want:
                ctx.violation("oracle", "C17 %s: an object loaded from a path and deleted through a file object acted on the wrong file" % kind.name, d("path-then-delete-" + thing))
        except mutagen.MutagenError:
            pass
        except Exception as e:
            ctx.violation("oracle", "C17 %s: load from a path then save/delete through a file object raised %s" % (kind.name, type(e).__name__), d("path-then-" + thing))
    # the other direction: loaded from a stream, saved to a path
    try:
        with open(fn, "wb") as h:
            h.write(data)
        o = K(io.BytesIO(data)); kind.ensure_tags(o); add_value(kind, o, 3000)
        o.save(fn)
        with open(fn, "rb") as h:
            onpath = h.read()
        ctx.oracle_cases += 1
        ctx.count("cross:stream->path")
        if onpath != want:
            ctx.violation("oracle", "C17 %s: an object loaded from a stream and saved to a path wrote different bytes" % kind.name, d("stream-then-path"))
    except mutagen.MutagenError:
        pass
    except Exception as e:
        ctx.violation("oracle", "C17 %s: load from a stream then save to a path raised %s" % (kind.name, type(e).__name__), d("stream-then-path"))


def detect_ways(ctx, kind, sample, data, tmp):
    """mutagen.File picks the same type whichever way the file is passed (named things: the name is the same)"""
    if kind.is_tagclass:
        return
    fn = os.path.join(tmp, "d_" + sample.replace("+", "_"))
    with open(fn, "wb") as h:
        h.write(data)
    # a name-decided variant: the same stream behind an ID3v2 tag (the extension has to settle the type)
    variants = [("", fn)]
    if not sample.startswith(("synth", "id3prefix")) and data[:3] != b"ID3":
        fn2 = os.path.join(tmp, "p_" + sample.replace("+", "_"))
        with open(fn2, "wb") as h:
            h.write(b"ID3\x04\x00\x00\x00\x00\x00\x0a" + b"\x00" * 10 + data)
        variants.append(("id3-prefixed ", fn2))
    # a name that is legal on POSIX but not valid UTF-8 (str form with surrogate escapes, bytes form raw)
    try:
        fn3 = os.path.join(tmp, os.fsdecode(b"n\xe9\xff_") + sample.replace("+", "_"))
        with open(fn3, "wb") as h:
            h.write(data)
        variants.append(("non-UTF-8-named ", fn3))
    except (OSError, UnicodeError):
        pass

    def outcome(thing):
        try:
            o = mutagen.File(thing)
            if o is not None and not isinstance(thing, (str, bytes, pathlib.PurePath, BytesPath)):
                # an instance made from a file OBJECT has no file name of its own, exactly as when the type is called
                # directly: a later save() without argument must not reach for a path
                direct = None
                try:
                    thing.seek(0)
                    direct = type(o)(thing).filename
                except Exception:
                    pass
                if o.filename != direct:
                    return "%s with .filename=%r (the type called directly gives %r)" % (type(o).__name__, o.filename, direct)
            return type(o).__name__
        except mutagen.MutagenError as e:
            return "MutagenError"
        except Exception as e:
            return "EXC:" + type(e).__name__
    for lab, path in variants:
        ref = outcome(path)
        for way in ("bytes", "path", "pathlike_bytes", "kw_filename", "kw_filename_path", "kw_filename_bytes", "kw_filename_pathlike_bytes", "file", "file_bytesname"):
            if way == "bytes":
                r = outcome(os.fsencode(path))
            elif way == "pathlike_bytes":
                r = outcome(BytesPath(path))
            elif way == "path":
                r = outcome(pathlib.Path(path))
            elif way.startswith("kw_filename"):
                arg = {"kw_filename": path, "kw_filename_path": pathlib.Path(path), "kw_filename_bytes": os.fsencode(path),
                       "kw_filename_pathlike_bytes": BytesPath(path)}[way]
                try:
                    o = mutagen.File(filename=arg)
                    r = type(o).__name__
                except mutagen.MutagenError:
                    r = "MutagenError"
                except Exception as e:
                    r = "EXC:" + type(e).__name__
            else:
                with open(os.fsencode(path) if way == "file_bytesname" else path, "rb") as h:
                    r = outcome(h)
            ctx.oracle_cases += 1
            ctx.count("detect:" + way)
            ctx.case((kind.name, sample, "detect", lab, way))
            if way == "file":
                # the same bytes behind a file object whose OWN name carries no extension, with the real name given
                # explicitly: the explicit filename is what detection goes by
                anon = os.path.join(tmp, "anon_%d" % (ctx.oracle_cases % 7))
                shutil.copyfile(path, anon)
                for nform, narg in (("str", path), ("bytes", os.fsencode(path)), ("path", pathlib.Path(path)), ("pathlike-bytes", BytesPath(path))):
                    for fform in ("positional", "fileobj="):
                        with open(anon, "rb") as h:
                            try:
                                o = mutagen.File(h, filename=narg) if fform == "positional" else mutagen.File(fileobj=h, filename=narg)
                                r2 = type(o).__name__
                            except mutagen.MutagenError:
                                r2 = "MutagenError"
                            except Exception as e:
                                r2 = "EXC:" + type(e).__name__
                        ctx.oracle_cases += 1
                        if r2 != ref:
                            ctx.violation("oracle", "C17 %s: mutagen.File(<file object, %s>, filename=<%s>) on the %sfile gives %s but %s through its str path (the file object has an extension-less name of its own)" % (
                                kind.name, fform, nform, lab, r2, ref),
                                {"runner": "c17.ways", "kind": kind.name, "sample": sample, "way": "detect-fileobj+filename-%s-%s" % (fform, nform)})
            if r != ref:
                ctx.violation("oracle", "C17 %s: mutagen.File on the %sfile gives %s through %s but %s through its str path" % (kind.name, lab, r, way, ref),
                              {"runner": "c17.ways", "kind": kind.name, "sample": sample, "way": "detect-" + way})


def reload_ways(ctx, kind, sample, data, tmp):
    """one instance loaded twice: after o.load(<thing>) the instance is tied to the thing of the LAST load exactly as a
    fresh instance loaded that way is -- .filename, and what an argument-less save()/delete() does (a path-loaded
    instance reloaded from a stream must not reach back for the path)"""
    if kind.is_tagclass:
        return
    K = kind.cls
    fn = os.path.join(tmp, "r_" + sample.replace("+", "_"))
    other = os.path.join(tmp, "r2_" + sample.replace("+", "_"))

    def noarg(o, op):
        try:
            getattr(o, op)()
            return "ok"
        except mutagen.MutagenError:
            return "MutagenError"
        except Exception as e:
            return "EXC:" + type(e).__name__
    for thing in ("bytesio", "minimal", "kw_fileobj", "file", "path2"):
        for op in ("save", "delete"):
            for p in (fn, other):
                with open(p, "wb") as h:
                    h.write(data)
            fobj = None
            try:
                def second():
                    if thing == "minimal": return Minimal(data, "raise")
                    if thing == "file": return open(other, "rb+")
                    return io.BytesIO(data)

                def load_into(o, f):
                    if thing == "path2":
                        return o.load(other) if o is not None else K(other)
                    if thing == "kw_fileobj":
                        return o.load(fileobj=f) if o is not None else K(fileobj=f)
                    return o.load(f) if o is not None else K(f)
                fobj = second()
                fresh = load_into(None, fobj)
                want_name = fresh.filename
                kind.ensure_tags(fresh); add_value(kind, fresh, 300)
                want = noarg(fresh, op)
                if thing == "file":
                    fobj.close()
                with open(other, "wb") as h:
                    h.write(data)
                fobj = second()
                o = K(fn)
                load_into(o, fobj)
                got_name = o.filename
                kind.ensure_tags(o); add_value(kind, o, 300)
                got = noarg(o, op)
                with open(fn, "rb") as h:
                    onpath = h.read()
                ctx.oracle_cases += 1
                ctx.count("reload:path->" + thing)
                ctx.case((kind.name, sample, "reload", thing, op))
                d = {"runner": "c17.ways", "kind": kind.name, "sample": sample, "way": "reload-%s-%s" % (thing, op)}
                if got_name != want_name:
                    ctx.violation("oracle", "C17 %s: an instance loaded from a path and loaded again through %s keeps .filename=%r (a fresh instance: %r)" % (
                        kind.name, thing, got_name, want_name), d)
                elif got != want or onpath != data:
                    ctx.violation("oracle", "C17 %s: %s() without argument after path-load then load(%s): %s%s (a fresh instance loaded that way: %s)" % (
                        kind.name, op, thing, got, ", and the file of the FIRST load was rewritten" if onpath != data else "", want), d)
            except mutagen.MutagenError:
                pass
            except Exception as e:
                ctx.violation("oracle", "C17 %s: loading an instance a second time through %s raised %s" % (kind.name, thing, type(e).__name__),
                              {"runner": "c17.ways", "kind": kind.name, "sample": sample, "way": "reload-%s-%s" % (thing, op)})
            finally:
                if thing == "file" and fobj is not None and not fobj.closed:
                    fobj.close()


def _junk_inputs(kind, data):
    """contents the type cannot load: empty, noise, a lone ID3v2 tag, an ID3v2 tag in front of noise, the sample cut short,
    the sample with its first bytes overwritten"""
    id3 = b"ID3\x04\x00\x00\x00\x00\x00\x0a" + bytes(10)
    return [("empty", b""), ("noise", b"junkJUNK" * 40), ("id3-only", id3), ("id3+noise", id3 + b"nope" * 60),
            ("cut", data[:max(1, min(len(data) // 3, 60))]), ("head-overwritten", b"\x01\x02\x03\x04\x05\x06\x07\x08" + data[8:][:4000])]


def invalid_ways(ctx, kind, sample, data, tmp):
    """the exception TYPE for content the type cannot load (or save into / delete from) is the same whichever way the file is
    passed -- including nameless objects: the optional `name` must not be needed on the error path either"""
    K = kind.cls
    fn = os.path.join(tmp, "j_" + sample.replace("+", "_"))
    try:
        good = K(io.BytesIO(data))
        kind.ensure_tags(good)
    except Exception:
        good = None
    for lab, junk in _junk_inputs(kind, data):
        with open(fn, "wb") as h:
            h.write(junk)
        for op in ("load", "save", "delete"):
            if op != "load" and good is None:
                continue
            res = {}
            for way in ("str", "bytesio", "min_raise", "file", "kw_fileobj", "path"):
                fobj = None
                try:
                    with open(fn, "wb") as h:
                        h.write(junk)
                    if way in ("bytesio", "kw_fileobj"):
                        fobj = io.BytesIO(junk)
                    elif way == "min_raise":
                        fobj = Minimal(junk, "raise")
                    elif way == "file":
                        fobj = open(fn, "rb+")
                    f = K if op == "load" else getattr(good, op)
                    if fobj is None:
                        f(pathlib.Path(fn) if way == "path" else fn)
                    elif way == "kw_fileobj":
                        f(fileobj=fobj)
                    else:
                        f(fobj)
                    res[way] = "ok"
                except Exception as e:
                    res[way] = type(e).__module__ + "." + type(e).__name__
                finally:
                    if way == "file" and fobj is not None:
                        fobj.close()
                ctx.oracle_cases += 1
            ctx.count("invalid:" + op)
            ctx.case((kind.name, sample, "invalid", lab, op))
            for way, r in res.items():
                if r != res["str"]:
                    ctx.violation("oracle", "C17 %s: %s of content it cannot handle (%s) gives %s through %s but %s through its str path" % (
                        kind.name, op, lab, r, way, res["str"]), {"runner": "c17.ways", "kind": kind.name, "sample": sample, "way": "invalid-%s-%s-%s" % (lab, op, way)})
                    break


def flac_small_deleteid3(ctx, tmp):
    """FLAC.save(deleteid3=True) on streams smaller than an ID3v1 tag (and on one wrapped in ID3v2 + ID3v1), through every
    way of passing the file: same outcome, same bytes"""
    from mutagen.flac import FLAC
    kind = KINDS["FLAC"]
    base = [d for s_, d in kind.samples() if d[:4] == b"fLaC"]
    if not base:
        return
    si = base[0][8:8 + 34]
    tiny = b"fLaC" + bytes([0x80]) + (34).to_bytes(3, "big") + si + b"\xff\xf8\x00\x00\x01\x02"
    from fam import synth
    wrapped = synth.simple_id3() + tiny + b"\xff\xf8" + bytes(200) + synth.id3v1()
    for label, data in (("tiny", tiny), ("id3v2+flac+id3v1", wrapped)):
        res = {}
        for way in ("bytesio", "str", "path", "file", "min_clamp", "min_raise", "kw_fileobj"):
            fn = os.path.join(tmp, "small_%s.flac" % way)
            with open(fn, "wb") as h:
                h.write(data)
            fobj = None
            try:
                if way in ("bytesio", "kw_fileobj"):
                    fobj = io.BytesIO(data)
                elif way.startswith("min_"):
                    fobj = Minimal(data, way[4:])
                elif way == "file":
                    fobj = open(fn, "rb+")
                thing = fobj if fobj is not None else (pathlib.Path(fn) if way == "path" else fn)

                def call(f, **kw):
                    if fobj is not None:
                        fobj.seek(0)
                        return f(fileobj=fobj, **kw) if way == "kw_fileobj" else f(fobj, **kw)
                    return f(thing, **kw)
                o = call(FLAC)
                o["title"] = ["t"]
                call(o.save, deleteid3=True, padding=lambda i: 0)
                if fobj is not None and hasattr(fobj, "getvalue"):
                    out = fobj.getvalue()
                else:
                    if fobj is not None:
                        fobj.flush()
                    with open(fn, "rb") as h:
                        out = h.read()
                res[way] = ("ok", out)
            except mutagen.MutagenError:
                res[way] = ("MutagenError",)
            except Exception as e:
                res[way] = ("EXC:" + type(e).__name__, str(e)[:60])
            finally:
                if way == "file" and fobj is not None:
                    fobj.close()
            ctx.oracle_cases += 1
            ctx.count("flac-small-deleteid3")
            ctx.case(("flac-small", label, way))
        ref = res["bytesio"]
        for way, r in res.items():
            if r != ref or r[0].startswith("EXC"):
                ctx.violation("oracle", "C17 FLAC: save(deleteid3=True) on a %s stream gives %s through %s but %s through an in-memory stream" % (
                    label, r[0], way, ref[0]), {"runner": "c17.ways", "kind": "FLAC", "sample": "small:" + label, "way": way, "got": repr(r)[:120], "ref": repr(ref)[:120]})


def format_oracle(ctx, kinds=None, max_size=200000):
    tmp = tempfile.mkdtemp(dir=os.path.join(VERIF, ".run"), prefix="c17_")
    asked = set()
    try:
        for kname, kind in KINDS.items():
            if kinds and kname not in kinds:
                continue
            for sample, data in shared.usable_samples(kind):
                if len(data) > max_size:
                    continue
                res = {}
                for way in WAYS:
                    a = set()
                    res[way] = history(kind, way, data, tmp, sample, a)
                    extra = a - ALLOWED_ATTRS
                    ctx.oracle_cases += 1
                    ctx.count("way:" + way)
                    ctx.case((kname, sample, way) if res[way][0] == "ok" and res[way][2] != data else None,
                             {"kind": kname, "sample": sample, "way": way, "result": res[way][0]} if ctx.oracle_cases % 101 == 1 else None)
                    d = {"runner": "c17.ways", "kind": kname, "sample": sample, "way": way}
                    if extra:
                        ctx.violation("oracle", "C17 %s: attributes beyond the documented file interface requested: %s" % (kname, sorted(extra)), d)
                    if res[way][0] == "ok" and res[way][3]:
                        ctx.violation("oracle", "C17 %s: caller-supplied file object closed (%s)" % (kname, way), d)
                    asked |= a
                load_only(ctx, kind, sample, data)
                cross_ways(ctx, kind, sample, data, tmp)
                detect_ways(ctx, kind, sample, data, tmp)
                reload_ways(ctx, kind, sample, data, tmp)
                invalid_ways(ctx, kind, sample, data, tmp)
                ref = res["bytesio"]
                for way, r in res.items():
                    if way == "bytesio":
                        continue
                    same = (r[0] == ref[0]) and (r[0] != "ok" or (r[1] == ref[1] and r[2] == ref[2]))
                    if not same:
                        what = "result class" if r[0] != ref[0] else ("tags" if r[1] != ref[1] else "final bytes")
                        ctx.violation("oracle", "C17 %s: %s through %s differ from the in-memory stream" % (kname, what, way),
                                      {"runner": "c17.ways", "kind": kname, "sample": sample, "way": way, "got": repr(r[:2])[:200], "ref": repr(ref[:2])[:200]})
        if not kinds or "FLAC" in kinds:
            flac_small_deleteid3(ctx, tmp)
        ctx.notes["attributes_requested_from_minimal_object"] = sorted(asked)
    finally:
        shutil.rmtree(tmp, ignore_errors=True)


def correspondence(ctx, maxlen):
    import mutagen._util as U
    for real in (0, 1):
        for n in range(0, maxlen + 1):
            data = bytes(range(1, n + 1))
            for pos in range(0, n + 3):
                for fn in ("get_size", "seek_end", "read_full"):
                    for arg in ([0] if fn == "get_size" else range(-1, n + 3)):
                        f = Minimal(data, "raise" if real else "clamp")
                        f._p = pos
                        try:
                            if fn == "get_size":
                                v = U.get_size(f); ri = "ok %x" % v
                            elif fn == "seek_end":
                                U.seek_end(f, arg); ri = "ok"
                            else:
                                v = U.read_full(f, arg); ri = "ok x" + bytes(v).hex()
                        except ValueError:
                            ri = "raise ValueError"
                        except OSError as e:
                            ri = "raise OSError:%d" % (e.errno or 0)
                        ri += " pos=%x" % f.tell()
                        rm = ctx.model.call("seekend", fn, str(real), zs(pos), hx(data), zs(arg))
                        ctx.corr_cases += 1
                        ctx.count("corr:" + fn)
                        ctx.case((fn, real, n, pos, arg))
                        if ri != rm and len(ctx.disagreements) < 5:
                            ctx.disagree("c17.seekend", "%s(%d) real=%d pos=%d on %d bytes: impl=%r model=%r" % (fn, arg, real, pos, n, ri, rm),
                                         {"fn": fn, "real": real, "n": n, "pos": pos, "arg": arg})
                        # direct oracle: seek_end lands on max(0, len - offset) whatever the flavour
                        if fn == "seek_end" and arg >= 0 and ri != "ok pos=%x" % max(0, n - arg):
                            ctx.violation("oracle", "C17 seek_end: wrong position or error", {"runner": "c17.seekend", "real": real, "n": n, "pos": pos, "arg": arg, "observed": ri})


def run(ctx):
    correspondence(ctx, 6 if ctx.thorough else 4)
    format_oracle(ctx)


def search(ctx, broken):
    before = len(ctx.violations)
    format_oracle(ctx, max_size=10 ** 7)
    ctx.notes["search"] = "nine file-thing kinds on every kind/sample found %d differing runs" % (len(ctx.violations) - before)


def replay(ctx, payload):
    d = payload.get("data", {})
    if d.get("runner") == "c17.ways":
        format_oracle(ctx, kinds={d["kind"]})
        return any(v["data"].get("sample") == d["sample"] and v["data"].get("way") == d["way"] for v in ctx.violations)
    run(ctx)
    return bool(ctx.violations or ctx.disagreements)
