"""C12 -- every ID3v2 frame type survives binary encoding.
(R) correspondence of the Gallina frame model (Model.Id3Spec / Model.Id3Frame over the regenerated table
Gen.Gen_frames) with mutagen.id3 on per-spec generated values: _writeData / save_frame bytes, _readData values and
leftover, flagged _fromData, read_frames on concatenated frames, validity predicate vs. real round trip,
a malformed stream; (D) direct oracle on the public API: build, ID3().save, ID3(translate=False), compare
type and every field, hand-built unsynchronised / data-length / zlib / v2.2 framings; (U) every v2.2 class, with and without each
optional field, upgraded by the loader (translate off / default) and by Frame(other) / _upgrade_frame, against the generated values and the same
payload in a v2.3 / v2.4 frame; copy constructor of every v2.3/v2.4 class; (T) hand-built multi-frame tags
(CHAP/CTOC before, between and after other frames) in every tag framing of v2.2 / v2.3 / v2.4, each frame at each position
compared with the generated values and with the plain tag; (V) vm_compute shard."""
import io, os, re, sys, zlib, struct, random, math
from common import zs, hx, unhx, vm_shard

PROP = "C12"
PROP_FILES = ["props/C12.v"]
TRUSTED = [
    "modelled rather than verified: the per-Spec codecs and the frame/tag framing (Model.Id3Spec, Model.Id3Frame), tied by the correspondence below; "
    "the frame spec TABLE (Gen_frames.v) is regenerated from the live registry on every run and re-checked by C12_all_frames_ok",
    "float conversions of RVA2/EQU2 gains and peaks (value*512, value*32768, intround, /(2**31-1)): the theorems are about the wire integers; "
    "the harness checks the float<->wire mapping exactly (float.hex) on every generated case",
    "zlib: only stored deflate blocks + Adler-32 are modelled (zlib.compress(x, 0)); Huffman-compressed streams are decoded by CPython's C zlib and "
    "covered by the direct oracle only",
    "ID3TimeStamp parsing of non-canonical text is not modelled (time stamps are canonical YYYY[-MM[-DD[ HH[:MM[:SS]]]]] text in model and generators)",
    "ID3Tags._write ordering of nested CHAP/CTOC sub-frames (priority, size, HashKey) is taken from the implementation, not modelled",
    "v2.2 -> v2.3/v2.4 upgrade: Frame._upgrade_frame / the generic Frame._to_other (fields copied by name, optional ones if set) is modelled "
    "(Model.Id3Frame.upgrade_frame / to_other, C12_v22_upgrade_keeps_fields) with the identity test of the spec lists (`is`) modelled as equality of field "
    "names; the classes overriding _to_other (PIC, LNK, RVA), ID3Tags._add and the update_to_v24 translation are not modelled (direct oracle only)",
    "KeyEventSpec (ETCO / ETC): the event type is modelled as the UNSIGNED byte $00..$FF of the ID3v2 event timing codes (struct '>BI'); generated "
    "event types cover 0..255 and time stamps the 32-bit extremes; hand-written ETCO bytes are loaded in v2.2 / v2.3 / v2.4 (keyevent_oracle)",
    "CHAP/CTOC nesting: /repo bounds ID3FramesSpec.read at 16 levels (header._nesting; a frame that would open level 17 is dropped as junk); the model's "
    "depth-indexed reader mirrors it (tag_read O = junk, the implementation is tag_read (S nesting_limit)), tied by corr_nesting on CHAP towers of "
    "1..40 levels; generated values nest at most 3 levels; a frame tree deeper than 16 levels does not survive loading (by design of the bound)",
]
MANIFEST = {
    "text": "full over the frame table regenerated from the live registry (every class of Frames and Frames_2_2, every Spec class): Coq theorems for the text codecs "
            "(Latin-1 / UTF-8 / UTF-16 incl. astral planes, no embedded terminator, decode_terminated), a round trip per Spec class under a decidable validity predicate "
            "(gains and peaks on their 16-bit wire grids, MultiSpec, nested CHAP/CTOC sub-frames at any depth), the spec-list-driven frame round trip for v2.3 and v2.4 "
            "(C12_frame_roundtrip), spec_list_ok of every registry class by vm_compute on every run (C12_all_frames_ok, C12_table_ok), the tag-level "
            "save_frame/read_frames round trip for v2.3 and v2.4, and equality of plain / unsynchronised (frame and tag flag) / data-length / stored-deflate framings; "
            "the tag-level unsynchronisation flag reaches every frame of the list whatever its position (C12_tag_flag_every_position), a v2.4 tag relying on the tag flag reads "
            "like the plain tag (C12_tag_flag_v24_agrees) and a v2.2/v2.3 tag unsynchronised as a whole reads like the plain tag (C12_whole_tag_unsynch_v22_v23); "
            "the v2.2 upgrade keeps every field, optional ones included (C12_v22_upgrade_keeps_fields, hypotheses re-evaluated over the regenerated table by C12_v22_upgrade_table); "
            "the hand model is tied to mutagen.id3 by correspondence on every class x version x encoding (bytes, values, leftover, exception class, flagged _fromData, "
            "read_frames incl. v2.2 and the tag-level flag, malformed inputs) and the property is checked directly on ID3.save / ID3(translate=False) incl. zlib level 9 and v2.2 framings, "
            "and on hand-built multi-frame tags in every tag framing (v2.2 / v2.3 whole-tag unsynchronisation, v2.3 compression, v2.4 tag flag / frame flags / both / data length / compression)",
    "note": "Not covered by theorem (direct oracle / correspondence only): Huffman-compressed zlib streams (CPython's C zlib), the float<->wire conversion of gains and peaks, "
            "ID3TimeStamp parsing of non-canonical text, v2.2 three-letter framing, the ordering of nested sub-frames in ID3Tags._write. Validity conditions, not defects: "
            "terminated text fields contain no U+0000; for v2.2/v2.3 an encoded text field must not be followed by a non-empty all-zero remainder (EncodedTextSpec.read swallows "
            "it: APIC(data=b'\\0\\0\\0') saved as v2.3 reloads with data=b''); list-valued fields are non-empty; a frame whose body is empty and a TextFrame with empty joined "
            "text are not written; v2.3 encodings are 0/1 (others are converted to UTF-16 on save); multi-valued text is saved to v2.3 with v23_sep=None; determine_bpi is a "
            "by-design heuristic: a v2.4 tag (or CHAP/CTOC sub-frame list) whose binary payload contains aligned fake frame headers can be read with plain-int sizes "
            "(hypothesis of C12_tag_roundtrip_v24, exhibited by C12_bpi_heuristic_refuted; such payloads are not generated by the oracle).",
    "technique": "Coq proofs over a hand model + spec table regenerated by registry introspection; correspondence via extracted OCaml model; direct oracle on the public API",
    "design_ref": "DESIGN.md section 5, C12",
}
RULE = ("per frame class of the live registry x v2.4/v2.3 x text encoding 0-3: field values from per-spec generators seeded from VERIF_SEED "
        "(astral/NUL-adjacent text, 0xFF/0x00 runs, integer lattices incl. mixed 2/3-byte RVA magnitudes, nested CHAP/CTOC, multi-values, empty descriptions); "
        "correspondence compares bytes/values/exception class of implementation and extracted model; direct oracle compares reloaded type and fields with the "
        "originals and across input framings; multi-frame tags: 2-7 generated frames (CHAP/CTOC with sub-frames first / between / last, payloads with FF 00, FF E0, trailing FF, "
        "latin-1 y-diaeresis, UTF-16 BOMs; plus tags with one frame of 65535..200000 bytes and tags with 16..40 sibling CHAP/CTOC frames), field bytes from the extracted model, framing by the harness, every frame at every position compared with the generated values and the plain tag; "
        "v2.2 upgrade: every class of Frames_2_2 x encoding 0/1 x number of optional fields set (0..all) x seeds, hand-built v2.2 tag, loader and Frame(other). non-trivial = a frame with at least one non-default field was encoded and decoded; distinct by (class, version, encoding, framing, value seed)")

NOT_BY_THEOREM = ["zlib Huffman streams", "float conversion of gains/peaks", "ID3TimeStamp parsing", "v2.2 three-letter framing (6-byte frame headers)", "ID3Tags._write ordering",
                  "_to_other overrides of PIC / LNK / RVA", "update_to_v24 translation"]


# ------------------------------------------------------------------------------------------------ mutagen access
def M():
    import mutagen, mutagen.id3 as I, mutagen.id3._specs as S, mutagen.id3._tags as T, mutagen.id3._frames as F, mutagen.id3._util as U
    return mutagen, I, S, T, F, U


def sname(spec):
    return type(spec).__name__


def rhe(x):
    """round half even of a float, independent of mutagen.intround"""
    return int(round(x))


# ------------------------------------------------------------------------------------------------ value generators
BMP = [0x100, 0x101, 0x1FF, 0x7FF, 0x800, 0xFFF, 0x1000, 0x20AC, 0xD7FF, 0xE000, 0xFEFF, 0xFFFD, 0xFF00, 0x4E2D]
ASTRAL = [0x10000, 0x1F600, 0x10FFFF, 0x2000B, 0xFFFFF, 0x100000]
LAT = [0x01, 0x20, 0x41, 0x7F, 0x80, 0xA0, 0xE9, 0xFF, 0x2F, 0x54]


def gen_text(rng, enc, minlen=0, maxlen=5):
    n = rng.randint(minlen, maxlen)
    out = []
    for _ in range(n):
        k = rng.random()
        if enc == 0 or k < 0.45:
            c = rng.choice(LAT) if rng.random() < 0.5 else rng.randint(1, 255 if enc == 0 else 127)
        elif k < 0.75:
            c = rng.choice(BMP) if rng.random() < 0.6 else rng.choice([rng.randint(0x100, 0xD7FF), rng.randint(0xE000, 0xFFFF)])
        else:
            c = rng.choice(ASTRAL) if rng.random() < 0.6 else rng.randint(0x10000, 0x10FFFF)
        out.append(chr(c))
    return "".join(out)


def gen_latin1(rng, minlen=0, maxlen=5):
    return "".join(chr(rng.choice(LAT) if rng.random() < 0.5 else rng.randint(1, 255)) for _ in range(rng.randint(minlen, maxlen)))


def gen_bytes(rng, nonzero=False):
    pats = [b"", b"\x00", b"\xff", b"\xff\x00", b"\xff\xe0", b"\xff\xff", b"\x00\x00\x00", b"\xff\xfe\x00\x00", b"\xff\x00\x00\xff\xff\xe0\xff",
            b"\xff" * 7, b"\x00" * 5 + b"\x01", b"\x01\xff"]
    k = rng.random()
    if k < 0.5:
        b = rng.choice(pats)
    elif k < 0.9:
        b = bytes(rng.choice([0, 0xFF, 0xE0, 0xFE, rng.randrange(256)]) for _ in range(rng.randint(1, 24)))
    else:
        b = bytes(rng.randrange(256) for _ in range(rng.randint(100, 700)))
    if nonzero and b and not b.strip(b"\x00"):
        b = b + b"\x07"
    return b


def gen_stamp(rng, S):
    parts = ["%04d" % rng.choice([0, 1, 1999, 2024, 9999, rng.randint(0, 9999)])]
    seps = ["-", "-", " ", ":", ":"]
    rngs = [(1, 12), (1, 31), (0, 23), (0, 59), (0, 59)]
    for i in range(rng.randint(0, 5)):
        parts.append(seps[i] + "%02d" % rng.randint(*rngs[i]))
    return S.ID3TimeStamp("".join(parts))


def lattice_int(rng, top):
    c = [0, 1, 127, 128, 255, 256, 65535, 65536, (1 << 24) - 1, 1 << 24, (1 << 28), (1 << 32) - 1, 1 << 32, top]
    c = [x for x in c if x <= top]
    return rng.choice(c) if rng.random() < 0.6 else rng.randint(0, top)


def gen_value(rng, spec, enc, ver, S, I, depth=0):
    """a valid non-degenerate Python value for one spec (v2.3: texts non-empty so that nothing all-zero follows a text)"""
    n = sname(spec)
    lo = 1 if ver < 4 else 0
    if n == "EncodingSpec":
        return enc
    if n in ("EncodedTextSpec", "EncodedNumericTextSpec", "EncodedNumericPartTextSpec"):
        return gen_text(rng, enc, lo)
    if n == "Latin1TextSpec":
        return gen_latin1(rng, lo)
    if n == "StringSpec":
        return "".join(chr(rng.choice([0x41, 0x7A, 0x20, 0x30, 0x7F, 0x00, rng.randint(1, 127)])) for _ in range(spec.len))
    if n == "FrameIDSpec":
        return "".join(rng.choice("ABCXYZ019") for _ in range(spec.len - 1)) + "T"
    if n == "TimeStampSpec":
        return gen_stamp(rng, S)
    if n == "MultiSpec":
        cnt = rng.randint(1, 3)
        if len(spec.specs) == 1:
            vals = [gen_value(rng, spec.specs[0], enc, ver, S, I) for _ in range(cnt)]
            if isinstance(vals[0], str) and not "".join(vals):
                vals[0] = "x"
            return vals
        return [[gen_value(rng, s, enc, ver, S, I) for s in spec.specs] for _ in range(cnt)]
    if n == "BinaryDataSpec":
        return gen_bytes(rng, nonzero=ver < 4)
    if n in ("ByteSpec", "ChannelSpec", "PictureTypeSpec", "CTOCFlagsSpec"):
        return rng.choice([0, 1, 2, 3, 8, 16, 127, 128, 254, 255, rng.randrange(256)])
    if n == "SizedIntegerSpec":
        return lattice_int(rng, 256 ** spec._SizedIntegerSpec__sz - 1)
    if n == "IntegerSpec":
        return lattice_int(rng, (1 << 64) - 1)
    if n == "VolumeAdjustmentSpec":
        k = rng.random()
        if k < 0.7:
            return rng.choice([-32768, -32767, -513, -512, -1, 0, 1, 255, 256, 511, 512, 32767, rng.randint(-32768, 32767)]) / 512.0
        return rng.uniform(-63.9, 63.9)
    if n == "VolumePeakSpec":
        k = rng.random()
        if k < 0.7:
            return rng.choice([0, 1, 2, 255, 256, 32767, 32768, 32769, 65534, 65535, rng.randint(0, 65535)]) / 32768.0
        return rng.uniform(0, 1.99)
    if n == "SynchronizedTextSpec":
        return [(gen_text(rng, enc, lo, 4), lattice_int(rng, (1 << 32) - 1)) for _ in range(rng.randint(1, 3))]
    if n == "KeyEventSpec":
        # event types are the byte values $00..$FF of the ID3v2 event timing codes table ($FD audio end, $FE audio file ends, $E0-$EF user events)
        return [(rng.choice([0, 1, 2, 0x16, 127, 128, 0xE0, 0xEF, 0xFD, 0xFE, 0xFF, rng.randint(0, 255)]),
                 rng.choice([0, 1, 0x7FFFFFFF, 0x80000000, 0xFFFFFFFE, 0xFFFFFFFF, lattice_int(rng, (1 << 32) - 1)])) for _ in range(rng.randint(1, 3))]
    if n == "VolumeAdjustmentsSpec":
        fs = sorted(set(rng.choice([0, 1, 2, 255, 256, 65535, rng.randint(0, 65535)]) for _ in range(rng.randint(1, 4))))
        return [(f / 2.0, rng.choice([-32768, -1, 0, 1, 32767, rng.randint(-32768, 32767)]) / 512.0) for f in fs]
    if n == "ASPIIndexSpec":
        return None     # filled in with N and b, see gen_frame
    if n == "RVASpec":
        cnt = rng.randint(2, spec._max_values)
        mags = [0, 1, 255, 256, 65535, 65536, 70000, (1 << 24) - 1, 1 << 24, (1 << 32) + 5]
        out = []
        for i in range(cnt):
            v = rng.choice(mags) if rng.random() < 0.7 else rng.randint(0, 1 << 20)
            if i in (0, 1, 4, 5, 8, 10) and rng.random() < 0.5:
                v = -v
            out.append(v)
        return out
    if n == "ID3FramesSpec":
        subs = []
        if depth < 2:
            pool = ["TIT2", "TPE1", "WOAR", "PRIV", "COMM", "APIC", "TXXX"] + (["CHAP"] if depth == 0 else [])
            for name in rng.sample(pool, rng.randint(0, 3)):
                subs.append(gen_frame(rng, I.Frames[name], enc if ver == 4 or enc < 2 else 1, ver, depth + 1))
        return subs
    if n == "Latin1TextListSpec":
        return [gen_latin1(rng, 1, 4) for _ in range(rng.randint(0, 3))]
    raise KeyError(n)


def gen_frame(rng, cls, enc, ver, depth=0, optional=None):
    """instance of `cls` with valid non-degenerate generated values; optional: how many _optionalspec fields to set"""
    mutagen, I, S, T, F, U = M()
    kw = {}
    for s in cls._framespec:
        kw[s.name] = gen_value(rng, s, enc, ver, S, I, depth)
    nopt = len(cls._optionalspec)
    k = rng.randint(0, nopt) if optional is None else min(optional, nopt)
    # a set optional field followed by an unset BinaryDataSpec would reload with data=b'' set
    while k < nopt and cls._optionalspec[k].handle_nodata:
        k += 1
    for s in cls._optionalspec[:k]:
        kw[s.name] = gen_value(rng, s, enc, ver, S, I, depth)
    if any(sname(s) == "ASPIIndexSpec" for s in cls._framespec):
        b = rng.choice([8, 16])
        n = rng.randint(1, 5)
        kw["b"], kw["N"] = b, n
        top = 255 if b == 8 else 65535
        for s in cls._framespec:
            if sname(s) == "ASPIIndexSpec":
                kw[s.name] = [rng.choice([0, 1, top, rng.randint(0, top)]) for _ in range(n)]
    # a frame whose whole body is empty is not written as a frame at all (size 0 frames are dropped on load)
    if all(s.handle_nodata for s in cls._framespec) and not any(kw[s.name] for s in cls._framespec):
        for s in cls._framespec:
            if sname(s) == "BinaryDataSpec":
                kw[s.name] = b"\x00\x01"
                break
    return cls(**kw)


def set_fields(frame):
    return [s for s in list(frame._framespec) + list(frame._optionalspec) if hasattr(frame, s.name)]


# ------------------------------------------------------------------------------------------------ model syntax
def mt(s):
    return "t" + ".".join("%x" % ord(c) for c in s)


def to_model(spec, v, ver=4, loaded=False):
    """model value syntax of a Python field value (loaded: nested frames in load order, else in _write order)"""
    n = sname(spec)
    if n in ("EncodingSpec", "ByteSpec", "ChannelSpec", "PictureTypeSpec", "CTOCFlagsSpec", "SizedIntegerSpec", "IntegerSpec"):
        return "i" + zs(int(v))
    if n in ("EncodedTextSpec", "EncodedNumericTextSpec", "EncodedNumericPartTextSpec", "Latin1TextSpec", "StringSpec", "FrameIDSpec"):
        return mt(v)
    if n == "TimeStampSpec":
        return mt(v.text)
    if n == "MultiSpec":
        if len(spec.specs) == 1:
            return "l(" + ";".join(to_model(spec.specs[0], x, ver) for x in v) + ")"
        return "l(" + ";".join("l(" + ";".join(to_model(s, x, ver) for s, x in zip(spec.specs, rec)) + ")" for rec in v) + ")"
    if n == "BinaryDataSpec":
        return hx(v)
    if n == "VolumeAdjustmentSpec":
        return "i" + zs(rhe(v * 512))
    if n == "VolumePeakSpec":
        return "i" + zs(rhe(v * 32768))
    if n == "SynchronizedTextSpec":
        return "l(" + ";".join("l(%s;i%s)" % (mt(t), zs(tm)) for t, tm in v) + ")"
    if n == "KeyEventSpec":
        return "l(" + ";".join("l(i%s;i%s)" % (zs(a), zs(b)) for a, b in v) + ")"
    if n == "VolumeAdjustmentsSpec":
        return "l(" + ";".join("l(i%s;i%s)" % (zs(int(f * 2)), zs(int(a * 512))) for f, a in v) + ")"
    if n in ("ASPIIndexSpec", "RVASpec"):
        return "l(" + ";".join("i" + zs(int(x)) for x in v) + ")"
    if n == "Latin1TextListSpec":
        return "l(" + ";".join(mt(x) for x in v) + ")"
    if n == "ID3FramesSpec":
        return "l(" + ";".join("l(%s;%s)" % (hx(type(f).__name__.encode()), frame_to_model(f, ver, loaded))
                               for f in (list(v.values()) if loaded else wire_order(v, ver))) + ")"
    raise KeyError(n)


def wire_order(tags, ver):
    """sub-frames in the order ID3Tags._write emits them (same key as the implementation)"""
    mutagen, I, S, T, F, U = M()
    cfg = U.ID3SaveConfig(ver if ver in (3, 4) else 4, None)
    order = ["TIT2", "TPE1", "TRCK", "TALB", "TPOS", "TDRC", "TCON"]
    items = [(f, T.save_frame(f, config=cfg)) for f in tags.values()]
    items.sort(key=lambda it: (order.index(it[0].FrameID) if it[0].FrameID in order else len(order), len(it[1]), it[0].HashKey))
    return [f for f, d in items if d]


def frame_to_model(frame, ver=4, loaded=False):
    return "l(" + ";".join(to_model(s, getattr(frame, s.name), ver, loaded) for s in set_fields(frame)) + ")"


def exc_name(e):
    mutagen = M()[0]
    if isinstance(e, NotImplementedError):
        return "NotImplementedError"
    if isinstance(e, mutagen.MutagenError):
        return "MutagenError"
    if isinstance(e, struct.error):
        return "struct.error"
    if isinstance(e, UnicodeError):
        return "UnicodeError"
    return type(e).__name__


def header(ver, gunsync=False):
    T = M()[3]
    h = T.ID3Header()
    h.version = (2, ver, 0)
    h._flags = 0x80 if gunsync else 0
    return h


# ------------------------------------------------------------------------------------------------ field comparison (oracle)
def field_diffs(orig, got, ver, path="", typename=None, exact=False):
    """list of differing fields between the frame that was saved and the frame that was loaded
    (typename: the class the loaded frame must have when it is not the class of orig, e.g. a v2.2 frame's base class)"""
    diffs = []
    if type(got).__name__ != (typename or type(orig).__name__):
        return ["%stype %s -> %s" % (path, typename or type(orig).__name__, type(got).__name__)]
    so, sg = set_fields(orig), set_fields(got)
    if [s.name for s in so] != [s.name for s in sg]:
        diffs.append("%sfields set %s -> %s" % (path, [s.name for s in so], [s.name for s in sg]))
    for s in so:
        if not hasattr(got, s.name):
            continue
        a, b = getattr(orig, s.name), getattr(got, s.name)
        n = sname(s)
        if n == "EncodingSpec" and ver == 3 and int(a) not in (0, 1):
            a = 1
        if exact and n in ("VolumeAdjustmentSpec", "VolumePeakSpec", "VolumeAdjustmentsSpec"):      # a copy, not a wire round trip
            ok = a == b
        elif n == "VolumeAdjustmentSpec":
            ok = rhe(a * 512) == rhe(b * 512) and b * 512 == rhe(b * 512)
        elif n == "VolumePeakSpec":
            ok = rhe(a * 32768) == rhe(b * 32768)
        elif n == "VolumeAdjustmentsSpec":
            ok = [(int(f * 2), int(x * 512)) for f, x in a] == [(int(f * 2), int(x * 512)) for f, x in b]
        elif n == "ID3FramesSpec":
            ok = sorted(a.keys()) == sorted(b.keys())
            if ok:
                for k in a.keys():
                    diffs += field_diffs(a[k], b[k], ver, path + s.name + "/" + k + ".")
        elif n == "TimeStampSpec":
            ok = a.text == b.text
        elif n == "MultiSpec" and len(s.specs) == 1 and sname(s.specs[0]) == "TimeStampSpec":
            ok = [x.text for x in a] == [x.text for x in b]
        elif n in ("SynchronizedTextSpec", "KeyEventSpec"):
            ok = [tuple(x) for x in a] == [tuple(x) for x in b]
        elif n == "MultiSpec":
            ok = [list(x) if isinstance(x, (list, tuple)) else x for x in a] == [list(x) if isinstance(x, (list, tuple)) else x for x in b]
        else:
            ok = a == b and type(a) is type(b) if isinstance(a, (bytes, str)) else a == b
        if not ok:
            diffs.append("%s%s: %s -> %s" % (path, s.name, repr(a)[:60], repr(b)[:60]))
    return diffs


def syncsafe(n):
    return bytes([(n >> 21) & 127, (n >> 14) & 127, (n >> 7) & 127, n & 127])


def unsynch_encode(b):
    out = bytearray()
    for i, x in enumerate(b):
        out.append(x)
        if x == 0xFF and (i + 1 == len(b) or b[i + 1] >= 0xE0 or b[i + 1] == 0):
            out.append(0)
    return bytes(out)


FRAMINGS = ["plain", "unsynch", "datalen", "zlib0", "zlib9", "zlib9+unsynch", "tag-unsynch", "v23-plain", "v23-zlib0", "v23-zlib9", "v23-tag-unsynch", "v22"]


def build_tag(framing, name, data):
    """a complete tag with one frame `name` whose field bytes are `data`, in the given input framing"""
    if framing.startswith("v23"):
        flags, body, tflags = 0, data, 0
        if "zlib" in framing:
            body = struct.pack(">L", len(data)) + zlib.compress(data, 0 if "zlib0" in framing else 9)
            flags = 0x0080
        fr = name.encode("ascii") + struct.pack(">LH", len(body), flags) + body
        if "tag-unsynch" in framing:
            fr, tflags = unsynch_encode(fr), 0x80
        return b"ID3\x03\x00" + bytes([tflags]) + syncsafe(len(fr)) + fr
    if framing == "v22":
        fr = name.encode("ascii") + struct.pack(">L", len(data))[1:] + data
        return b"ID3\x02\x00\x00" + syncsafe(len(fr)) + fr
    flags, body, tflags = 0, data, 0
    if "zlib" in framing:
        body = zlib.compress(data, 0 if "zlib0" in framing else 9)
        flags |= 0x0008 | 0x0001
    if "unsynch" in framing and framing != "tag-unsynch":
        body = unsynch_encode(body)
        flags |= 0x0002
    if framing == "tag-unsynch":
        body, tflags = unsynch_encode(body), 0x80
    if framing == "datalen" or "zlib" in framing:
        body = syncsafe(len(data)) + body
        flags |= 0x0001
    fr = name.encode("ascii") + syncsafe(len(body)) + struct.pack(">H", flags) + body
    return b"ID3\x04\x00" + bytes([tflags]) + syncsafe(len(fr)) + fr


# ------------------------------------------------------------------------------------------------ (D) direct oracle
def case_frame(cls_name, ver, enc, seed, optional=None):
    mutagen, I, S, T, F, U = M()
    cls = I.Frames.get(cls_name) or I.Frames_2_2[cls_name]
    if seed < 0:      # deterministic nested case: a sub-frame containing FF 00 (double unsynch decode regression)
        subs = [I.PRIV(owner="o", data=b"\xff\x00\x01\xff\x00"), I.TIT2(encoding=enc if ver == 4 else min(enc, 1), text=["s\xff"])]
        if cls_name == "CHAP":
            return I.CHAP(element_id="c", start_time=1, end_time=2, start_offset=5, end_offset=6, sub_frames=subs)
        return I.CTOC(element_id="t", flags=3, child_element_ids=["c"], sub_frames=subs)
    return gen_frame(random.Random(seed), cls, enc, ver, optional=optional)


def oracle_case(ctx, cls_name, ver, enc, seed, framings=(), optional=None):
    """returns True if the property holds on this case; records a violation otherwise"""
    mutagen, I, S, T, F, U = M()
    data = {"runner": "c12.oracle", "frame": cls_name, "version": ver, "encoding": enc, "seed": seed, "optional": optional}
    try:
        fr = case_frame(cls_name, ver, enc, seed, optional)
    except Exception as e:
        ctx.disagree("c12.generator", "cannot construct %s from generated values: %s %s" % (cls_name, type(e).__name__, e), data)
        return True
    ok = True
    rva_mixed = any(sname(s) == "RVASpec" and len({max(2, (abs(x).bit_length() + 7) // 8) for x in getattr(fr, s.name)}) > 1 for s in fr._framespec)
    diffs = []
    if len(cls_name) == 4:
        try:
            tag = I.ID3()
            tag.add(fr)
            f = io.BytesIO()
            tag.save(f, v2_version=ver, v23_sep=None)
            f.seek(0)
            back = I.ID3(f, translate=False) if ver == 4 else I.ID3(f, v2_version=3, translate=False)
            got = list(back.values())
            if len(got) != 1:
                diffs = ["%d frames loaded back" % len(got)]
            else:
                diffs = field_diffs(fr, got[0], ver)
        except Exception as e:
            diffs = ["save/load raised %s: %s" % (type(e).__name__, str(e)[:80])]
    ctx.oracle_cases += 1
    ctx.count("oracle:v2.%d" % ver)
    ctx.case(("D", cls_name, ver, enc, seed, optional), {"frame": cls_name, "version": ver, "encoding": enc, "seed": seed, "repr": repr(fr)[:160]} if ctx.evaluations % 997 == 0 else None)
    if diffs:
        ok = False
        keyev_high = any(sname(s) == "KeyEventSpec" and any(t >= 128 for t, _ in getattr(fr, s.name)) for s in fr._framespec)
        if rva_mixed and any("adjustments" in d for d in diffs):
            what = "RVASpec.write: values of different byte widths are padded on the wrong side"
            data = dict(data, defect="rva-mixed-width")
        elif keyev_high and any("raised" in d or d.startswith("events") for d in diffs):
            what = KEYEV_WHAT
            data = dict(data, defect="keyevent-signed-type")
        else:
            what = "%s saved as v2.%d does not reload with equal fields (%s)" % (cls_name, ver, diffs[0].split(":")[0])
        ctx.violation("oracle", what, dict(data, diffs=diffs[:4], frame_repr=repr(fr)[:300]))
    # input framings of the same field bytes
    for framing in framings:
        fver = 3 if framing.startswith("v23") else 2 if framing == "v22" else 4
        name = cls_name
        try:
            if fver == 2:
                if len(cls_name) != 3:
                    continue
                base = type(fr).__bases__[0]
                if base is F.Frame or type(fr)._framespec is not base._framespec:
                    continue
                expect_src = v22_upgrade(fr)
                body = fr._writeData(U.ID3SaveConfig(3, None))
                cmpver = 3
            else:
                if len(cls_name) != 4:
                    continue
                body = fr._writeData(U.ID3SaveConfig(fver, None))
                expect_src = fr
                cmpver = fver
        except Exception as e:
            continue
        if fver != ver and fver != 2:
            continue
        if fver == 2 and ver != 3:
            continue
        try:
            tagb = build_tag(framing, name, body)
            back = I.ID3(io.BytesIO(tagb), translate=False)
            got = list(back.values())
            diffs = ["%d frames loaded" % len(got)] if len(got) != 1 else field_diffs(expect_src, got[0], cmpver)
        except Exception as e:
            diffs = ["load raised %s: %s" % (type(e).__name__, str(e)[:80])]
        ctx.oracle_cases += 1
        ctx.count("oracle-framing:" + framing)
        ctx.case(("DF", cls_name, framing, enc, seed))
        if diffs:
            ok = False
            d2 = dict(data, framing=framing, diffs=diffs[:4], frame_repr=repr(fr)[:300])
            if framing in ("v23-tag-unsynch", "tag-unsynch") and all("sub_frames" in d for d in diffs):
                d2["defect"] = "nested-double-unsynch"
            ctx.violation("oracle", "%s framing of a frame does not decode to the saved field values" % framing, d2)
    return ok


KEYEV_WHAT = "KeyEventSpec: a key event of type $80..$FF (valid ID3v2 event codes, e.g. $FD audio end) cannot be saved or does not reload as the same type (signed byte)"


def keyevent_wire_case(ctx, ver, fmt, events):
    """hand-written ETCO / ETC bytes (format byte, then type byte + 32-bit time per event): the loaded events are the stored ones"""
    mutagen, I, S, T, F, U = M()
    body = bytes([fmt]) + b"".join(bytes([t]) + tm.to_bytes(4, "big") for t, tm in events)
    name = "ETC" if ver == 2 else "ETCO"
    try:
        got = list(I.ID3(io.BytesIO(tag_of(ver, name, body)), translate=False, load_v1=False).values())
        d = [] if len(got) == 1 and type(got[0]).__name__ == "ETCO" and got[0].format == fmt and [tuple(e) for e in got[0].events] == list(events) else \
            ["events: %r -> %r" % (list(events), [tuple(e) for e in got[0].events] if len(got) == 1 else "%d frames" % len(got))]
    except Exception as e:
        d = ["load raised %s: %s" % (type(e).__name__, str(e)[:80])]
    ctx.oracle_cases += 1
    ctx.count("oracle:keyevent-wire")
    ctx.case(("DK", ver, fmt, tuple(events)))
    if d:
        high = any(t >= 128 for t, _ in events)
        ctx.violation("oracle", KEYEV_WHAT if high else "hand-written ETCO bytes do not load as the stored events",
                      {"runner": "c12.keyevent", "version": ver, "format": fmt, "events": [list(e) for e in events], "diffs": d, **({"defect": "keyevent-signed-type"} if high else {})})
    return not d


def keyevent_oracle(ctx, n):
    types = [0, 1, 0x16, 0x7F, 0x80, 0xE0, 0xEF, 0xFD, 0xFE, 0xFF]
    times = [0, 1, 0x7FFFFFFF, 0x80000000, 0xFFFFFFFF]
    for ver in (4, 3, 2):
        for t in types:
            keyevent_wire_case(ctx, ver, 2, [(t, ctx.rng.choice(times))])
        for _ in range(n):
            keyevent_wire_case(ctx, ver, ctx.rng.choice([1, 2]), [(ctx.rng.randrange(256), ctx.rng.choice(times + [ctx.rng.getrandbits(32)])) for _ in range(ctx.rng.randint(1, 4))])


def registry():
    mutagen, I, S, T, F, U = M()
    return sorted(I.Frames.keys()), sorted(I.Frames_2_2.keys())


def encs_for(cls):
    if any(sname(s) == "EncodingSpec" for s in cls._framespec):
        return [0, 1, 2, 3]
    return [0]


def direct_oracle(ctx, reps, framing_reps):
    mutagen, I, S, T, F, U = M()
    f34, f22 = registry()
    for name in f34 + f22:
        cls = I.Frames.get(name) or I.Frames_2_2[name]
        for ver in (4, 3):
            for enc in encs_for(cls):
                if ver == 3 and enc > 1 and len(name) == 3:
                    continue
                for r in range(reps):
                    seed = ctx.rng.getrandbits(40)
                    fr_sets = FRAMINGS if r < framing_reps else ()
                    opt = None if r else len(cls._optionalspec)
                    oracle_case(ctx, name, ver, enc, seed, fr_sets, optional=opt)
                if name in ("CHAP", "CTOC"):
                    oracle_case(ctx, name, ver, enc, -1, FRAMINGS)


# ------------------------------------------------------------------------------------------------ (T) hand-built multi-frame tags
# Several frames per tag (CHAP/CTOC with sub-frames before, between and after other frames), every input framing of a
# version built by the harness itself: own unsynchronisation encoder, own size fields, own deflate streams; the field
# bytes of each frame come from the extracted Coq model's writer (mutagen's _writeData only when the model is unavailable).
# Judge: every loaded frame, at every position, equals the generated values and the frame the plain tag loads there.
TAG_FRAMINGS = {
    2: ["v22-plain", "v22-tagunsynch"],
    3: ["v23-plain", "v23-tagunsynch", "v23-zlib", "v23-zlib+tagunsynch", "v23-mixed", "v23-mixed+tagunsynch"],
    4: ["v24-plain", "v24-tagflag", "v24-frameflags", "v24-frameflags+tagflag", "v24-dli", "v24-dli+tagflag", "v24-zlib", "v24-zlib+frameflags",
        "v24-zlib+tagflag", "v24-mixed", "v24-mixed+tagflag"],
}
HOT_BYTES = [b"\xff\x00", b"\xff\xe0", b"\x01\xff", b"\xff", b"\xff\x00\x00\xff\xff\xe0\xff", b"\xff\xd8\xff\xe0\x00\x10JFIF\x00\xff\x00\xff\xff\xfe\x00\x00\xff\xe1\xff",
             b"\x01\xff\x00\xff\xf3\x00\xff", b"\xff\xfe\x00\x00\xff", b"\xff\xff\xff", b"\x00\xff\x00\x00\xff"]
HOT34 = ["APIC", "PRIV", "UFID", "GEOB", "MCDI", "TIT2", "TPE1", "TALB", "TXXX", "COMM", "USLT", "WXXX", "WOAR", "USER", "ENCR", "GRID", "POPM", "SYLT", "TDRC", "TCON"]
HOT22 = ["PIC", "UFI", "GEO", "MCI", "TT2", "TP1", "TAL", "TXX", "COM", "ULT", "WXX", "WAR", "POP", "SLT", "TCO"]


def stored_deflate(data, block=65535):
    """a zlib stream of stored deflate blocks, built by hand"""
    out = bytearray(b"\x78\x01")
    chunks = [data[i:i + block] for i in range(0, len(data), block)] or [b""]
    for i, c in enumerate(chunks):
        out += bytes([1 if i + 1 == len(chunks) else 0]) + struct.pack("<HH", len(c), 0xFFFF - len(c)) + c
    a, b = 1, 0
    for x in data:
        a = (a + x) % 65521
        b = (b + a) % 65521
    return bytes(out) + struct.pack(">L", b * 65536 + a)


def deflate(data, z):
    return stored_deflate(data, 7 if z == "s7" else 65535) if isinstance(z, str) else zlib.compress(data, z)


def hot_bytes(rng):
    b = rng.choice(HOT_BYTES)
    if rng.random() < 0.4:
        b = bytes(rng.choice([0xFF, 0xFF, 0, 0xE0, rng.randrange(256)]) for _ in range(rng.randint(0, 40))) + b
    if rng.random() < 0.3:
        b = b + bytes(rng.randrange(256) for _ in range(rng.randint(100, 400))) + b"\xff"
    return b


def v22_upgrade(fr):
    """the v2.3/v2.4 frame a v2.2 frame is loaded as (public constructor of the base class), None if there is none"""
    F = M()[4]
    base = type(fr).__bases__[0]
    if base is F.Frame:
        return None
    try:      # keyword constructor: independent of Frame._to_other, which the loader's upgrade uses
        return base(**{s.name: getattr(fr, s.name) for s in set_fields(fr)})
    except Exception:
        pass
    try:
        return base(fr)
    except Exception:
        return None


def make_hot(rng, fr, enc):
    """patch generated values so that the frame's bytes are touched by the unsynchronisation scheme"""
    for s in type(fr)._framespec:
        n = sname(s)
        if n == "BinaryDataSpec":
            setattr(fr, s.name, hot_bytes(rng))
        elif n == "Latin1TextSpec" and rng.random() < 0.6:
            setattr(fr, s.name, getattr(fr, s.name) + rng.choice(["\xff", "\xff\xfe", "a\xff\xe9", "\xff"]))      # y-diaeresis before the NUL terminator
        elif n == "MultiSpec" and len(s.specs) == 1 and sname(s.specs[0]) == "EncodedTextSpec" and enc == 0 and rng.random() < 0.7:
            setattr(fr, s.name, [x + "\xff" for x in getattr(fr, s.name)])
        elif n == "EncodedTextSpec" and enc == 0 and rng.random() < 0.5:
            setattr(fr, s.name, getattr(fr, s.name) + "\xff\xfe")
    return fr


def big_payload(rng, n):
    block = bytes(rng.choice([0xFF, 0xFF, 0, 0xE0, rng.randrange(256)]) for _ in range(1009))
    return (block * (n // len(block) + 1))[:n - 1] + b"\x07"


def gen_tagset(seed, ver, big=0, many=0):
    """top-level frames of one tag in storage order: [(frame, role)] with role in chapter / hot / plain
    (big: one binary frame, not the last, carries a payload of `big` bytes; many: that many sibling CHAP/CTOC frames)"""
    mutagen, I, S, T, F, U = M()
    rng = random.Random("tagset/%d/%d/%d/%d" % (ver, seed, big, many) if big or many else "tagset/%d/%d" % (ver, seed))
    table = I.Frames if ver >= 3 else I.Frames_2_2
    hot = HOT34 if ver >= 3 else HOT22
    names = sorted(n for n in table if n not in ("CHAP", "CTOC"))
    pattern = rng.choice(["CN", "CNN", "NCN", "NNC", "CNCN", "NCNCN", "CCN", "NCC", "NN", "NNN"]) if ver >= 3 else rng.choice(["NN", "NNN", "NNNN", "N"])
    pattern += "N" * rng.randint(0, 2)
    if many and ver >= 3:
        pattern = "N" + "".join("C" + ("N" if i % 9 == 8 else "") for i in range(many)) + "N"
    bigpos = -1
    if big:
        pattern = "NNN" + "N" * rng.randint(0, 1)
        bigpos = rng.choice([0, 1])
    out, used, keys = [], set(), set()
    for pos, kind in enumerate(pattern):
        for attempt in range(20):
            wenc = rng.choice([0, 1, 1, 2, 3]) if ver == 4 else rng.choice([0, 1, 1])
            if kind == "C":
                name = rng.choice(["CHAP", "CHAP", "CTOC"])
                fr = gen_frame(rng, table[name], wenc, ver)
                fr.element_id = "%02d%s" % (pos, fr.element_id)
                role = "chapter"
            else:
                is_hot = pos == len(pattern) - 1 or pattern[pos - 1:pos] == "C" or rng.random() < 0.6
                name = rng.choice(hot) if is_hot or rng.random() < 0.3 else rng.choice(names)
                if pos == bigpos:
                    name = rng.choice(["GEOB", "APIC", "PRIV", "UFID"] if ver >= 3 else ["GEO", "PIC", "UFI"])
                if name in used or name not in table:
                    continue
                try:
                    fr = gen_frame(rng, table[name], wenc if any(sname(s) == "EncodingSpec" for s in table[name]._framespec) else 0, max(ver, 3))
                    if is_hot:
                        fr = make_hot(rng, fr, wenc)
                    if pos == bigpos:
                        fr.data = big_payload(rng, big)
                except Exception:
                    continue
                role = "hot" if is_hot else "plain"
            want = fr if ver >= 3 else v22_upgrade(fr)
            if want is None or want.HashKey in keys:
                continue
            used.add(name)
            keys.add(want.HashKey)
            out.append((fr, want, role))
            break
    return out


def field_bytes(ctx, fr, ver):
    """the field bytes of a frame (nested frames excluded by the caller): extracted model writer, else _writeData"""
    U = M()[5]
    wver = ver if ver in (3, 4) else 3
    if ctx.use_model:
        try:
            r = ctx.model.call("c12_fw", zs(wver), type(fr).__name__, frame_to_model(fr, wver, True))
            if r.startswith("ok "):
                ctx.count("tagset:field-bytes-from-model")
                return unhx(r[3:])
        except Exception:
            pass
    ctx.count("tagset:field-bytes-from-_writeData")
    return fr._writeData(U.ID3SaveConfig(wver, None))


def node_of(ctx, fr, ver):
    """(frame id, field bytes before the nested frames, nested nodes)"""
    cls = type(fr)
    specs = list(cls._framespec)
    if specs and sname(specs[-1]) == "ID3FramesSpec" and not any(hasattr(fr, s.name) for s in cls._optionalspec):
        subs = [node_of(ctx, s, ver) for s in getattr(fr, specs[-1].name).values()]
        bare = cls(**{s.name: getattr(fr, s.name) for s in specs[:-1]})
        return (cls.__name__.encode("ascii"), field_bytes(ctx, bare, ver), subs)
    if specs and sname(specs[-1]) == "BinaryDataSpec" and not any(hasattr(fr, s.name) for s in cls._optionalspec) and len(getattr(fr, specs[-1].name)) > 4096:
        # a large trailing binary field is raw bytes: keep the model call small
        bare = cls(**dict({s.name: getattr(fr, s.name) for s in specs[:-1]}, **{specs[-1].name: b""}))
        return (cls.__name__.encode("ascii"), field_bytes(ctx, bare, ver) + getattr(fr, specs[-1].name), [])
    return (cls.__name__.encode("ascii"), field_bytes(ctx, fr, ver), [])


def frame_mode(framing, rng):
    """(frame-level unsynch flag, data length indicator, deflate) of one frame under a framing"""
    base = framing.split("-", 1)[1]
    if "mixed" in base:
        return rng.choice([(0, 0, None), (1, 0, None), (0, 1, None), (1, 1, None), (0, 1, 0), (1, 1, 9), (0, 1, 9), (1, 1, "s7"), (0, 1, "s")])
    parts = base.split("+")
    z = rng.choice([0, 9, "s", "s7"]) if "zlib" in parts else None
    return (1 if "frameflags" in parts else 0, 1 if "dli" in parts or z is not None else 0, z)


def int_walk_wins(area, known):
    """validity condition of v2.4 input (MANIFEST note): reading the frame area with plain-int sizes must not reach MORE known
    frame ids than reading it with syncsafe sizes (determine_bpi is a by-design heuristic); own walker, not mutagen's"""
    counts = []
    for bits in (7, 8):
        o = n = 0
        while o < len(area) - 10:
            part = area[o:o + 10]
            if not part.strip(b"\x00"):
                break
            size = 0
            for x in part[4:8]:
                size = (size << bits) | (x & ((1 << bits) - 1))
            if part[:4] in known:
                n += 1
            o += 10 + size
        counts.append(n)
    return counts[1] > counts[0]


def build_frame(ver, node, framing, rng, top, info):
    name, body, subs = node
    tagflag = "tagflag" in framing or "tagunsynch" in framing
    fu, dl, z = frame_mode(framing, rng)
    subarea = b"".join(build_frame(ver, s, framing, rng, False, info) for s in subs)
    if ver == 4 and subs and int_walk_wins(subarea, info["known"]):
        info["ambiguous"] = True
    inner = body + subarea
    if ver == 2:
        return name + struct.pack(">L", len(inner))[1:] + inner
    if ver == 3:
        data, flags = inner, 0
        if z is not None:
            data, flags = struct.pack(">L", len(inner)) + deflate(inner, z), 0x0080
        return name + struct.pack(">LH", len(data), flags) + data
    data, flags = inner, 0
    if z is not None:
        data, flags = deflate(inner, z), 0x0008
    if fu:
        flags |= 0x0002
    if fu or (top and tagflag):       # sub-frames are covered by the enclosing frame's encoding, not by the tag flag
        e = unsynch_encode(data)
        info["stuffed"] += e != data
        data = e
    if dl:
        data, flags = syncsafe(len(inner)) + data, flags | 0x0001
    return name + syncsafe(len(data)) + struct.pack(">H", flags) + data


def build_tagset(ver, nodes, framing, seed, info):
    rng = random.Random("framing/%s/%d" % (framing, seed))
    area = b"".join(build_frame(ver, n, framing, rng, True, info) for n in nodes) + b"\x00" * rng.choice([0, 0, 1, 9, 10, 23])
    if ver == 4 and int_walk_wins(area, info["known"]):
        info["ambiguous"] = True
    tflags = 0
    if "tagflag" in framing or "tagunsynch" in framing:
        tflags = 0x80
        if ver < 4:
            e = unsynch_encode(area)
            info["stuffed"] += e != area
            area = e
    return b"ID3" + bytes([ver, 0, tflags]) + syncsafe(len(area)) + area


def where(roles, i):
    if roles[i] == "chapter":
        return "a CHAP/CTOC frame stored after another CHAP/CTOC frame" if "chapter" in roles[:i] else "a CHAP/CTOC frame"
    if "chapter" in roles[:i]:
        return "a frame stored after a CHAP/CTOC frame"
    if "chapter" in roles[i:]:
        return "a frame stored before the CHAP/CTOC frames"
    return "a frame of a tag without CHAP/CTOC frames"


def tagset_case(ctx, ver, seed, framings=None, big=0, many=0):
    """True if every framing of the generated frame set loads as generated; records a violation otherwise"""
    mutagen, I, S, T, F, U = M()
    data = {"runner": "c12.tagset", "version": ver, "seed": seed, "big": big, "many": many}
    try:
        frames = gen_tagset(seed, ver, big, many)
        nodes = [node_of(ctx, fr, ver) for fr, want, role in frames]
    except Exception as e:
        ctx.disagree("c12.generator", "cannot generate a frame set: %s %s" % (type(e).__name__, str(e)[:120]), data)
        return True
    wants = [w for fr, w, role in frames]
    roles = [role for fr, w, role in frames]
    cmpver = max(ver, 3)
    known = set(k.encode("ascii") for k in I.Frames)
    data["order"] = [type(fr).__name__ for fr, w, role in frames]
    ok = True
    plain = None
    for framing in TAG_FRAMINGS[ver]:
        if framings is not None and framing not in framings and not framing.endswith("plain"):
            continue
        info = {"stuffed": 0, "known": known, "ambiguous": False}
        tagb = build_tagset(ver, nodes, framing, seed, info)
        if info["ambiguous"]:
            ctx.count("tagset-excluded-bpi-heuristic:" + framing)
            ctx.case(None)
            continue
        bad = None       # (index, diffs)
        got = None
        try:
            back = I.ID3(io.BytesIO(tagb), translate=False, load_v1=False)
            got = list(back.values())
            if len(got) != len(wants):
                first = [i for i, w in enumerate(wants) if i >= len(got) or field_diffs(w, got[i], cmpver)]
                bad = (first[0] if first else len(wants) - 1, ["%d of %d frames loaded (%s)" % (len(got), len(wants), ",".join(type(g).__name__ for g in got))])
            else:
                for i, (w, g) in enumerate(zip(wants, got)):
                    d = field_diffs(w, g, cmpver)
                    if not d and plain is not None and len(plain) == len(got):
                        d = ["differs from the plain tag: " + x for x in field_diffs(plain[i], g, cmpver)]
                    if d:
                        bad = (i, d)
                        break
        except Exception as e:
            bad = (0, ["load raised %s: %s" % (type(e).__name__, str(e)[:80])])
        if framing.endswith("plain"):
            plain = got
        ctx.oracle_cases += 1
        ctx.count("tagset:" + framing)
        if info["stuffed"]:
            ctx.count("tagset-stuffed:" + framing)
        if "chapter" in roles[:-1]:
            ctx.count("tagset-frames-after-chapter:" + framing)
        ctx.case(("T", ver, seed, framing) if info["stuffed"] or framing.endswith("plain") else None,
                 {"tagset": data["order"], "framing": framing, "seed": seed} if ctx.evaluations % 499 == 0 else None)
        if bad:
            ok = False
            i, diffs = bad
            kind = " [tag with a frame of 64 KiB or more]" if big else " [tag with 16..40 sibling CHAP/CTOC frames]" if many else ""
            what = "%s framing of a hand-built multi-frame tag: %s does not decode to the generated field values%s" % (framing, where(roles, i), kind)
            extra = {}
            if any(sname(s) == "KeyEventSpec" and any(t >= 128 for t, _ in getattr(wants[i], s.name)) for s in type(wants[i])._framespec) and any("events" in x for x in diffs):
                what, extra = KEYEV_WHAT, {"defect": "keyevent-signed-type"}
            ctx.violation("oracle", what,
                          dict(data, framing=framing, index=i, frame=data["order"][i], diffs=diffs[:4], tag=tagb.hex() if len(tagb) <= 600 else tagb[:600].hex() + "...",
                               frame_repr=repr(wants[i])[:300], **extra))
    return ok


BIG_SIZES = [65535, 65536, 65537, 70000, 131071, 131072, 200000, 65279, 65280, 66000]
MANY_CHAPTERS = [17, 18, 16, 25, 40, 33]


def tagset_oracle(ctx, n4, n3, n2):
    for ver, n in ((4, n4), (3, n3), (2, n2)):
        for _ in range(n):
            tagset_case(ctx, ver, ctx.rng.getrandbits(40))
    # frames of 64 KiB and more (v2.2: the 24-bit size field needs its high byte; v2.3: 32-bit; v2.4: syncsafe), a few framings each
    nbig = 10 if ctx.thorough else 4
    for i, size in enumerate(BIG_SIZES[:nbig]):
        tagset_case(ctx, 2, ctx.rng.getrandbits(40), big=size)
        ver = (3, 4)[i % 2]
        fr = TAG_FRAMINGS[ver][1:]
        tagset_case(ctx, ver, ctx.rng.getrandbits(40), framings=[fr[i % len(fr)], fr[(i + 3) % len(fr)]], big=size)
    # more than 16 sibling CHAP/CTOC frames in one tag (the nesting bound is about depth, not about the number of chapters)
    for i, cnt in enumerate(MANY_CHAPTERS[:6 if ctx.thorough else 3]):
        for ver in (4, 3):
            fr = TAG_FRAMINGS[ver][1:]
            tagset_case(ctx, ver, ctx.rng.getrandbits(40), framings=[fr[i % len(fr)], fr[(i + 2) % len(fr)]], many=cnt)


# ------------------------------------------------------------------------------------------------ (U) v2.2 upgrade / Frame(other)
def lnk_frameid(fid):
    """LNK.frameid (three characters) as LINK.frameid: the upgraded name of a known v2.2 id, else padded"""
    I = M()[1]
    return I.Frames_2_2[fid].__bases__[0].__name__ if fid in I.Frames_2_2 else fid.ljust(4)


def upgrade_diffs(fr22, got, base):
    """fields of the frame a v2.2 frame was upgraded to vs. the generated values of the v2.2 frame (by field name, optional ones included)"""
    d = field_diffs(fr22, got, 3, typename=base.__name__)
    if type(fr22).__name__ == "LNK":
        d = [x for x in d if not x.startswith("frameid:")]
        if getattr(got, "frameid", None) != lnk_frameid(fr22.frameid):
            d.append("frameid: %r -> %r" % (lnk_frameid(fr22.frameid), getattr(got, "frameid", None)))
    return d


def tag_of(ver, name, payload):
    fr = name.encode("ascii") + (struct.pack(">L", len(payload))[1:] if ver == 2 else struct.pack(">L", len(payload)) + b"\x00\x00" if ver == 3 else
                                 syncsafe(len(payload)) + b"\x00\x00") + payload
    return b"ID3" + bytes([ver, 0, 0]) + syncsafe(len(fr)) + fr


def upgrade_case(ctx, name, enc, seed, nopt):
    """one v2.2 frame class, one generated payload with nopt optional fields: loader upgrade (translate off / default), Frame(other),
    _upgrade_frame; every path must give the base class with the generated values, and what the same payload gives in a v2.3 / v2.4 frame"""
    mutagen, I, S, T, F, U = M()
    cls = I.Frames_2_2[name]
    base = cls.__bases__[0]
    data = {"runner": "c12.upgrade", "frame": name, "encoding": enc, "seed": seed, "optional": nopt}
    try:
        fr = gen_frame(random.Random(seed), cls, enc, 3, optional=nopt)
        payload = field_bytes(ctx, fr, 2)
    except Exception as e:
        ctx.disagree("c12.generator", "cannot construct %s from generated values: %s %s" % (name, type(e).__name__, e), data)
        return True
    nset = len([s for s in cls._optionalspec if hasattr(fr, s.name)])
    bad = []        # (path, diffs)

    def load(ver, nm, **kw):
        return list(I.ID3(io.BytesIO(tag_of(ver, nm, payload)), load_v1=False, **kw).values())
    if base is F.Frame:      # no upgrade path (CRM): the loader drops the frame; nothing to compare
        ctx.count("upgrade:no-upgrade-path")
        ctx.case(None)
        return True
    same = cls._framespec is base._framespec and cls._optionalspec is base._optionalspec      # byte-identical payload is valid for the base class
    try:
        got = load(2, name, translate=False)
        d = ["%d frames loaded" % len(got)] if len(got) != 1 else upgrade_diffs(fr, got[0], base)
        if d:
            bad.append(("loader, translate=False", d))
        if same:
            for ver in (3, 4):
                ref = load(ver, base.__name__, translate=False)
                d = ["%d / %d frames loaded" % (len(got), len(ref))] if len(got) != 1 or len(ref) != 1 else field_diffs(ref[0], got[0], 3)
                if d:
                    bad.append(("loader, translate=False, against the same payload in a v2.%d %s frame" % (ver, base.__name__), d))
            got, ref = load(2, name), load(3, base.__name__)       # default translate: both go through update_to_v24
            d = ["%d / %d frames loaded" % (len(got), len(ref))] if len(got) != len(ref) else [x for a, b in zip(ref, got) for x in field_diffs(a, b, 3)]
            if d:
                bad.append(("loader, default translate, against the same payload in a v2.3 %s frame" % base.__name__, d))
            elif not got and base.__name__ not in ("RVAD", "EQUA", "TRDA", "TSIZ", "TDAT", "TIME", "TYER", "TORY"):
                bad.append(("loader, default translate", ["no frame loaded"]))
    except Exception as e:
        bad.append(("loader", ["load raised %s: %s" % (type(e).__name__, str(e)[:80])]))
    for path, conv in (("Frame(other)", lambda: base(fr)), ("_upgrade_frame", lambda: fr._upgrade_frame())):
        try:
            d = upgrade_diffs(fr, conv(), base)
        except Exception as e:
            d = ["raised %s: %s" % (type(e).__name__, str(e)[:80])]
        if d:
            bad.append((path, d))
    ctx.oracle_cases += 1
    ctx.count("upgrade:v2.2 optional fields set=%d" % nset)
    ctx.case(("U", name, enc, seed, nopt))
    if bad and any(sname(s) == "KeyEventSpec" and any(t >= 128 for t, _ in getattr(fr, s.name)) for s in cls._framespec) and all(any("events" in x for x in d) for _, d in bad):
        ctx.violation("oracle", KEYEV_WHAT, dict(data, defect="keyevent-signed-type", path=bad[0][0], diffs=bad[0][1][:4], payload=payload.hex()[:400], frame_repr=repr(fr)[:300]))
        return False
    for path, d in bad[:2]:
        ctx.violation("oracle", "v2.2 frame upgraded to its v2.3/v2.4 class (%s) does not keep the generated field values%s"
                      % (re.sub(r" v2\.\d \w+ frame", " v2.3/v2.4 frame", path), " (optional fields)" if any(x.startswith("fields set") for x in d) else ""),
                      dict(data, path=path, base=base.__name__, diffs=d[:4], payload=payload.hex()[:400], frame_repr=repr(fr)[:300]))
    return not bad


def copy_case(ctx, name, enc, seed, nopt):
    """the copy constructor cls(frame) of a v2.3/v2.4 class keeps every field, optional ones included"""
    mutagen, I, S, T, F, U = M()
    cls = I.Frames[name]
    data = {"runner": "c12.copy", "frame": name, "encoding": enc, "seed": seed, "optional": nopt}
    try:
        fr = gen_frame(random.Random(seed), cls, enc, 4, optional=nopt)
    except Exception as e:
        ctx.disagree("c12.generator", "cannot construct %s from generated values: %s %s" % (name, type(e).__name__, e), data)
        return True
    try:
        d = field_diffs(fr, cls(fr), 4, exact=True)
    except Exception as e:
        d = ["raised %s: %s" % (type(e).__name__, str(e)[:80])]
    ctx.oracle_cases += 1
    ctx.count("upgrade:copy-constructor")
    ctx.case(("UC", name, enc, seed, nopt))
    if d:
        ctx.violation("oracle", "Frame(other) copy of a frame does not keep the field values%s" % (" (optional fields)" if any(x.startswith("fields set") for x in d) else ""),
                      dict(data, diffs=d[:4], frame_repr=repr(fr)[:300]))
    return not d


def upgrade_oracle(ctx, reps):
    mutagen, I, S, T, F, U = M()
    f34, f22 = registry()
    for name in f22:
        cls = I.Frames_2_2[name]
        for enc in encs_for(cls)[:2]:
            for nopt in range(len(cls._optionalspec) + 1):
                for _ in range(reps):
                    upgrade_case(ctx, name, enc, ctx.rng.getrandbits(40), nopt)
    for name in f34:
        cls = I.Frames[name]
        for nopt in range(len(cls._optionalspec) + 1):
            for _ in range(reps if cls._optionalspec else 1):
                copy_case(ctx, name, ctx.rng.choice(encs_for(cls)), ctx.rng.getrandbits(40), nopt)


# ------------------------------------------------------------------------------------------------ (R) correspondence
def impl_write(fr, ver):
    U = M()[5]
    try:
        return "ok " + hx(fr._writeData(U.ID3SaveConfig(ver, None)))
    except Exception as e:
        return "raise " + exc_name(e)


def impl_save(fr, ver):
    mutagen, I, S, T, F, U = M()
    try:
        return "ok " + hx(T.save_frame(fr, config=U.ID3SaveConfig(ver, None)))
    except Exception as e:
        return "raise " + exc_name(e)


def impl_read(cls, ver, data, flags=None, gunsync=False):
    """values + leftover (plain _readData) or values only (_fromData with flags), in model syntax"""
    h = header(ver, gunsync)
    try:
        if flags is None:
            fr = cls()
            left = fr._readData(h, data)
            return "ok %s %s" % (frame_to_model(fr, ver, True), hx(left)), fr
        fr = cls._fromData(h, flags, data)
        return "ok %s" % frame_to_model(fr, ver, True), fr
    except Exception as e:
        return "raise " + exc_name(e), None


def check_peaks(ctx, fr, cls, data_hex):
    """float <-> wire mapping of VolumePeakSpec / VolumeAdjustmentSpec values is exact"""
    for s in cls._framespec:
        if sname(s) == "VolumeAdjustmentSpec":
            v = getattr(fr, s.name)
            if (v * 512) != rhe(v * 512):
                ctx.disagree("c12.float", "loaded gain %r is not on the 1/512 grid" % v, {"frame": cls.__name__, "data": data_hex})


def corr_frame(ctx, name, ver, enc, seed):
    mutagen, I, S, T, F, U = M()
    cls = I.Frames.get(name) or I.Frames_2_2[name]
    info = {"frame": name, "version": ver, "encoding": enc, "seed": seed}
    fr = gen_frame(random.Random(seed), cls, enc, ver)
    wver = ver if ver in (3, 4) else 3
    vals = frame_to_model(fr, wver)
    # _writeData
    iw = impl_write(fr, wver)
    mw = ctx.model.call("c12_fw", zs(wver), name, vals)
    ctx.corr_cases += 1
    ctx.count("corr:write")
    ctx.case(("R", name, ver, enc, seed))
    if iw != mw:
        ctx.disagree("c12.frame_write", "%s v2.%d _writeData: impl=%s model=%s values=%s" % (name, wver, iw[:120], mw[:120], vals[:200]), info)
        return
    if len(name) == 4:
        isv, msv = impl_save(fr, wver), ctx.model.call("c12_save", zs(wver), name, vals)
        ctx.corr_cases += 1
        ctx.count("corr:save_frame")
        if isv != msv:
            ctx.disagree("c12.save_frame", "%s v2.%d save_frame: impl=%s model=%s" % (name, wver, isv[:120], msv[:120]), info)
    if not iw.startswith("ok"):
        return
    data = unhx(iw[3:])
    # _readData of the written bytes
    ir, back = impl_read(cls, ver, data)
    mr = ctx.model.call("c12_fr", zs(ver), name, hx(data))
    ctx.corr_cases += 1
    ctx.count("corr:read")
    if ir != mr:
        ctx.disagree("c12.frame_read", "%s v2.%d _readData(%s): impl=%s model=%s" % (name, ver, data.hex()[:80], ir[:160], mr[:160]), info)
    elif back is not None:
        check_peaks(ctx, back, cls, data.hex())
    # validity predicate: model says valid => the implementation reloads the same values, nothing left
    mv = ctx.model.call("c12_valid", zs(wver), name, vals)
    ctx.count("corr:valid=" + mv)
    if mv == "1" and ver == wver:
        want = "ok %s x" % frame_to_model(fr._get_v23_frame(sep=None) if wver == 3 else fr, wver)
        if ir != want:
            ctx.disagree("c12.validity", "%s v2.%d: model says the values are valid but the implementation reloads %s instead of %s" % (name, ver, ir[:160], want[:160]), info)
    elif mv != "1" and mv != "0":
        ctx.disagree("c12.validity", "model error %s" % mv, info)
    return data


def mutate(rng, data):
    b = bytearray(data)
    k = rng.randrange(6)
    if k == 0 and b:
        del b[rng.randrange(len(b)):]
    elif k == 1 and b:
        b[rng.randrange(len(b))] = rng.choice([0, 0xFF, 0xFE, 0x80, 0xD8, 0xDC, rng.randrange(256)])
    elif k == 2 and b:
        del b[rng.randrange(len(b))]
    elif k == 3:
        b.insert(rng.randrange(len(b) + 1), rng.choice([0, 0xFF, 1]))
    elif k == 4:
        b += bytes(rng.choice([0, 0, 0xFF, 1]) for _ in range(rng.randint(1, 4)))
    else:
        b = b[:rng.randrange(len(b) + 1)] + bytes(rng.randrange(256) for _ in range(rng.randint(0, 3)))
    return bytes(b)


def corr_malformed(ctx, name, ver, enc, seed, data):
    mutagen, I, S, T, F, U = M()
    cls = I.Frames.get(name) or I.Frames_2_2[name]
    rng = random.Random(seed ^ 0x5A5A)
    bad = mutate(rng, data)
    ir, back = impl_read(cls, ver, bad)
    mr = ctx.model.call("c12_fr", zs(ver), name, hx(bad))
    ctx.corr_cases += 1
    ctx.count("corr:malformed")
    ctx.count("corr-malformed-outcome:" + ir.split(" ")[0] + (" " + ir.split(" ")[1] if ir.startswith("raise") else ""))
    ctx.case(("RM", name, ver, bad))
    if ir != mr:
        ctx.disagree("c12.frame_read.malformed", "%s v2.%d _readData(%s): impl=%s model=%s" % (name, ver, bad.hex()[:80], ir[:160], mr[:160]),
                     {"frame": name, "version": ver, "data": bad.hex()})


def has_stamp(cls):
    return any("TimeStamp" in sname(x) for sp in cls._framespec for x in ([sp] + list(getattr(sp, "specs", []))))


def corr_flags(ctx, name, ver, enc, seed, data):
    """_fromData with frame flags / global unsynch: implementation vs model (stored-deflate only in the model)"""
    mutagen, I, S, T, F, U = M()
    cls = I.Frames[name]
    rng = random.Random(seed ^ 0xF1A6)
    if ver == 4:
        flags = rng.choice([0x0001, 0x0002, 0x0003, 0x0009, 0x000B, 0x0008, 0x0004, 0x4000, 0x0040])
        body = data
        if flags & 0x0008:
            body = zlib.compress(data, 0)
        if flags & 0x0002:
            body = unsynch_encode(body) if rng.random() < 0.8 else body
        if flags & 0x0009:
            body = syncsafe(len(data)) + body
        gu = rng.random() < 0.2
    else:
        flags = rng.choice([0x0080, 0x0040, 0x0020, 0x00C0])
        body = struct.pack(">L", len(data)) + zlib.compress(data, 0) if flags & 0x80 else data
        if rng.random() < 0.15 and not has_stamp(cls):
            body = body[:rng.randrange(len(body) + 1)]
        gu = False
    ir, _ = impl_read(cls, ver, body, flags, gu)
    mr = ctx.model.call("c12_fromdata", zs(ver), "1" if gu else "0", name, zs(flags), hx(body))
    mr = mr if mr.startswith("raise") else "ok " + mr.split(" ")[1]
    ctx.corr_cases += 1
    ctx.count("corr:fromData-flags")
    ctx.case(("RF", name, ver, flags, seed))
    if ir != mr:
        ctx.disagree("c12.from_data", "%s v2.%d _fromData(flags=%#x, gunsync=%s, %s): impl=%s model=%s" % (name, ver, flags, gu, body.hex()[:80], ir[:160], mr[:160]),
                     {"frame": name, "version": ver, "flags": flags, "data": body.hex()})


def corr_tag(ctx, ver, nframes):
    """read_frames on a concatenation of saved frames (+ padding / junk): implementation vs model"""
    mutagen, I, S, T, F, U = M()
    rng = ctx.rng
    names = sorted(I.Frames.keys()) if ver >= 3 else sorted(I.Frames_2_2.keys())
    blob = b""
    stamps = False
    gu = rng.random() < 0.4       # tag-level unsynchronisation flag: every frame of the list is read under it, whatever its position
    for _ in range(nframes):
        name = rng.choice(["CHAP", "CTOC"]) if ver >= 3 and rng.random() < 0.25 else rng.choice(names)
        cls = (I.Frames if ver >= 3 else I.Frames_2_2)[name]
        stamps = stamps or has_stamp(cls)
        fr = gen_frame(random.Random(rng.getrandbits(40)), cls, rng.choice(encs_for(cls)) if ver != 3 else rng.choice(encs_for(cls)[:2]), max(ver, 3))
        if ver >= 3:
            blob += T.save_frame(fr, config=U.ID3SaveConfig(ver, None))
        else:
            d = fr._writeData(U.ID3SaveConfig(3, None))
            if len(d) < (1 << 24):
                blob += name.encode() + struct.pack(">L", len(d))[1:] + d
    k = rng.random()
    if k < 0.3:
        blob += b"\x00" * rng.randint(1, 25)
    elif k < 0.4:
        blob += b"XYZ1" + (syncsafe(3) if ver == 4 else b"\x00\x00\x00\x03") + b"\x00\x00abc"
    elif k < 0.5 and not stamps:
        blob = blob[:rng.randrange(len(blob) + 1)]
    if gu and ver < 4 and rng.random() < 0.7:
        blob = unsynch_encode(blob)
    h = header(ver, gu)
    try:
        frames, unknown, rest = T.read_frames(h, blob, h.known_frames)
        ir = "ok l(%s) l(%s) %s" % (";".join("l(%s;%s)" % (hx(type(f).__name__.encode()), frame_to_model(f, max(ver, 3), True)) for f in frames),
                                    ";".join(hx(u) for u in unknown), hx(rest))
    except Exception as e:
        ir = "raise " + exc_name(e)
    mr = ctx.model.call("c12_tag", zs(ver), "1" if gu else "0", hx(blob))
    ctx.corr_cases += 1
    ctx.count("corr:read_frames-v2.%d%s" % (ver, "-tagunsynch" if gu else ""))
    ctx.case(("RT", ver, gu, blob[:64], len(blob)))
    if ir != mr:
        ctx.disagree("c12.read_frames", "v2.%d read_frames(%s%s...): impl=%s model=%s" % (ver, "tag-level unsynch flag, " if gu else "", blob.hex()[:60], ir[:200], mr[:200]),
                     {"version": ver, "tag_unsynch": gu, "data": blob.hex()})
    if h._flags != (0x80 if gu else 0):
        ctx.disagree("c12.read_frames", "v2.%d read_frames changed the flags of the tag header it was given (%#x)" % (ver, h._flags), {"version": ver, "tag_unsynch": gu, "data": blob.hex()})


def corr_misc(ctx, n):
    """unsynch / stored inflate / peak numerators / determine_bpi against the implementation"""
    mutagen, I, S, T, F, U = M()
    rng = ctx.rng
    for _ in range(n):
        b = gen_bytes(rng)
        enc = U.unsynch.encode(b)
        ctx.corr_cases += 3
        ctx.case(("misc", b[:32], len(b)))
        if ctx.model.call("c12_unsynch_enc", hx(b)) != hx(enc) or unsynch_encode(b) != enc:
            ctx.disagree("c12.unsynch", "unsynch.encode(%s)" % b.hex()[:60], {"data": b.hex()})
        for cand in (enc, b):
            try:
                ir = "ok " + hx(U.unsynch.decode(cand))
            except ValueError:
                ir = "raise ValueError"
            if ctx.model.call("c12_unsynch_dec", hx(cand)) != ir:
                ctx.disagree("c12.unsynch", "unsynch.decode(%s)" % cand.hex()[:60], {"data": cand.hex()})
        big = b * rng.choice([1, 1, 50, 3000])
        z0 = zlib.compress(big, 0)
        if ctx.model.call("c12_inflate", hx(z0)) != "ok " + hx(big):
            ctx.disagree("c12.inflate", "stored inflate of zlib.compress(x, 0), len %d" % len(big), {"len": len(big)})
        if len(b) <= 65535:
            zs_ = unhx(ctx.model.call("c12_zstore", hx(b)))
            try:
                okz = zlib.decompress(zs_) == b
            except zlib.error:
                okz = False
            if not okz:
                ctx.disagree("c12.inflate", "zlib rejects the model's zlib_store output", {"data": b.hex()})
        # VolumePeakSpec.read numerators for arbitrary bit counts
        bits = rng.choice([0, 1, 7, 8, 9, 15, 16, 17, 24, 31, 32, 33, 255, rng.randrange(256)])
        pd = bytes([bits]) + bytes(rng.choice([0, 0xFF, rng.randrange(256)]) for _ in range(rng.randint(0, 6)))
        try:
            v, left = S.VolumePeakSpec("peak", default=1).read(header(4), None, pd)
            ir = ("ok", v.hex(), left)
        except S.SpecError:
            ir = ("raise MutagenError",)
        mr = ctx.model.call("c12_peak", hx(pd)).split(" ")
        if mr[0] == "ok":
            mr = ("ok", (float(int(mr[1], 16)) / (2 ** 31 - 1)).hex(), unhx(mr[3]), int(mr[2], 16))
            if mr[:3] != ir or mr[3] != rhe(float.fromhex(ir[1]) * 32768):
                ctx.disagree("c12.peak", "VolumePeakSpec.read(%s): impl=%r model=%r" % (pd.hex(), ir, mr), {"data": pd.hex()})
        elif (" ".join(mr),) != ir:
            ctx.disagree("c12.peak", "VolumePeakSpec.read(%s): impl=%r model=%r" % (pd.hex(), ir, mr), {"data": pd.hex()})


def corr_upgrade(ctx, reps):
    """Frame._upgrade_frame of every v2.2 class that uses the generic _to_other: implementation vs model (fields copied by name)"""
    mutagen, I, S, T, F, U = M()
    for name in sorted(I.Frames_2_2):
        cls = I.Frames_2_2[name]
        if cls._to_other is not F.Frame._to_other:
            ctx.count("corr:upgrade-own-_to_other-not-modelled")
            continue
        for nopt in range(len(cls._optionalspec) + 1):
            for _ in range(reps):
                seed = ctx.rng.getrandbits(40)
                fr = gen_frame(random.Random(seed), cls, ctx.rng.choice(encs_for(cls)[:2]), 3, optional=nopt)
                vals = frame_to_model(fr, 3, True)
                try:
                    up = fr._upgrade_frame()
                    ir = "ok none" if up is None else "ok l(%s;%s)" % (hx(type(up).__name__.encode()), frame_to_model(up, 3, True))
                except Exception as e:
                    ir = "raise " + exc_name(e)
                mr = ctx.model.call("c12_upgrade", name, vals)
                ctx.corr_cases += 1
                ctx.count("corr:upgrade_frame")
                ctx.case(("RU", name, nopt, seed))
                if ir != mr:
                    ctx.disagree("c12.upgrade_frame", "%s._upgrade_frame() with %d optional fields: impl=%s model=%s" % (name, nopt, ir[:160], mr[:160]),
                                 {"frame": name, "optional": nopt, "seed": seed})


def nested_chaps(levels, ver, leaf=True):
    """`levels` CHAP frames inside each other (hand-built), a TIT2 innermost"""
    def frame(name, body):
        return name + (syncsafe(len(body)) if ver == 4 else struct.pack(">L", len(body))) + b"\x00\x00" + body
    inner = frame(b"TIT2", b"\x00leaf") if leaf else b""
    for k in range(levels):
        inner = frame(b"CHAP", b"c%d\x00" % (levels - k) + struct.pack(">4L", 1, 2, 3, 4) + inner)
    return inner


def corr_nesting(ctx):
    """the nesting bound of ID3FramesSpec.read (16 levels): implementation vs model on CHAP towers around the bound"""
    mutagen, I, S, T, F, U = M()
    for ver in (4, 3):
        for levels in (1, 2, 15, 16, 17, 18, 19, 40):
            for leaf in (True, False):
                blob = nested_chaps(levels, ver, leaf) + frame_tail(ver)
                h = header(ver)
                try:
                    frames, unknown, rest = T.read_frames(h, blob, h.known_frames)
                    ir = "ok l(%s) l(%s) %s" % (";".join("l(%s;%s)" % (hx(type(f).__name__.encode()), frame_to_model(f, ver, True)) for f in frames),
                                                ";".join(hx(u) for u in unknown), hx(rest))
                except Exception as e:
                    ir = "raise " + exc_name(e)
                mr = ctx.model.call("c12_tag", zs(ver), "0", hx(blob))
                ctx.corr_cases += 1
                ctx.count("corr:nesting-bound")
                ctx.case(("RN", ver, levels, leaf))
                if ir != mr:
                    ctx.disagree("c12.nesting", "v2.%d read_frames of %d nested CHAP frames: impl=%s model=%s" % (ver, levels, ir[-160:], mr[-160:]), {"version": ver, "levels": levels})
                # direct: within the bound every level is there, with the leaf
                depth, node = 0, None
                try:
                    back = I.ID3(io.BytesIO(b"ID3" + bytes([ver, 0, 0]) + syncsafe(len(blob)) + blob), translate=False, load_v1=False)
                    node = back
                    while node.getall("CHAP"):
                        node = node.getall("CHAP")[0].sub_frames
                        depth += 1
                except Exception as e:
                    depth = "raised %s" % type(e).__name__
                ctx.oracle_cases += 1
                if levels <= 16 and (depth != levels or (leaf and [list(t.text) for t in node.getall("TIT2")] != [["leaf"]])):
                    ctx.violation("oracle", "CHAP frames nested within the documented bound of 16 levels do not all load", {"runner": "c12.nesting", "version": ver, "levels": levels, "loaded": depth})
                if levels > 16 and not isinstance(depth, int):
                    ctx.violation("oracle", "CHAP frames nested beyond the bound make loading raise", {"runner": "c12.nesting", "version": ver, "levels": levels, "loaded": depth})


def corr_siblings_and_big(ctx):
    """read_frames on 20 sibling CHAP frames (the nesting bound is per depth, not per tag) and on a v2.2 frame of more than 64 KiB"""
    mutagen, I, S, T, F, U = M()
    cases = [(ver, b"".join(nested_chaps(1 + (i % 2), ver, i % 3 == 0) for i in range(20)) + frame_tail(ver), "20 sibling CHAP frames") for ver in (4, 3)]
    big = bytes(ctx.rng.choice([0xFF, 0, 0xE0, ctx.rng.randrange(256)]) for _ in range(211)) * 311       # 65621 bytes
    body = b"\x00a\x00b\x00c\x00" + big
    cases.append((2, b"GEO" + struct.pack(">L", len(body))[1:] + body + b"TT2\x00\x00\x05\x00tail", "a v2.2 frame of %d bytes" % len(body)))
    for ver, blob, label in cases:
        h = header(ver)
        try:
            frames, unknown, rest = T.read_frames(h, blob, h.known_frames)
            ir = "ok l(%s) l(%s) %s" % (";".join("l(%s;%s)" % (hx(type(f).__name__.encode()), frame_to_model(f, max(ver, 3), True)) for f in frames),
                                        ";".join(hx(u) for u in unknown), hx(rest))
        except Exception as e:
            ir = "raise " + exc_name(e)
        mr = ctx.model.call("c12_tag", zs(ver), "0", hx(blob))
        ctx.corr_cases += 1
        ctx.count("corr:siblings-and-big")
        ctx.case(("RS", ver, label))
        if ir != mr:
            k = next((j for j in range(min(len(ir), len(mr))) if ir[j] != mr[j]), min(len(ir), len(mr)))
            ctx.disagree("c12.read_frames", "v2.%d read_frames of %s: impl=...%s model=...%s (lengths %d / %d)" % (ver, label, ir[max(0, k - 40):k + 80], mr[max(0, k - 40):k + 80], len(ir), len(mr)),
                         {"version": ver, "case": label})


def frame_tail(ver):
    body = b"\x00tail"
    return b"TALB" + (syncsafe(len(body)) if ver == 4 else struct.pack(">L", len(body))) + b"\x00\x00" + body


def correspondence(ctx, reps, tags):
    mutagen, I, S, T, F, U = M()
    f34, f22 = registry()
    notok = ctx.model.call("c12_notok")
    if notok != ".":
        ctx.disagree("c12.spec_list_ok", "frame classes whose spec list is not composable (spec_list_ok = false): %s" % notok, {})
    for name in f34 + f22:
        cls = I.Frames.get(name) or I.Frames_2_2[name]
        vers = (4, 3) if len(name) == 4 else (2,)
        for ver in vers:
            for enc in encs_for(cls):
                if ver == 3 and enc > 1 and ctx.rng.random() < 0.5:
                    continue
                for r in range(reps):
                    seed = ctx.rng.getrandbits(40)
                    data = corr_frame(ctx, name, ver, enc, seed)
                    if data is None:
                        continue
                    if not has_stamp(cls):
                        corr_malformed(ctx, name, ver, enc, seed, data)
                    if len(name) == 4:
                        corr_flags(ctx, name, ver, enc, seed, data)
    for i in range(tags):
        corr_tag(ctx, (4, 3, 2)[i % 3], ctx.rng.randint(1, 4))
    corr_misc(ctx, 40 * reps)
    corr_upgrade(ctx, 2 * reps)
    corr_nesting(ctx)
    corr_siblings_and_big(ctx)


# ------------------------------------------------------------------------------------------------ (V) vm_compute shard
def coq_value(s):
    """model value syntax -> Gallina term"""
    v, i = _pv(s, 0)
    return v


def _pv(s, i):
    c = s[i]
    j = i + 1
    if c in "itx":
        while j < len(s) and s[j] not in ";)":
            j += 1
        body = s[i + 1:j]
        if c == "i":
            return "VInt (%d)" % int(body, 16), j
        if c == "t":
            return "VText [%s]" % ";".join(str(int(x, 16)) for x in body.split(".") if x), j
        return "VBytes [%s]" % ";".join(str(x) for x in bytes.fromhex(body)), j
    assert c == "l" and s[i + 1] == "("
    items = []
    j = i + 2
    if s[j] == ")":
        return "VList []", j + 1
    while True:
        v, j = _pv(s, j)
        items.append(v)
        if s[j] == ")":
            return "VList [%s]" % "; ".join(items), j + 1
        j += 1


def vm_crosscheck(ctx, n):
    mutagen, I, S, T, F, U = M()
    rng = ctx.rng
    names = sorted(I.Frames.keys())
    cases, keys = [], []
    for _ in range(n):
        name = rng.choice(names)
        cls = I.Frames[name]
        ver = rng.choice([4, 3])
        fr = gen_frame(random.Random(rng.getrandbits(40)), cls, rng.choice(encs_for(cls)), ver)
        vals = frame_to_model(fr, ver)
        if len(vals) > 1500:
            continue
        term = coq_value(vals)
        cases.append("match %s with VList vs => match frame_write_d frames_2_2 all_frames %d 4 fr_%s vs with "
                     "Ok b => (1, b, match frame_read_d frames_2_2 all_frames %d 4 false fr_%s b with Ok (vs', r) => if values_eqb vs' (if %d =? 3 then to_v23 (all_fields fr_%s) vs else vs) then [1] else [0] | Raise _ => [2] end) "
                     "| Raise _ => (0, [], []) end | _ => (9, [], []) end" % (term, ver, name, ver, name, ver, name))
        keys.append((name, ver, vals))
    pre = ("From Coq Require Import ZArith List Bool. Import ListNotations. Require Import Base.Py Model.Id3Spec Model.Id3Frame Gen.Gen_frames. "
           "Open Scope Z_scope.")
    res, log = vm_shard("c12", pre, cases)
    if res is None or len(res) != len(cases):
        ctx.disagree("c12.vm_shard", "vm_compute shard failed to run: %s" % (log,), {})
        return
    for (name, ver, vals), r in zip(keys, res):
        ctx.vm_cases += 1
        m = re.match(r"\((\d+), \[(.*)\], \[(\d*)\]\)$", r.replace("%Z", ""))
        mw = ctx.model.call("c12_fw", zs(ver), name, vals)
        if not m:
            ctx.disagree("c12.vm_shard", "cannot parse %r" % r[:200], {})
            return
        if m.group(1) == "1":
            b = bytes(int(x) for x in m.group(2).split(";") if x.strip())
            agree = mw == "ok " + hx(b)
            mr = ctx.model.call("c12_fr", zs(ver), name, hx(b))
            want = ctx.model.call("c12_fr", zs(ver), name, hx(b))
            agree = agree and (m.group(3) == "1") == (mr.startswith("ok") and mr.split(" ")[1] == _v23(vals, name, ver, ctx))
        else:
            agree = mw.startswith("raise")
        if not agree:
            ctx.disagree("c12.vm_shard", "extracted binary and vm_compute differ on %s v2.%d %s" % (name, ver, vals[:200]), {"frame": name, "version": ver})
            return


def _v23(vals, name, ver, ctx):
    cls = M()[1].Frames[name]
    if ver != 3 or not cls._framespec or sname(cls._framespec[0]) != "EncodingSpec":
        return vals
    return re.sub(r"^l\(i[23];", "l(i1;", vals)


# ------------------------------------------------------------------------------------------------ entry points
def run(ctx):
    if ctx.thorough:
        correspondence(ctx, 6, 300)
        direct_oracle(ctx, 12, 4)
        tagset_oracle(ctx, 1500, 800, 400)
        upgrade_oracle(ctx, 12)
        keyevent_oracle(ctx, 200)
        vm_crosscheck(ctx, 60)
    else:
        correspondence(ctx, 1, 45)
        direct_oracle(ctx, 3, 1)
        tagset_oracle(ctx, 120, 70, 40)
        upgrade_oracle(ctx, 3)
        keyevent_oracle(ctx, 10)
        vm_crosscheck(ctx, 30)


def search(ctx, broken):
    before = len(ctx.violations)
    mutagen, I, S, T, F, U = M()
    f34, f22 = registry()
    # frames named by the broken obligations first
    named = []
    for b in broken:
        m = re.findall(r"\b([A-Z][A-Z0-9]{2,3})\b", str(b.get("error", "")) + str(b.get("case", "")))
        named += [x for x in m if x in I.Frames or x in I.Frames_2_2]
    order = list(dict.fromkeys(named)) + [n for n in f34 + f22 if n not in named]
    tagset_oracle(ctx, 400, 250, 150)
    upgrade_oracle(ctx, 8)
    keyevent_oracle(ctx, 60)
    for name in order:
        cls = I.Frames.get(name) or I.Frames_2_2[name]
        for ver in (4, 3):
            for enc in encs_for(cls):
                if ver == 3 and enc > 1 and len(name) == 3:
                    continue
                for r in range(6):
                    oracle_case(ctx, name, ver, enc, ctx.rng.getrandbits(40), FRAMINGS if r < 2 else ())
        if len(ctx.violations) > before + 3:
            break
    ctx.notes["search"] = "direct oracle over every class x version x encoding x 6 seeds (2 with all input framings) and hand-built multi-frame tags (400/250/150 frame sets for v2.4/v2.3/v2.2 in every tag framing) found %d failing inputs" % (len(ctx.violations) - before)


def replay(ctx, payload):
    d = payload.get("data", {})
    if payload.get("kind") == "failing-input" and d.get("runner") == "c12.keyevent":
        return not keyevent_wire_case(ctx, d["version"], d["format"], [tuple(e) for e in d["events"]])
    if payload.get("kind") == "failing-input" and d.get("runner") == "c12.upgrade":
        return not upgrade_case(ctx, d["frame"], d["encoding"], d["seed"], d["optional"])
    if payload.get("kind") == "failing-input" and d.get("runner") == "c12.copy":
        return not copy_case(ctx, d["frame"], d["encoding"], d["seed"], d["optional"])
    if payload.get("kind") == "failing-input" and d.get("runner") == "c12.tagset":
        return not tagset_case(ctx, d["version"], d["seed"], (d["framing"],), big=d.get("big", 0), many=d.get("many", 0))
    if payload.get("kind") != "failing-input" or "frame" not in d or "seed" not in d:
        run(ctx)
        return bool(ctx.violations or ctx.disagreements)
    fr = (d["framing"],) if d.get("framing") else ()
    return not oracle_case(ctx, d["frame"], d["version"], d["encoding"], d["seed"], fr, optional=d.get("optional"))


def coverage_extra(ctx):
    f34, f22 = registry()
    kinds = ["ByteSpec", "EncodingSpec", "PictureTypeSpec", "CTOCFlagsSpec", "ChannelSpec", "IntegerSpec", "SizedIntegerSpec", "StringSpec", "FrameIDSpec",
             "Latin1TextSpec", "EncodedTextSpec", "EncodedNumericTextSpec", "EncodedNumericPartTextSpec", "TimeStampSpec", "MultiSpec", "BinaryDataSpec",
             "VolumeAdjustmentSpec", "VolumePeakSpec", "SynchronizedTextSpec", "KeyEventSpec", "VolumeAdjustmentsSpec", "ASPIIndexSpec", "RVASpec",
             "ID3FramesSpec", "Latin1TextListSpec"]
    return {"frame_classes_v23_v24": f34, "frame_classes_v22": f22,
            "spec_kinds_covered_by_theorem": THEOREM_KINDS, "spec_kinds_differential_only": [k for k in kinds if k not in THEOREM_KINDS],
            "not_covered_by_theorem": NOT_BY_THEOREM,
            "frame_classes_covered_by_theorem": "every class of Frames and Frames_2_2 whose specs are all covered kinds (C12_all_frames_ok is evaluated over the regenerated table)"}


THEOREM_KINDS = ["ByteSpec", "EncodingSpec", "PictureTypeSpec", "CTOCFlagsSpec", "ChannelSpec", "IntegerSpec", "SizedIntegerSpec", "StringSpec", "FrameIDSpec",
                 "Latin1TextSpec", "EncodedTextSpec", "EncodedNumericTextSpec", "EncodedNumericPartTextSpec", "TimeStampSpec", "MultiSpec", "BinaryDataSpec",
                 "VolumeAdjustmentSpec", "VolumePeakSpec", "SynchronizedTextSpec", "KeyEventSpec", "VolumeAdjustmentsSpec", "ASPIIndexSpec", "RVASpec",
                 "ID3FramesSpec", "Latin1TextListSpec"]
