"""C13 -- ID3 version conversion keeps the information and is valid.
(R) correspondence of Model.Id3Conv (update_to_v23 / update_to_v24 / _get_v23_frame / saved frames / MakeID3v1 /
ParseID3v1 / ID3TimeStamp / int() / TCON.genres / size fields) with mutagen.id3 on seeded random tags over the
version-specific frames; (D) direct oracle on ID3.save / ID3() straight from the property statement, judged by an
independent walker/decoder of the RAW BYTES and a small reference written from the property text;
(V) vm_compute shard."""
import io, os, re, struct, random
from common import zs, hx, unhx, vm_shard

PROP = "C13"
PROP_FILES = ["props/C13.v"]
TRUSTED = [
    "modelled rather than verified: the abstract frame representation of Model.Id3Conv (an ID3Tags object = the list of its frames, each stored under its "
    "HashKey; Python str = code points) and the mirrored conversion code, tied to mutagen.id3 by the correspondence below on every run",
    "the byte codecs of the individual frames (text encodings, frame bodies) are C12's subject; C13 proves the size fields / header layout over an arbitrary payload "
    "and checks the bytes of real saves with an independent walker and decoder (harness/fam/walkers.py + the decoders in this file)",
    "int()/str.isdecimal() on non-ASCII decimal digits, frames stored under a key different from their HashKey and people records that are not pairs are outside the model "
    "(never generated)",
    "the genre table (mutagen._constants.GENRES) is read from the implementation at run time and passed to the model as a parameter; the theorems hold for every table",
]
MANIFEST = {
    "text": "full for the conversion functions over the modelled frame kinds (text / time-stamp / TXXX / COMM / people-list / APIC / CHAP / CTOC with nested sub-frames / "
            "opaque other frames), every tag, every separator, every genre table, no size bound: v2.3 encodings are 0/1 at every nesting depth; TDRC -> TYER/TDAT/TIME, "
            "TDOR -> TORY, TIPL+TMCL -> IPLS, multi-values joined by the separator (recoverable by splitting when no value contains it) or kept as a list; "
            "update_to_v24 after update_to_v23 restores date (year, month-day, hour:minute), original year and people; TYER/TDAT/TIME/TORY/IPLS -> TDRC/TDOR/TIPL; "
            "both conversions idempotent (precondition on TCON stated, unconditional form refuted); v2.3 size fields plain big-endian, v2.4 syncsafe, tag size syncsafe, "
            "frames tile the tag for a reader using the version's size format (uses the C14 theorems); the ID3v1 block fields are the Latin-1-with-'?' truncated NUL-padded "
            "images of the v2 frames and ParseID3v1 returns them. Date-time granularity: only the FIRST value of a multi-valued TDRC/TDOR is converted; seconds are dropped; "
            "month without day has no v2.3 form; hour:minute only if the date is complete.",
    "note": "Code details stated as such, not defects: update_to_v23 writes TIME only `if d.hour and d.minute` (both non-zero: 00:30 and 12:00 are not carried) -- the property "
            "speaks of the recording DATE; TYER/TDAT/TORY likewise need a non-zero year / month and day; years above 9999 are written with five digits and do not convert back; "
            "only text[0] of TDRC/TDOR is converted; an existing TYER/TDAT/TIME/TORY/IPLS (resp. TDRC/TDOR/TIPL) wins over the converted one; `del self[key]` of the "
            "v2.4-only list works on plain keys, so RVA2/EQU2/SIGN (HashKey with a suffix) stay in a v2.3 tag; ID3.save(v2_version=3) does not call update_to_v23 itself "
            "(documented); MakeID3v1 raises IndexError for TIT2/TPE1/TALB/TRCK with an empty text list. Modelled, not verified: see trusted base. Reloading (bytes -> frames) is "
            "covered by C12's theorems and, here, by the direct oracle. Validity conditions of the reload oracle: values contain no U+0000 and are non-empty, text is "
            "encodable in the declared encoding, time stamps are canonical.",
    "technique": "Coq proofs over a hand model (nested inductive frame type, association-list dict lemmas) + correspondence via the extracted OCaml model + direct oracle with an "
                 "independent byte walker and a reference written from the property text",
    "design_ref": "DESIGN.md section 5, C13",
}
RULE = ("seeded random tags over TDRC/TDOR/TDRL (every precision, several values, zero fields, garbage), TYER/TDAT/TIME/TORY (valid, garbage, several values), TIPL/TMCL/IPLS, "
        "multi-valued TIT2/TPE1/TALB/TCON/TRCK/TXXX/COMM in the four encodings incl. astral characters, APIC with v2.2 mime, CHAP/CTOC with nested sub-frames, frames existing in "
        "one version only, conflicting old+new frames; x update_to_v23 / update_to_v24 / separators '/', ';', None, ' / ' / ID3v1 option 0,1,2 / existing file content; hand-built "
        "v2.2 and v2.3 tags and the sample files. non-trivial = the conversion changed, created or removed at least one frame, or a save was decoded; distinct by (operation, tag description)")

SEPS = ["/", ";", None, " / "]


def M():
    import mutagen.id3 as I, mutagen.id3._tags as T, mutagen.id3._frames as F, mutagen.id3._specs as S, mutagen.id3._id3v1 as V1, mutagen.id3._util as U
    return I, T, F, S, V1, U


def genres_table():
    from mutagen._constants import GENRES
    return list(GENRES)


# ------------------------------------------------------------------------------------------------ canonical form and protocol
def cps(s):
    return tuple(ord(c) for c in s)


def canon_frame(f):
    I, T, F, S, V1, U = M()
    if isinstance(f, F.CHAP):
        return ("H", f.element_id, f.start_time, f.end_time, f.start_offset, f.end_offset, tuple(canon_frame(x) for x in f.sub_frames.values()))
    if isinstance(f, F.CTOC):
        return ("O", f.element_id, int(f.flags), tuple(f.child_element_ids), tuple(canon_frame(x) for x in f.sub_frames.values()))
    if isinstance(f, F.TimeStampTextFrame):
        return ("S", f.FrameID, int(f.encoding), tuple((d.year, d.month, d.day, d.hour, d.minute, d.second) for d in f.text))
    if isinstance(f, F.PairedTextFrame):
        return ("P", f.FrameID, int(f.encoding), tuple((a, b) for a, b in f.people))
    if isinstance(f, F.TXXX):
        return ("X", int(f.encoding), f.desc, tuple(f.text))
    if isinstance(f, F.COMM):
        return ("C", int(f.encoding), f.lang, f.desc, tuple(f.text))
    if isinstance(f, F.APIC):
        return ("A", int(f.encoding), f.mime, int(f.type), f.desc, bytes(f.data))
    if isinstance(f, F.TextFrame):
        return ("T", f.FrameID, int(f.encoding), tuple(f.text))
    return ("R", f.FrameID, f.HashKey, repr(f).encode("utf-8"))


def canon(tags):
    return tuple(canon_frame(f) for f in tags.values())


def norm(frames):
    """order-insensitive form (dict order is not part of the property)"""
    out = []
    for fr in frames:
        if fr[0] == "H":
            fr = fr[:6] + (norm(fr[6]),)
        elif fr[0] == "O":
            fr = fr[:4] + (norm(fr[4]),)
        out.append(fr)
    return tuple(sorted(out, key=repr))


def p_text(s):
    return "u" + ".".join("%x" % ord(c) for c in s)


def p_list(f, l):
    return "[" + ",".join(f(x) for x in l) + "]"


def p_opt(o):
    return "~" if o is None else zs(o)


def p_frame(fr):
    k = fr[0]
    if k == "T":
        return "T(%s;%s;%s)" % (p_text(fr[1]), zs(fr[2]), p_list(p_text, fr[3]))
    if k == "S":
        return "S(%s;%s;%s)" % (p_text(fr[1]), zs(fr[2]), p_list(lambda d: "s(" + "|".join(p_opt(x) for x in d) + ")", fr[3]))
    if k == "X":
        return "X(%s;%s;%s)" % (zs(fr[1]), p_text(fr[2]), p_list(p_text, fr[3]))
    if k == "C":
        return "C(%s;%s;%s;%s)" % (zs(fr[1]), p_text(fr[2]), p_text(fr[3]), p_list(p_text, fr[4]))
    if k == "P":
        return "P(%s;%s;%s)" % (p_text(fr[1]), zs(fr[2]), p_list(lambda ab: p_text(ab[0]) + "=" + p_text(ab[1]), fr[3]))
    if k == "A":
        return "A(%s;%s;%s;%s;%s)" % (zs(fr[1]), p_text(fr[2]), zs(fr[3]), p_text(fr[4]), hx(fr[5]))
    if k == "H":
        return "H(%s;%s;%s;%s;%s;%s)" % (p_text(fr[1]), zs(fr[2]), zs(fr[3]), zs(fr[4]), zs(fr[5]), p_list(p_frame, fr[6]))
    if k == "O":
        return "O(%s;%s;%s;%s)" % (p_text(fr[1]), zs(fr[2]), p_list(p_text, fr[3]), p_list(p_frame, fr[4]))
    if k == "R":
        return "R(%s;%s;%s)" % (p_text(fr[1]), p_text(fr[2]), hx(fr[3]))
    raise ValueError(k)


def p_tag(frames):
    return p_list(p_frame, frames)


class _P:
    """parser of the model's tag syntax"""
    def __init__(self, s):
        self.s, self.i = s, 0

    def peek(self):
        return self.s[self.i] if self.i < len(self.s) else ""

    def eat(self, c):
        if self.peek() != c:
            raise ValueError("expected %r at %d in %r" % (c, self.i, self.s[:80]))
        self.i += 1

    def hexrun(self):
        j = self.i
        while self.i < len(self.s) and self.s[self.i] in "0123456789abcdefABCDEF":
            self.i += 1
        return self.s[j:self.i]

    def int(self):
        neg = self.peek() == "-"
        if neg:
            self.i += 1
        v = int(self.hexrun(), 16)
        return -v if neg else v

    def text(self):
        self.eat("u")
        out = []
        while self.peek() and self.peek() in "0123456789abcdef":
            out.append(chr(int(self.hexrun(), 16)))
            if self.peek() == ".":
                self.i += 1
        return "".join(out)

    def bytes(self):
        self.eat("x")
        return bytes.fromhex(self.hexrun())

    def list(self, item):
        self.eat("[")
        out = []
        if self.peek() == "]":
            self.i += 1
            return tuple(out)
        while True:
            out.append(item())
            if self.peek() == ",":
                self.i += 1
            else:
                self.eat("]")
                return tuple(out)

    def opt(self):
        if self.peek() == "~":
            self.i += 1
            return None
        return self.int()

    def stamp(self):
        self.eat("s"); self.eat("(")
        out = []
        for k in range(6):
            out.append(self.opt())
            self.eat("|" if k < 5 else ")")
        return tuple(out)

    def pair(self):
        a = self.text(); self.eat("="); b = self.text()
        return (a, b)

    def frame(self):
        k = self.peek(); self.i += 1; self.eat("(")
        semi = lambda: self.eat(";")
        if k == "T":
            a = self.text(); semi(); e = self.int(); semi(); v = self.list(self.text); r = ("T", a, e, v)
        elif k == "S":
            a = self.text(); semi(); e = self.int(); semi(); v = self.list(self.stamp); r = ("S", a, e, v)
        elif k == "X":
            e = self.int(); semi(); d = self.text(); semi(); v = self.list(self.text); r = ("X", e, d, v)
        elif k == "C":
            e = self.int(); semi(); l = self.text(); semi(); d = self.text(); semi(); v = self.list(self.text); r = ("C", e, l, d, v)
        elif k == "P":
            a = self.text(); semi(); e = self.int(); semi(); v = self.list(self.pair); r = ("P", a, e, v)
        elif k == "A":
            e = self.int(); semi(); m = self.text(); semi(); t = self.int(); semi(); d = self.text(); semi(); x = self.bytes(); r = ("A", e, m, t, d, x)
        elif k == "H":
            eid = self.text(); semi(); a = self.int(); semi(); b = self.int(); semi(); c = self.int(); semi(); d = self.int(); semi()
            r = ("H", eid, a, b, c, d, self.list(self.frame))
        elif k == "O":
            eid = self.text(); semi(); fl = self.int(); semi(); ch = self.list(self.text); semi(); r = ("O", eid, fl, ch, self.list(self.frame))
        elif k == "R":
            a = self.text(); semi(); key = self.text(); semi(); r = ("R", a, key, self.bytes())
        else:
            raise ValueError("frame kind %r" % k)
        self.eat(")")
        return r


def parse_tag(s):
    p = _P(s)
    t = p.list(p.frame)
    if p.i != len(s):
        raise ValueError("trailing")
    return t


def model_tag(ctx, cmd, *args):
    """-> canonical tuple, or a string starting with 'raise'/'error'/'none'"""
    r = ctx.model.call(cmd, *args)
    if r.startswith("ok "):
        return parse_tag(r[3:])
    return r


_G = {}


def G_proto():
    if "p" not in _G:
        _G["p"] = p_list(p_text, genres_table())
    return _G["p"]


# ------------------------------------------------------------------------------------------------ building real frames from a description
OTHER = {
    "RVAD": lambda I: I.RVAD(adjustments=[1, 2]),
    "RVA2": lambda I: I.RVA2(desc="album", channel=1, gain=0.5, peak=0.0),
    "EQU2": lambda I: I.EQU2(method=0, desc="eq", adjustments=[(100.0, 1.0)]),
    "ASPI": lambda I: I.ASPI(S=0, L=1, N=1, b=8, Fi=[5]),
    "SEEK": lambda I: I.SEEK(offset=5),
    "SIGN": lambda I: I.SIGN(group=1, sig=b"sg"),
    "PRIV": lambda I: I.PRIV(owner="o", data=b"\x01\x02"),
    "UFID": lambda I: I.UFID(owner="u", data=b"id"),
    "PCNT": lambda I: I.PCNT(count=7),
    "WOAR": lambda I: I.WOAR(url="http://a/"),
    "MCDI": lambda I: I.MCDI(data=b"\x05\x06"),
}


def build_frame(fs):
    """fs: description tuple; stamps of 'S' are TEXTS here"""
    I = M()[0]
    k = fs[0]
    if k == "T":
        return getattr(I, fs[1])(encoding=fs[2], text=list(fs[3]))
    if k == "S":
        return getattr(I, fs[1])(encoding=fs[2], text=list(fs[3]))
    if k == "X":
        return I.TXXX(encoding=fs[1], desc=fs[2], text=list(fs[3]))
    if k == "C":
        return I.COMM(encoding=fs[1], lang=fs[2], desc=fs[3], text=list(fs[4]))
    if k == "P":
        return getattr(I, fs[1])(encoding=fs[2], people=[[a, b] for a, b in fs[3]])
    if k == "A":
        return I.APIC(encoding=fs[1], mime=fs[2], type=fs[3], desc=fs[4], data=fs[5])
    if k == "H":
        return I.CHAP(element_id=fs[1], start_time=fs[2], end_time=fs[3], start_offset=fs[4], end_offset=fs[5],
                      sub_frames=[build_frame(x) for x in fs[6]])
    if k == "O":
        return I.CTOC(element_id=fs[1], flags=fs[2], child_element_ids=list(fs[3]), sub_frames=[build_frame(x) for x in fs[4]])
    if k == "R":
        return OTHER[fs[1]](I)
    raise ValueError(k)


def build_tag(desc):
    I = M()[0]
    t = I.ID3()
    for fs in desc:
        t.add(build_frame(fs))
    return t


# ------------------------------------------------------------------------------------------------ generators
LATIN = "abcXYZ 012/;\u00e9\u00ff"
WIDE = LATIN + "\u4e2d\u20ac\u03a9" + "\U0001F600\U0001D11E"
STAMP_FIXED = ["2004", "2004-05", "2004-05-06", "2004-05-06T12", "2004-05-06T12:30", "2004-05-06T12:30:45", "2004-05-06 12:30:45",
               "2004/05/06", "2004.5.6", "2004-00-06", "2004-05-00", "2004-05-06T00:30", "2004-05-06T12:00", "2004-05-06T00:00:10",
               "0000", "0000-05-06", "12345", "12345-01-02", "204", "0987-12-31T23:59:59", "abc", "", "2004-x-05", "x-05-06", "x-05-06T07:08",
               " 2004 ", "+2004", "2_0_0_4", "2004--06", "2004-05-06T12:30:45:99", "2004 -05", "2004\t05\n06", "20 04", "1_", "_1", "1__0",
               "9999-12-31T23:59", "0001-01-01T01:01", "2004-13-45T25:61", "2004-5-6T7:8:9", "2004T05", "-2004", "2004-", "1999,2000"]
STAMP_ALPHA = "0123456789-T:/. _+xa\t\u00a0"
GENRE_FIXED = ["Rock", "17", "(17)", "(17)Foo", "(17)(18)", "((17)", "((Foo", "CR", "RX", "(CR)", "(RX)(5)", "255", "256", "999", "(999)", "", "0", "(0)Blues",
               "Blues", "(17", "17)", "(x)", "Foo\nBar", "\n", "(5)\nx", "00", "007", "191", "192", "(191)", "(192)", "Unknown", "Cover", "(12)(12)", "(12)Other", "()", "(1)(", "A Cappella"]


def rtext(rng, enc, lo=1, hi=7):
    alpha = LATIN if enc == 0 else WIDE
    return "".join(rng.choice(alpha) for _ in range(rng.randrange(lo, hi + 1)))


def rvals(rng, enc, maxn=3, lo=1):
    return tuple(rtext(rng, enc, lo) for _ in range(rng.choice([1, 1, 2, maxn])))


def rstamp(rng):
    r = rng.random()
    if r < 0.7:
        return rng.choice(STAMP_FIXED)
    if r < 0.85:
        return "".join(rng.choice(STAMP_ALPHA) for _ in range(rng.randrange(0, 12)))
    y, mo, d, h, mi, s = rng.randrange(0, 10000), rng.randrange(0, 13), rng.randrange(0, 32), rng.randrange(0, 24), rng.randrange(0, 60), rng.randrange(0, 60)
    parts = ["%04d" % y, "-%02d" % mo, "-%02d" % d, "T%02d" % h, ":%02d" % mi, ":%02d" % s]
    return "".join(parts[:rng.randrange(1, 7)])


def r4(rng):
    r = rng.random()
    if r < 0.6:
        return "%02d%02d" % (rng.randrange(0, 32), rng.randrange(0, 60))
    if r < 0.8:
        return rng.choice(["2004", "1999", "0605", "1230", "0000", "2004-05-06", "2004-05", "2004-5-6", "20045", "204", "", "abcd", "12a4", "\u0661\u0662\u0663\u0664"])
    return "".join(rng.choice("0123456789-a") for _ in range(rng.randrange(0, 11)))


def rpeople(rng, enc):
    return tuple((rtext(rng, enc), rtext(rng, enc)) for _ in range(rng.randrange(0, 4)))


def gen_desc(rng, depth=0):
    """a random tag description over the version-specific frames (any mix, including conflicting old and new forms)"""
    d = []
    enc = lambda: rng.randrange(4)
    p = lambda x: rng.random() < x
    if p(0.7):
        d.append(("S", "TDRC", enc(), tuple(rstamp(rng) for _ in range(rng.choice([0, 1, 1, 1, 2, 3])))))
    if p(0.45):
        d.append(("S", "TDOR", enc(), tuple(rstamp(rng) for _ in range(rng.choice([0, 1, 1, 2])))))
    for i in ("TDRL", "TDEN", "TDTG"):
        if p(0.12):
            d.append(("S", i, enc(), (rstamp(rng),)))
    for i in ("TYER", "TDAT", "TIME", "TORY"):
        if p(0.3):
            d.append(("T", i, enc(), tuple(r4(rng) for _ in range(rng.choice([0, 1, 1, 1, 2, 3])))))
    for i in ("TIPL", "TMCL", "IPLS"):
        if p(0.35):
            d.append(("P", i, enc(), rpeople(rng, 1)))
    for i in ("TIT2", "TPE1", "TALB"):
        if p(0.5):
            e = enc()
            d.append(("T", i, e, rvals(rng, e) if p(0.9) else ()))
    if p(0.5):
        e = enc()
        d.append(("T", "TCON", e, tuple(rng.choice(GENRE_FIXED) if p(0.8) else rtext(rng, e) for _ in range(rng.choice([0, 1, 1, 2, 3])))))
    if p(0.4):
        d.append(("T", "TRCK", enc(), tuple(rng.choice(["5", "5/7", "0", "255", "256", "x", "", " 7 ", "+3", "-2", "1_0", "12/x", "/4", "03"]) for _ in range(rng.choice([0, 1, 1, 2])))))
    for i in ("TSOP", "TSOA", "TSOT", "TSST", "TMOO", "TPRO", "TRDA", "TSIZ", "TCOM"):
        if p(0.1):
            e = enc()
            d.append(("T", i, e, rvals(rng, e)))
    for _ in range(rng.choice([0, 0, 1, 2])):
        e = enc()
        d.append(("X", e, rtext(rng, e, 0, 4), rvals(rng, e)))
    for _ in range(rng.choice([0, 0, 1, 1, 2])):
        e = enc()
        d.append(("C", e, rng.choice(["eng", "deu", "XXX"]), rng.choice(["", "", "ID3v1 Comment", rtext(rng, e, 1, 3)]), rvals(rng, e) if p(0.9) else ()))
    if p(0.25):
        e = enc()
        d.append(("A", e, rng.choice(["PNG", "JPG", "image/png", "image/jpeg", "-->"]), rng.randrange(0, 21), rtext(rng, e, 0, 3),
                  bytes(rng.randrange(256) for _ in range(rng.randrange(1, 9)))))
    for i in OTHER:
        if p(0.08):
            d.append(("R", i))
    if depth < 2:
        for _ in range(rng.choice([0, 0, 0, 1, 2]) if depth == 0 else rng.choice([0, 0, 0, 1])):
            d.append(("H", rtext(rng, 0, 1, 3), rng.randrange(1000), rng.randrange(1000), 0xFFFFFFFF, 0xFFFFFFFF, tuple(gen_desc(rng, depth + 1))))
        if p(0.2 if depth == 0 else 0.1):
            d.append(("O", rtext(rng, 0, 1, 3), rng.randrange(4), tuple(rtext(rng, 0, 1, 3) for _ in range(rng.randrange(3))), tuple(gen_desc(rng, depth + 1))))
    rng.shuffle(d)
    return tuple(d)


def desc_json(desc):
    """JSON-able form of a description (bytes -> hex) and back"""
    def enc(x):
        if isinstance(x, (bytes, bytearray)):
            return {"hex": bytes(x).hex()}
        if isinstance(x, (tuple, list)):
            return [enc(y) for y in x]
        return x
    return enc(desc)


def desc_unjson(j):
    if isinstance(j, dict):
        return bytes.fromhex(j["hex"])
    if isinstance(j, list):
        return tuple(desc_unjson(y) for y in j)
    return j


# ------------------------------------------------------------------------------------------------ (R) correspondence
def exc_name(e):
    if isinstance(e, UnicodeError):
        return "UnicodeError"
    return type(e).__name__


def _dis(ctx, runner, what, data):
    if len(ctx.disagreements) < 6:
        ctx.disagree(runner, what, data)


def corr_tag(ctx, desc, seps=SEPS):
    I, T, F, S, V1, U = M()
    dj = {"desc": desc_json(desc)}
    t0 = build_tag(desc)
    c0 = canon(t0)
    for op in ("u23", "u24"):
        t = build_tag(desc)
        getattr(t, "update_to_v23" if op == "u23" else "update_to_v24")()
        ci = canon(t)
        cm = model_tag(ctx, "c13_" + op, G_proto(), p_tag(c0))
        ctx.corr_cases += 1
        ctx.count("corr:" + op)
        changed = norm(ci) != norm(c0)
        ctx.case((op, repr(desc)) if changed else None,
                 {"op": op, "in": repr(c0)[:300], "out": repr(ci)[:300]} if changed and ctx.evaluations % 97 == 0 else None)
        if isinstance(cm, str) or norm(cm) != norm(ci):
            _dis(ctx, "c13." + op, "update_to_v%s differs: impl=%r model=%r" % (op[1:], norm(ci), cm if isinstance(cm, str) else norm(cm)), dict(dj, op=op))
        # Frame._get_v23_frame on every frame of the converted tag
        for sep in seps:
            sp = "-" if sep is None else p_text(sep)
            impl = tuple(canon_frame(f._get_v23_frame(sep=sep)) for f in t.values())
            mod = model_tag(ctx, "c13_v23", sp, p_tag(ci))
            ctx.corr_cases += 1
            ctx.count("corr:v23_frame")
            if isinstance(mod, str) or norm(mod) != norm(impl):
                _dis(ctx, "c13.v23_frame", "_get_v23_frame(sep=%r) differs: impl=%r model=%r" % (sep, norm(impl), mod), dict(dj, op=op, sep=sep))
        # MakeID3v1 on the converted tag
        corr_make(ctx, t, ci, dict(dj, op=op))
    corr_make(ctx, t0, c0, dict(dj, op="none"))


def corr_make(ctx, t, c, dj):
    I, T, F, S, V1, U = M()
    try:
        bi = "ok " + hx(V1.MakeID3v1(t))
    except Exception as e:
        bi = "raise " + exc_name(e)
    bm = ctx.model.call("c13_mk1", G_proto(), p_tag(c))
    ctx.corr_cases += 1
    ctx.count("corr:MakeID3v1:" + bi.split(" ")[0])
    ctx.case(("mk1", repr(c)) if bi.startswith("ok") and any(unhx(bi[3:])[3:127]) else None)
    if bi != bm:
        _dis(ctx, "c13.MakeID3v1", "MakeID3v1 differs: impl=%s model=%s tag=%r" % (bi, bm, c), dj)
    if bi.startswith("ok "):
        corr_parse(ctx, unhx(bi[3:]))


def canon_v1dict(d):
    return tuple(canon_frame(f) for f in d.values())


def corr_parse(ctx, block):
    I, T, F, S, V1, U = M()
    for v in (3, 4):
        r = V1.ParseID3v1(block, v)
        ri = "none" if r is None else norm(canon_v1dict(r))
        rm = model_tag(ctx, "c13_p1", zs(v), hx(block))
        rm = rm if isinstance(rm, str) else norm(rm)
        ctx.corr_cases += 1
        ctx.count("corr:ParseID3v1")
        ctx.case(("p1", v, block) if r else None)
        if ri != rm:
            _dis(ctx, "c13.ParseID3v1", "ParseID3v1(v=%d) differs on %s: impl=%r model=%r" % (v, block.hex(), ri, rm), {"block": block.hex(), "v": v})


def gen_v1_block(rng):
    def field(n):
        r = rng.random()
        if r < 0.2:
            return b"\0" * n
        s = bytes(rng.choice(b"abc \t\xe9\xff?0123456789,-T:") for _ in range(rng.randrange(0, n + 1)))
        pad = rng.choice([b"\0", b" ", b"\0 "])
        return (s + pad * n)[:n]
    year = rng.choice([b"2004", b"19\x0099", b"    ", b"\0\0\0\0", b"20,1", b"x", b"99", b"2004"])
    ylen = rng.choice([4, 4, 4, 0, 1, 2, 3])
    b = b"TAG" + field(30) + field(30) + field(30) + (year + b"\0\0\0\0")[:ylen] + field(28) + bytes([rng.choice([0, 0, 32])]) + \
        bytes([rng.choice([0, 1, 32, 32, 200, 255])]) + bytes([rng.choice([0, 17, 191, 200, 255])])
    r = rng.random()
    if r < 0.1:
        b = b[:rng.randrange(120, 128)]
    elif r < 0.2:
        b = b + b"x" * rng.randrange(1, 3)
    elif r < 0.3:
        b = bytes(rng.randrange(256) for _ in range(rng.randrange(0, 5))) + b
    elif r < 0.35:
        b = b"TAX" + b[3:]
    return b


def corr_small(ctx, n):
    """ID3TimeStamp, int(), TCON.genres, size fields"""
    I, T, F, S, V1, U = M()
    rng = ctx.rng
    texts = list(STAMP_FIXED) + [rstamp(rng) for _ in range(n)]
    for i in range(0, len(texts), 20):
        chunk = texts[i:i + 20]
        rm = ctx.model.call("c13_ts", *[p_text(x) for x in chunk]).split(" ")
        for x, r in zip(chunk, rm):
            d = S.ID3TimeStamp(x)
            ri = "s(" + "|".join(p_opt(v) for v in (d.year, d.month, d.day, d.hour, d.minute, d.second)) + ")/" + p_text(d.text)
            ctx.corr_cases += 1
            ctx.count("corr:ID3TimeStamp")
            ctx.case(("ts", x) if d.year is not None else None)
            if r != ri:
                _dis(ctx, "c13.ID3TimeStamp", "ID3TimeStamp(%r): impl=%s model=%s" % (x, ri, r), {"stamp": x})
    ints = ["5", " 7 ", "+3", "-2", "1_0", "1__0", "_1", "1_", "", "+", "-", "0x10", "1 2", "007", "-0", "\t12\n", "\u00a012", "12\x00", "1.5", "9" * 30, "+-1", "\x1c5\x1f"] + \
           ["".join(rng.choice("0123456789_+- \tx") for _ in range(rng.randrange(0, 7))) for _ in range(n)]
    rm = ctx.model.call("c13_int", *[p_text(x) for x in ints]).split(" ")
    for x, r in zip(ints, rm):
        try:
            ri = zs(int(x))
        except ValueError:
            ri = "~"
        ctx.corr_cases += 1
        ctx.count("corr:int")
        ctx.case(("int", x) if ri != "~" else None)
        if r != ri:
            _dis(ctx, "c13.int", "int(%r): impl=%s model=%s" % (x, ri, r), {"int": x})
    gl = [(g,) for g in GENRE_FIXED] + [tuple(rng.choice(GENRE_FIXED) for _ in range(rng.randrange(0, 4))) for _ in range(n // 2)] + \
         [("".join(rng.choice("()0123456789RXCab\n") for _ in range(rng.randrange(0, 9))),) for _ in range(n)]
    for vals in gl:
        ri = tuple(I.TCON(encoding=3, text=list(vals)).genres)
        r = ctx.model.call("c13_genres", G_proto(), p_list(p_text, vals))
        p = _P(r)
        rmv = p.list(p.text)
        ctx.corr_cases += 1
        ctx.count("corr:TCON.genres")
        ctx.case(("genres", vals) if ri != vals else None)
        if rmv != ri:
            _dis(ctx, "c13.genres", "TCON(%r).genres: impl=%r model=%r" % (vals, ri, rmv), {"genres": list(vals)})
    # size fields: save_frame header and _prepare_data header
    for ln in [0, 1, 127, 128, 129, 255, 256, 300, 16383, 16384, 70000] + [rng.randrange(0, 40000) for _ in range(max(2, n // 20))]:
        data = bytes((7 * i + ln) & 0xFF for i in range(ln))
        fr = I.PRIV(owner="", data=data)
        for v in (3, 4):
            bi = T.save_frame(fr, config=U.ID3SaveConfig(v, None))
            bm = ctx.model.call("c13_fb", zs(v), hx(b"PRIV"), hx(b"\0" + data))
            ctx.corr_cases += 1
            ctx.count("corr:save_frame-size")
            ctx.case(("fb", v, ln) if ln >= 128 else None)
            if bm != "ok " + hx(bi):
                _dis(ctx, "c13.save_frame", "save_frame v2.%d payload %d: header impl=%s model=%s" % (v, ln + 1, bi[:10].hex(), bm[:26]), {"len": ln, "v": v})
            if ln <= 16384:
                t = I.ID3(); t.add(fr)
                pad = rng.choice([0, 1, 10, 1024])
                di = t._prepare_data(io.BytesIO(b""), 0, 0, v, None, lambda info: pad)
                dm = ctx.model.call("c13_tb", zs(v), hx(bi), zs(pad))
                wm = ctx.model.call("c13_walk", zs(v), hx(bytes(di[10:])))
                ctx.corr_cases += 2
                ctx.count("corr:tag-header")
                if dm != "ok " + hx(di):
                    _dis(ctx, "c13.prepare_data", "_prepare_data v2.%d: impl header=%s model=%s" % (v, bytes(di[:10]).hex(), dm[:26]), {"len": ln, "v": v, "pad": pad})
                want = "ok [" + hx(b"PRIV") + ":" + hx(b"\0" + data) + "]"
                if wm != want:
                    _dis(ctx, "c13.walk", "model walker on the real v2.%d frame area: %s" % (v, wm[:80]), {"len": ln, "v": v, "pad": pad})


def dev_r(ctx, n=50):
    for _ in range(n):
        corr_tag(ctx, gen_desc(ctx.rng))
    corr_small(ctx, 60)
    for _ in range(n):
        corr_parse(ctx, gen_v1_block(ctx.rng))
