"""C13 -- ID3 version conversion keeps the information and is valid.
(R) correspondence of Model.Id3Conv (update_to_v23 / update_to_v24 / _get_v23_frame / saved frames / MakeID3v1 /
ParseID3v1 / ID3TimeStamp / int() / TCON.genres / size fields) with mutagen.id3 on seeded random tags over the
version-specific frames; (D) direct oracle on ID3.save / ID3() straight from the property statement, judged by an
independent walker/decoder of the RAW BYTES and a small reference written from the property text;
(V) vm_compute shard."""
import io, os, re, struct, random
from common import zs, hx, unhx, vm_shard

PROP = "C13"
PROP_FILES = ["props/C13.v"]
TRUSTED = [
    "modelled rather than verified: the abstract frame representation of Model.Id3Conv (an ID3Tags object = the list of its frames, each stored under its "
    "HashKey; Python str = code points) and the mirrored conversion code, tied to mutagen.id3 by the correspondence below on every run",
    "the byte codecs of the individual frames (text encodings, frame bodies) are C12's subject; C13 proves the size fields / header layout over an arbitrary payload "
    "and checks the bytes of real saves with an independent walker and decoder (harness/fam/walkers.py + the decoders in this file)",
    "int()/str.isdecimal() on non-ASCII decimal digits, frames stored under a key different from their HashKey and people records that are not pairs are outside the model "
    "(never generated)",
    "the genre table (mutagen._constants.GENRES) is read from the implementation at run time and passed to the model as a parameter; the theorems hold for every table",
    "object identity is outside the model (Gallina values have none): that a conversion or a save leaves the frame objects of the source tag alone, and that a second "
    "save / conversion of the same Python object writes what the first wrote, is checked by the history oracle only (ID3.save after update_to_v23/update_to_v24, "
    "the copy/update_to_v23/save/restore pattern, EasyID3.save(v2_version=3) twice then v2_version=4), judged on the raw bytes by the independent walker",
]
MANIFEST = {
    "text": "full for the conversion functions over the modelled frame kinds (text / time-stamp / TXXX / COMM / people-list / APIC / CHAP / CTOC with nested sub-frames / "
            "opaque other frames), every tag, every separator, every genre table, no size bound: v2.3 encodings are 0/1 at every nesting depth; TDRC -> TYER/TDAT/TIME, "
            "TDOR -> TORY, TIPL+TMCL -> IPLS, multi-values joined by the separator (recoverable by splitting when no value contains it) or kept as a list; "
            "update_to_v24 after update_to_v23 restores date (year, month-day, hour:minute), original year and people; TYER/TDAT/TIME/TORY/IPLS -> TDRC/TDOR/TIPL; "
            "both conversions idempotent (precondition on TCON stated, unconditional form refuted); v2.3 size fields plain big-endian, v2.4 syncsafe, tag size syncsafe, "
            "frames tile the tag for a reader using the version's size format (uses the C14 theorems); the ID3v1 block fields are the Latin-1-with-'?' truncated NUL-padded "
            "images of the v2 frames and ParseID3v1 returns them. Date-time granularity: only the FIRST value of a multi-valued TDRC/TDOR is converted; seconds are dropped; "
            "month without day has no v2.3 form; hour:minute only if the date is complete.",
    "note": "Code details stated as such, not defects: update_to_v23 writes TIME only `if d.hour and d.minute` (both non-zero: 00:30 and 12:00 are not carried) -- the property "
            "speaks of the recording DATE; TYER/TDAT/TORY likewise need a non-zero year / month and day; years above 9999 are written with five digits and do not convert back; "
            "only text[0] of TDRC/TDOR is converted; an existing TYER/TDAT/TIME/TORY/IPLS (resp. TDRC/TDOR/TIPL) wins over the converted one; `del self[key]` of the "
            "v2.4-only list works on plain keys, so RVA2/EQU2/SIGN (HashKey with a suffix) stay in a v2.3 tag; ID3.save(v2_version=3) does not call update_to_v23 itself "
            "(documented); MakeID3v1 treats TIT2/TPE1/TALB/TRCK with an empty text list as absent (empty field / track 0; it used to raise IndexError -- fixed, regression case kept). Modelled, not verified: see trusted base. Reloading (bytes -> frames) is "
            "covered by C12's theorems and, here, by the direct oracle. Validity conditions of the reload oracle: values contain no U+0000 and are non-empty, text is "
            "encodable in the declared encoding, time stamps are canonical.",
    "technique": "Coq proofs over a hand model (nested inductive frame type, association-list dict lemmas) + correspondence via the extracted OCaml model + direct oracle with an "
                 "independent byte walker and a reference written from the property text",
    "design_ref": "DESIGN.md section 5, C13",
}
RULE = ("seeded random tags over TDRC/TDOR/TDRL (every precision, several values, zero fields, garbage), TYER/TDAT/TIME/TORY (valid, garbage, several values), TIPL/TMCL/IPLS, "
        "multi-valued TIT2/TPE1/TALB/TCON/TXXX/COMM and multi-valued numeric text frames (TRCK/TPOS/TBPM/TLEN/TDLY/TCMP/TYER/TORY, MVIN/GRP1) in the four encodings incl. astral characters, APIC with v2.2 mime, CHAP/CTOC with nested sub-frames, frames existing in "
        "one version only, conflicting old+new frames; x update_to_v23 / update_to_v24 / separators '/', ';', None, ' / ' / ID3v1 option 0,1,2 / existing file content; hand-built "
        "v2.2 / v2.3 / v2.4 tags (recording date at every precision or absent, original year, people lists, picture) alone and followed by an ID3v1 block (year equal to / different "
        "from / absent, other fields filled or blank), loaded with v2_version=target and load_v1=False, with every default (+ update_to_v23 for a v2.3 target) and with "
        "v2_version=target, saved as v2.4 and as v2.3 (the v2 tag has precedence over ID3v1 for every field it carries), and the sample files; hand-built v2.2 / v2.3 / v2.4 tags holding "
        "the same text frame (TPE1/TP1, TIT2/TT2, TCOM/TCM, TXXX/TXX with equal descriptions) two and three times in every order of the encodings the version allows "
        "(Latin-1, UTF-16 with BOM; UTF-16BE and UTF-8 in v2.4), text inside / outside Latin-1, equal and different values, loaded with the default translation "
        "(ID3(f), ID3(f, v2_version=3), ID3(f) + update_to_v23) and saved as v2.4 and v2.3 with separator None, '/', ';'; hand-built v2.2 / v2.3 / v2.4 "
        "sources with frames of unknown ids (payload 1, 127, 128, 300, 16384 bytes; with and without padding; TPE1 made unknown through known_frames) saved as the other and as "
        "the same version (valid for the declared version, known values survive, a carried-over unknown frame is in the target format); v2.2 PIC / v2.3 APIC with the image "
        "formats PNG, JPG, GIF of every picture type 0..20 with descriptions, converted to v2.4 and v2.3 (type, description, data, mime); histories on one in-memory object per generated tag (convert + save twice + save over the own output + convert again, "
        "copy/convert/save/restore twice then v2.4, EasyID3 v2.3 twice then v2.4 with musician credits added through the EasyID3 keys, v2.3 form -> update_to_v24 saved twice, "
        "held frame objects compared before/after both conversions on arbitrary tags). non-trivial = the conversion changed, created or removed at least one frame, or a save was decoded; distinct by (operation, tag description)")

SEPS = ["/", ";", None, " / "]


def M():
    import mutagen.id3 as I, mutagen.id3._tags as T, mutagen.id3._frames as F, mutagen.id3._specs as S, mutagen.id3._id3v1 as V1, mutagen.id3._util as U
    return I, T, F, S, V1, U


def genres_table():
    from mutagen._constants import GENRES
    return list(GENRES)


# ------------------------------------------------------------------------------------------------ canonical form and protocol
def cps(s):
    return tuple(ord(c) for c in s)


def canon_frame(f):
    I, T, F, S, V1, U = M()
    if isinstance(f, F.CHAP):
        return ("H", f.element_id, f.start_time, f.end_time, f.start_offset, f.end_offset, tuple(canon_frame(x) for x in f.sub_frames.values()))
    if isinstance(f, F.CTOC):
        return ("O", f.element_id, int(f.flags), tuple(f.child_element_ids), tuple(canon_frame(x) for x in f.sub_frames.values()))
    if isinstance(f, F.TimeStampTextFrame):
        return ("S", f.FrameID, int(f.encoding), tuple((d.year, d.month, d.day, d.hour, d.minute, d.second) for d in f.text))
    if isinstance(f, F.PairedTextFrame):
        return ("P", f.FrameID, int(f.encoding), tuple((a, b) for a, b in f.people))
    if isinstance(f, F.TXXX):
        return ("X", int(f.encoding), f.desc, tuple(f.text))
    if isinstance(f, F.COMM):
        return ("C", int(f.encoding), f.lang, f.desc, tuple(f.text))
    if isinstance(f, F.APIC):
        return ("A", int(f.encoding), f.mime, int(f.type), f.desc, bytes(f.data))
    if isinstance(f, F.TextFrame):
        return ("T", f.FrameID, int(f.encoding), tuple(f.text))
    return ("R", f.FrameID, f.HashKey, repr(f).encode("utf-8"))


def canon(tags):
    return tuple(canon_frame(f) for f in tags.values())


def norm(frames):
    """order-insensitive form (dict order is not part of the property)"""
    out = []
    for fr in frames:
        if fr[0] == "H":
            fr = fr[:6] + (norm(fr[6]),)
        elif fr[0] == "O":
            fr = fr[:4] + (norm(fr[4]),)
        out.append(fr)
    return tuple(sorted(out, key=repr))


def p_text(s):
    return "u" + ".".join("%x" % ord(c) for c in s)


def p_list(f, l):
    return "[" + ",".join(f(x) for x in l) + "]"


def p_opt(o):
    return "~" if o is None else zs(o)


def p_frame(fr):
    k = fr[0]
    if k == "T":
        return "T(%s;%s;%s)" % (p_text(fr[1]), zs(fr[2]), p_list(p_text, fr[3]))
    if k == "S":
        return "S(%s;%s;%s)" % (p_text(fr[1]), zs(fr[2]), p_list(lambda d: "s(" + "|".join(p_opt(x) for x in d) + ")", fr[3]))
    if k == "X":
        return "X(%s;%s;%s)" % (zs(fr[1]), p_text(fr[2]), p_list(p_text, fr[3]))
    if k == "C":
        return "C(%s;%s;%s;%s)" % (zs(fr[1]), p_text(fr[2]), p_text(fr[3]), p_list(p_text, fr[4]))
    if k == "P":
        return "P(%s;%s;%s)" % (p_text(fr[1]), zs(fr[2]), p_list(lambda ab: p_text(ab[0]) + "=" + p_text(ab[1]), fr[3]))
    if k == "A":
        return "A(%s;%s;%s;%s;%s)" % (zs(fr[1]), p_text(fr[2]), zs(fr[3]), p_text(fr[4]), hx(fr[5]))
    if k == "H":
        return "H(%s;%s;%s;%s;%s;%s)" % (p_text(fr[1]), zs(fr[2]), zs(fr[3]), zs(fr[4]), zs(fr[5]), p_list(p_frame, fr[6]))
    if k == "O":
        return "O(%s;%s;%s;%s)" % (p_text(fr[1]), zs(fr[2]), p_list(p_text, fr[3]), p_list(p_frame, fr[4]))
    if k == "R":
        return "R(%s;%s;%s)" % (p_text(fr[1]), p_text(fr[2]), hx(fr[3]))
    raise ValueError(k)


def p_tag(frames):
    return p_list(p_frame, frames)


class _P:
    """parser of the model's tag syntax"""
    def __init__(self, s):
        self.s, self.i = s, 0

    def peek(self):
        return self.s[self.i] if self.i < len(self.s) else ""

    def eat(self, c):
        if self.peek() != c:
            raise ValueError("expected %r at %d in %r" % (c, self.i, self.s[:80]))
        self.i += 1

    def hexrun(self):
        j = self.i
        while self.i < len(self.s) and self.s[self.i] in "0123456789abcdefABCDEF":
            self.i += 1
        return self.s[j:self.i]

    def int(self):
        neg = self.peek() == "-"
        if neg:
            self.i += 1
        v = int(self.hexrun(), 16)
        return -v if neg else v

    def text(self):
        self.eat("u")
        out = []
        while self.peek() and self.peek() in "0123456789abcdef":
            out.append(chr(int(self.hexrun(), 16)))
            if self.peek() == ".":
                self.i += 1
        return "".join(out)

    def bytes(self):
        self.eat("x")
        return bytes.fromhex(self.hexrun())

    def list(self, item):
        self.eat("[")
        out = []
        if self.peek() == "]":
            self.i += 1
            return tuple(out)
        while True:
            out.append(item())
            if self.peek() == ",":
                self.i += 1
            else:
                self.eat("]")
                return tuple(out)

    def opt(self):
        if self.peek() == "~":
            self.i += 1
            return None
        return self.int()

    def stamp(self):
        self.eat("s"); self.eat("(")
        out = []
        for k in range(6):
            out.append(self.opt())
            self.eat("|" if k < 5 else ")")
        return tuple(out)

    def pair(self):
        a = self.text(); self.eat("="); b = self.text()
        return (a, b)

    def frame(self):
        k = self.peek(); self.i += 1; self.eat("(")
        semi = lambda: self.eat(";")
        if k == "T":
            a = self.text(); semi(); e = self.int(); semi(); v = self.list(self.text); r = ("T", a, e, v)
        elif k == "S":
            a = self.text(); semi(); e = self.int(); semi(); v = self.list(self.stamp); r = ("S", a, e, v)
        elif k == "X":
            e = self.int(); semi(); d = self.text(); semi(); v = self.list(self.text); r = ("X", e, d, v)
        elif k == "C":
            e = self.int(); semi(); l = self.text(); semi(); d = self.text(); semi(); v = self.list(self.text); r = ("C", e, l, d, v)
        elif k == "P":
            a = self.text(); semi(); e = self.int(); semi(); v = self.list(self.pair); r = ("P", a, e, v)
        elif k == "A":
            e = self.int(); semi(); m = self.text(); semi(); t = self.int(); semi(); d = self.text(); semi(); x = self.bytes(); r = ("A", e, m, t, d, x)
        elif k == "H":
            eid = self.text(); semi(); a = self.int(); semi(); b = self.int(); semi(); c = self.int(); semi(); d = self.int(); semi()
            r = ("H", eid, a, b, c, d, self.list(self.frame))
        elif k == "O":
            eid = self.text(); semi(); fl = self.int(); semi(); ch = self.list(self.text); semi(); r = ("O", eid, fl, ch, self.list(self.frame))
        elif k == "R":
            a = self.text(); semi(); key = self.text(); semi(); r = ("R", a, key, self.bytes())
        else:
            raise ValueError("frame kind %r" % k)
        self.eat(")")
        return r


def parse_tag(s):
    p = _P(s)
    t = p.list(p.frame)
    if p.i != len(s):
        raise ValueError("trailing")
    return t


def model_tag(ctx, cmd, *args):
    """-> canonical tuple, or a string starting with 'raise'/'error'/'none'"""
    r = ctx.model.call(cmd, *args)
    if r.startswith("ok "):
        return parse_tag(r[3:])
    return r


_G = {}


def G_proto():
    if "p" not in _G:
        _G["p"] = p_list(p_text, genres_table())
    return _G["p"]


# ------------------------------------------------------------------------------------------------ building real frames from a description
OTHER = {
    "RVAD": lambda I: I.RVAD(adjustments=[1, 2]),
    "RVA2": lambda I: I.RVA2(desc="album", channel=1, gain=0.5, peak=0.0),
    "EQU2": lambda I: I.EQU2(method=0, desc="eq", adjustments=[(100.0, 1.0)]),
    "ASPI": lambda I: I.ASPI(S=0, L=1, N=1, b=8, Fi=[5]),
    "SEEK": lambda I: I.SEEK(offset=5),
    "SIGN": lambda I: I.SIGN(group=1, sig=b"sg"),
    "PRIV": lambda I: I.PRIV(owner="o", data=b"\x01\x02"),
    "UFID": lambda I: I.UFID(owner="u", data=b"id"),
    "PCNT": lambda I: I.PCNT(count=7),
    "WOAR": lambda I: I.WOAR(url="http://a/"),
    "MCDI": lambda I: I.MCDI(data=b"\x05\x06"),
}


def build_frame(fs):
    """fs: description tuple; stamps of 'S' are TEXTS here"""
    I = M()[0]
    k = fs[0]
    if k == "T":
        return getattr(I, fs[1])(encoding=fs[2], text=list(fs[3]))
    if k == "S":
        return getattr(I, fs[1])(encoding=fs[2], text=list(fs[3]))
    if k == "X":
        return I.TXXX(encoding=fs[1], desc=fs[2], text=list(fs[3]))
    if k == "C":
        return I.COMM(encoding=fs[1], lang=fs[2], desc=fs[3], text=list(fs[4]))
    if k == "P":
        return getattr(I, fs[1])(encoding=fs[2], people=[[a, b] for a, b in fs[3]])
    if k == "A":
        return I.APIC(encoding=fs[1], mime=fs[2], type=fs[3], desc=fs[4], data=fs[5])
    if k == "H":
        return I.CHAP(element_id=fs[1], start_time=fs[2], end_time=fs[3], start_offset=fs[4], end_offset=fs[5],
                      sub_frames=[build_frame(x) for x in fs[6]])
    if k == "O":
        return I.CTOC(element_id=fs[1], flags=fs[2], child_element_ids=list(fs[3]), sub_frames=[build_frame(x) for x in fs[4]])
    if k == "R":
        return OTHER[fs[1]](I)
    raise ValueError(k)


def build_tag(desc):
    I = M()[0]
    t = I.ID3()
    for fs in desc:
        t.add(build_frame(fs))
    return t


# ------------------------------------------------------------------------------------------------ generators
LATIN = "abcXYZ 012/;\u00e9\u00ff"
WIDE = LATIN + "\u4e2d\u20ac\u03a9" + "\U0001F600\U0001D11E"
STAMP_FIXED = ["2004", "2004-05", "2004-05-06", "2004-05-06T12", "2004-05-06T12:30", "2004-05-06T12:30:45", "2004-05-06 12:30:45",
               "2004/05/06", "2004.5.6", "2004-00-06", "2004-05-00", "2004-05-06T00:30", "2004-05-06T12:00", "2004-05-06T00:00:10",
               "0000", "0000-05-06", "12345", "12345-01-02", "204", "0987-12-31T23:59:59", "abc", "", "2004-x-05", "x-05-06", "x-05-06T07:08",
               " 2004 ", "+2004", "2_0_0_4", "2004--06", "2004-05-06T12:30:45:99", "2004 -05", "2004\t05\n06", "20 04", "1_", "_1", "1__0",
               "9999-12-31T23:59", "0001-01-01T01:01", "2004-13-45T25:61", "2004-5-6T7:8:9", "2004T05", "-2004", "2004-", "1999,2000"]
STAMP_ALPHA = "0123456789-T:/. _+xa\t\u00a0"
GENRE_FIXED = ["Rock", "17", "(17)", "(17)Foo", "(17)(18)", "((17)", "((Foo", "CR", "RX", "(CR)", "(RX)(5)", "255", "256", "999", "(999)", "", "0", "(0)Blues",
               "Blues", "(17", "17)", "(x)", "Foo\nBar", "\n", "(5)\nx", "00", "007", "191", "192", "(191)", "(192)", "Unknown", "Cover", "(12)(12)", "(12)Other", "()", "(1)(", "A Cappella"]


def rtext(rng, enc, lo=1, hi=7):
    alpha = LATIN if enc == 0 else WIDE
    return "".join(rng.choice(alpha) for _ in range(rng.randrange(lo, hi + 1)))


def rvals(rng, enc, maxn=3, lo=1):
    return tuple(rtext(rng, enc, lo) for _ in range(rng.choice([1, 1, 2, maxn])))


def rstamp(rng):
    r = rng.random()
    if r < 0.7:
        return rng.choice(STAMP_FIXED)
    if r < 0.85:
        return "".join(rng.choice(STAMP_ALPHA) for _ in range(rng.randrange(0, 12)))
    y, mo, d, h, mi, s = rng.randrange(0, 10000), rng.randrange(0, 13), rng.randrange(0, 32), rng.randrange(0, 24), rng.randrange(0, 60), rng.randrange(0, 60)
    parts = ["%04d" % y, "-%02d" % mo, "-%02d" % d, "T%02d" % h, ":%02d" % mi, ":%02d" % s]
    return "".join(parts[:rng.randrange(1, 7)])


def r4(rng):
    r = rng.random()
    if r < 0.6:
        return "%02d%02d" % (rng.randrange(0, 32), rng.randrange(0, 60))
    if r < 0.8:
        return rng.choice(["2004", "1999", "0605", "1230", "0000", "2004-05-06", "2004-05", "2004-5-6", "20045", "204", "", "abcd", "12a4", "1999\x002000", "19,99"])
    return "".join(rng.choice("0123456789-a") for _ in range(rng.randrange(0, 11)))


def rpeople(rng, enc):
    return tuple((rtext(rng, enc), rtext(rng, enc)) for _ in range(rng.randrange(0, 4)))


def gen_desc(rng, depth=0):
    """a random tag description over the version-specific frames (any mix, including conflicting old and new forms)"""
    d = []
    enc = lambda: rng.randrange(4)
    p = lambda x: rng.random() < x
    if p(0.7):
        d.append(("S", "TDRC", enc(), tuple(rstamp(rng) for _ in range(rng.choice([0, 1, 1, 1, 2, 3])))))
    if p(0.45):
        d.append(("S", "TDOR", enc(), tuple(rstamp(rng) for _ in range(rng.choice([0, 1, 1, 2])))))
    for i in ("TDRL", "TDEN", "TDTG"):
        if p(0.12):
            d.append(("S", i, enc(), (rstamp(rng),)))
    for i in ("TYER", "TDAT", "TIME", "TORY"):
        if p(0.3):
            d.append(("T", i, enc(), tuple(r4(rng) for _ in range(rng.choice([0, 1, 1, 1, 2, 3])))))
    for i in ("TIPL", "TMCL", "IPLS"):
        if p(0.35):
            d.append(("P", i, enc(), rpeople(rng, 1)))
    for i in ("TIT2", "TPE1", "TALB"):
        if p(0.5):
            e = enc()
            d.append(("T", i, e, rvals(rng, e) if p(0.9) else ()))
    if p(0.5):
        e = enc()
        d.append(("T", "TCON", e, tuple(rng.choice(GENRE_FIXED) if p(0.8) else rtext(rng, e) for _ in range(rng.choice([0, 1, 1, 2, 3])))))
    if p(0.4):
        d.append(("T", "TRCK", enc(), tuple(rng.choice(["5", "5/7", "0", "255", "256", "x", "", " 7 ", "+3", "-2", "1_0", "12/x", "/4", "03"]) for _ in range(rng.choice([0, 1, 1, 2])))))
    for i in ("TSOP", "TSOA", "TSOT", "TSST", "TMOO", "TPRO", "TRDA", "TSIZ", "TCOM"):
        if p(0.1):
            e = enc()
            d.append(("T", i, e, rvals(rng, e)))
    for i in ("TBPM", "TPOS", "TLEN", "TDLY", "TCMP", "MVIN", "GRP1"):
        if p(0.1):
            d.append(("T", i, enc(), tuple(rng.choice(["120", "1/2", "0", "7", "x", "", "2/2", "+3"]) for _ in range(rng.choice([0, 1, 2, 2, 3])))))
    for _ in range(rng.choice([0, 0, 1, 2])):
        e = enc()
        d.append(("X", e, rtext(rng, e, 0, 4), rvals(rng, e)))
    for _ in range(rng.choice([0, 0, 1, 1, 2])):
        e = enc()
        d.append(("C", e, rng.choice(["eng", "deu", "XXX"]), rng.choice(["", "", "ID3v1 Comment", rtext(rng, e, 1, 3)]), rvals(rng, e) if p(0.9) else ()))
    if p(0.25):
        e = enc()
        d.append(("A", e, rng.choice(["PNG", "JPG", "image/png", "image/jpeg", "-->"]), rng.randrange(0, 21), rtext(rng, e, 0, 3),
                  bytes(rng.randrange(256) for _ in range(rng.randrange(1, 9)))))
    for i in OTHER:
        if p(0.08):
            d.append(("R", i))
    if depth < 2:
        for _ in range(rng.choice([0, 0, 0, 1, 2]) if depth == 0 else rng.choice([0, 0, 0, 1])):
            d.append(("H", rtext(rng, 0, 1, 3), rng.randrange(1000), rng.randrange(1000), 0xFFFFFFFF, 0xFFFFFFFF, tuple(gen_desc(rng, depth + 1))))
        if p(0.2 if depth == 0 else 0.1):
            d.append(("O", rtext(rng, 0, 1, 3), rng.randrange(4), tuple(rtext(rng, 0, 1, 3) for _ in range(rng.randrange(3))), tuple(gen_desc(rng, depth + 1))))
    rng.shuffle(d)
    return tuple(d)


def desc_json(desc):
    """JSON-able form of a description (bytes -> hex) and back"""
    def enc(x):
        if isinstance(x, (bytes, bytearray)):
            return {"hex": bytes(x).hex()}
        if isinstance(x, (tuple, list)):
            return [enc(y) for y in x]
        return x
    return enc(desc)


def desc_unjson(j):
    if isinstance(j, dict):
        return bytes.fromhex(j["hex"])
    if isinstance(j, list):
        return tuple(desc_unjson(y) for y in j)
    return j


# ------------------------------------------------------------------------------------------------ (R) correspondence
def exc_name(e):
    if isinstance(e, UnicodeError):
        return "UnicodeError"
    return type(e).__name__


def _dis(ctx, runner, what, data):
    if len(ctx.disagreements) < 6:
        ctx.disagree(runner, what, data)


def corr_tag(ctx, desc, seps=SEPS):
    I, T, F, S, V1, U = M()
    dj = {"desc": desc_json(desc)}
    t0 = build_tag(desc)
    c0 = canon(t0)
    for op in ("u23", "u24"):
        t = build_tag(desc)
        getattr(t, "update_to_v23" if op == "u23" else "update_to_v24")()
        ci = canon(t)
        cm = model_tag(ctx, "c13_" + op, G_proto(), p_tag(c0))
        ctx.corr_cases += 1
        ctx.count("corr:" + op)
        changed = norm(ci) != norm(c0)
        ctx.case((op, repr(desc)) if changed else None,
                 {"op": op, "in": repr(c0)[:300], "out": repr(ci)[:300]} if changed and ctx.evaluations % 97 == 0 else None)
        if isinstance(cm, str) or norm(cm) != norm(ci):
            _dis(ctx, "c13." + op, "update_to_v%s differs: impl=%r model=%r" % (op[1:], norm(ci), cm if isinstance(cm, str) else norm(cm)), dict(dj, op=op))
        # Frame._get_v23_frame on every frame of the converted tag
        for sep in seps:
            sp = "-" if sep is None else p_text(sep)
            impl = tuple(canon_frame(f._get_v23_frame(sep=sep)) for f in t.values())
            mod = model_tag(ctx, "c13_v23", sp, p_tag(ci))
            ctx.corr_cases += 1
            ctx.count("corr:v23_frame")
            if isinstance(mod, str) or norm(mod) != norm(impl):
                _dis(ctx, "c13.v23_frame", "_get_v23_frame(sep=%r) differs: impl=%r model=%r" % (sep, norm(impl), mod), dict(dj, op=op, sep=sep))
        # MakeID3v1 on the converted tag
        corr_make(ctx, t, ci, dict(dj, op=op))
    corr_make(ctx, t0, c0, dict(dj, op="none"))


def corr_make(ctx, t, c, dj):
    I, T, F, S, V1, U = M()
    try:
        bi = "ok " + hx(V1.MakeID3v1(t))
    except Exception as e:
        bi = "raise " + exc_name(e)
    bm = ctx.model.call("c13_mk1", G_proto(), p_tag(c))
    ctx.corr_cases += 1
    ctx.count("corr:MakeID3v1:" + bi.split(" ")[0])
    ctx.case(("mk1", repr(c)) if bi.startswith("ok") and any(unhx(bi[3:])[3:127]) else None)
    if bi != bm:
        _dis(ctx, "c13.MakeID3v1", "MakeID3v1 differs: impl=%s model=%s tag=%r" % (bi, bm, c), dj)
    if bi.startswith("ok "):
        corr_parse(ctx, unhx(bi[3:]))


def canon_v1dict(d):
    return tuple(canon_frame(f) for f in d.values())


def corr_parse(ctx, block):
    I, T, F, S, V1, U = M()
    for v in (3, 4):
        r = V1.ParseID3v1(block, v)
        ri = "none" if r is None else norm(canon_v1dict(r))
        rm = model_tag(ctx, "c13_p1", zs(v), hx(block))
        rm = rm if isinstance(rm, str) else norm(rm)
        ctx.corr_cases += 1
        ctx.count("corr:ParseID3v1")
        ctx.case(("p1", v, block) if r else None)
        if ri != rm:
            _dis(ctx, "c13.ParseID3v1", "ParseID3v1(v=%d) differs on %s: impl=%r model=%r" % (v, block.hex(), ri, rm), {"block": block.hex(), "v": v})


def gen_v1_block(rng):
    def field(n):
        r = rng.random()
        if r < 0.2:
            return b"\0" * n
        s = bytes(rng.choice(b"abc \t\xe9\xff?0123456789,-T:") for _ in range(rng.randrange(0, n + 1)))
        pad = rng.choice([b"\0", b" ", b"\0 "])
        return (s + pad * n)[:n]
    year = rng.choice([b"2004", b"19\x0099", b"    ", b"\0\0\0\0", b"20,1", b"x", b"99", b"2004"])
    ylen = rng.choice([4, 4, 4, 0, 1, 2, 3])
    b = b"TAG" + field(30) + field(30) + field(30) + (year + b"\0\0\0\0")[:ylen] + field(28) + bytes([rng.choice([0, 0, 32])]) + \
        bytes([rng.choice([0, 1, 32, 32, 200, 255])]) + bytes([rng.choice([0, 17, 191, 200, 255])])
    r = rng.random()
    if r < 0.1:
        b = b[:rng.randrange(120, 128)]
    elif r < 0.2:
        b = b + b"x" * rng.randrange(1, 3)
    elif r < 0.3:
        b = bytes(rng.randrange(256) for _ in range(rng.randrange(0, 5))) + b
    elif r < 0.35:
        b = b"TAX" + b[3:]
    return b


def corr_small(ctx, n):
    """ID3TimeStamp, int(), TCON.genres, size fields"""
    I, T, F, S, V1, U = M()
    rng = ctx.rng
    texts = list(STAMP_FIXED) + [rstamp(rng) for _ in range(n)]
    for i in range(0, len(texts), 20):
        chunk = texts[i:i + 20]
        rm = ctx.model.call("c13_ts", *[p_text(x) for x in chunk]).split(" ")
        for x, r in zip(chunk, rm):
            d = S.ID3TimeStamp(x)
            ri = "s(" + "|".join(p_opt(v) for v in (d.year, d.month, d.day, d.hour, d.minute, d.second)) + ")/" + p_text(d.text)
            ctx.corr_cases += 1
            ctx.count("corr:ID3TimeStamp")
            ctx.case(("ts", x) if d.year is not None else None)
            if r != ri:
                _dis(ctx, "c13.ID3TimeStamp", "ID3TimeStamp(%r): impl=%s model=%s" % (x, ri, r), {"stamp": x})
    ints = ["5", " 7 ", "+3", "-2", "1_0", "1__0", "_1", "1_", "", "+", "-", "0x10", "1 2", "007", "-0", "\t12\n", "\u00a012", "12\x00", "1.5", "9" * 30, "+-1", "\x1c5\x1f"] + \
           ["".join(rng.choice("0123456789_+- \tx") for _ in range(rng.randrange(0, 7))) for _ in range(n)]
    rm = ctx.model.call("c13_int", *[p_text(x) for x in ints]).split(" ")
    for x, r in zip(ints, rm):
        try:
            ri = zs(int(x))
        except ValueError:
            ri = "~"
        ctx.corr_cases += 1
        ctx.count("corr:int")
        ctx.case(("int", x) if ri != "~" else None)
        if r != ri:
            _dis(ctx, "c13.int", "int(%r): impl=%s model=%s" % (x, ri, r), {"int": x})
    gl = [(g,) for g in GENRE_FIXED] + [tuple(rng.choice(GENRE_FIXED) for _ in range(rng.randrange(0, 4))) for _ in range(n // 2)] + \
         [("".join(rng.choice("()0123456789RXCab\n") for _ in range(rng.randrange(0, 9))),) for _ in range(n)]
    for vals in gl:
        ri = tuple(I.TCON(encoding=3, text=list(vals)).genres)
        r = ctx.model.call("c13_genres", G_proto(), p_list(p_text, vals))
        p = _P(r)
        rmv = p.list(p.text)
        ctx.corr_cases += 1
        ctx.count("corr:TCON.genres")
        ctx.case(("genres", vals) if ri != vals else None)
        if rmv != ri:
            _dis(ctx, "c13.genres", "TCON(%r).genres: impl=%r model=%r" % (vals, ri, rmv), {"genres": list(vals)})
    # size fields: save_frame header and _prepare_data header
    for ln in [0, 1, 127, 128, 129, 255, 256, 300, 16383, 16384, 70000] + [rng.randrange(0, 40000) for _ in range(max(2, n // 20))]:
        data = bytes((7 * i + ln) & 0xFF for i in range(ln))
        fr = I.PRIV(owner="", data=data)
        for v in (3, 4):
            bi = T.save_frame(fr, config=U.ID3SaveConfig(v, None))
            bm = ctx.model.call("c13_fb", zs(v), hx(b"PRIV"), hx(b"\0" + data))
            ctx.corr_cases += 1
            ctx.count("corr:save_frame-size")
            ctx.case(("fb", v, ln) if ln >= 128 else None)
            if bm != "ok " + hx(bi):
                _dis(ctx, "c13.save_frame", "save_frame v2.%d payload %d: header impl=%s model=%s" % (v, ln + 1, bi[:10].hex(), bm[:26]), {"len": ln, "v": v})
            if ln <= 16384:
                t = I.ID3(); t.add(fr)
                pad = rng.choice([0, 1, 10, 1024])
                di = t._prepare_data(io.BytesIO(b""), 0, 0, v, None, lambda info: pad)
                dm = ctx.model.call("c13_tb", zs(v), hx(bi), zs(pad))
                wm = ctx.model.call("c13_walk", zs(v), hx(bytes(di[10:])))
                ctx.corr_cases += 2
                ctx.count("corr:tag-header")
                if dm != "ok " + hx(di):
                    _dis(ctx, "c13.prepare_data", "_prepare_data v2.%d: impl header=%s model=%s" % (v, bytes(di[:10]).hex(), dm[:26]), {"len": ln, "v": v, "pad": pad})
                want = "ok [" + hx(b"PRIV") + ":" + hx(b"\0" + data) + "]"
                if wm != want:
                    _dis(ctx, "c13.walk", "model walker on the real v2.%d frame area: %s" % (v, wm[:80]), {"len": ln, "v": v, "pad": pad})



# ------------------------------------------------------------------------------------------------ (D) direct oracle
from fam import walkers as W


def walk_area(body, ver):
    """independent walker of a frame area (used for CHAP/CTOC sub-frames): [(id, flags, payload)]"""
    out, p = [], 0
    while p + 10 <= len(body) and body[p] != 0:
        fid = body[p:p + 4]
        raw = body[p + 4:p + 8]
        if ver == 4:
            W.need(all(b < 0x80 for b in raw), "sub-frame size not syncsafe")
            n = W.syncsafe(raw)
        else:
            n = int.from_bytes(raw, "big")
        W.need(all((65 <= c <= 90) or (48 <= c <= 57) for c in fid), "bad sub-frame id %r" % fid)
        W.need(n > 0 and p + 10 + n <= len(body), "sub-frame %r overruns its parent" % fid)
        out.append((fid.decode("ascii"), int.from_bytes(body[p + 8:p + 10], "big"), body[p + 10:p + 10 + n]))
        p += 10 + n
    W.need(not body[p:].strip(b"\0"), "junk after the last sub-frame")
    return out


def dec_frame(fid, ver, payload):
    """independent decoding (ID3v2.3/2.4 layouts) -> canonical-like tuple with the raw encoding byte"""
    try:
        if fid in ("CHAP", "CTOC"):
            eid, rest = W._split_term(0, payload)
            if fid == "CHAP":
                t0, t1, o0, o1 = struct.unpack(">IIII", rest[:16])
                return ("H", eid.decode("latin-1"), t0, t1, o0, o1, tuple(dec_frame(i, ver, p) for i, fl, p in walk_area(rest[16:], ver)))
            flags, count = rest[0], rest[1]
            rest = rest[2:]
            ch = []
            for _ in range(count):
                c, rest = W._split_term(0, rest)
                ch.append(c.decode("latin-1"))
            return ("O", eid.decode("latin-1"), flags, tuple(ch), tuple(dec_frame(i, ver, p) for i, fl, p in walk_area(rest, ver)))
        if fid in ("IPLS", "TIPL", "TMCL"):
            enc = payload[0]
            vals = W._text_list(enc, payload[1:]) if len(payload) > 1 else []
            W.need(len(vals) % 2 == 0, "odd people list in %s" % fid)
            return ("P", fid, enc, tuple((vals[i], vals[i + 1]) for i in range(0, len(vals), 2)))
        if fid == "TXXX":
            enc = payload[0]
            d, rest = W._split_term(enc, payload[1:])
            return ("X", enc, W._dec_text(enc, d), tuple(W._text_list(enc, rest)))
        if fid == "COMM":
            enc = payload[0]
            d, rest = W._split_term(enc, payload[4:])
            return ("C", enc, payload[1:4].decode("latin-1"), W._dec_text(enc, d), tuple(W._text_list(enc, rest)))
        if fid == "APIC":
            enc = payload[0]
            mime, rest = W._split_term(0, payload[1:])
            d, data = W._split_term(enc, rest[1:])
            return ("A", enc, mime.decode("latin-1"), rest[0], W._dec_text(enc, d), bytes(data))
        if fid[0] == "T" or fid in TEXT_IDS_NO_T:
            enc = payload[0]
            return ("T", fid, enc, tuple(W._text_list(enc, payload[1:])))
    except (IndexError, UnicodeDecodeError, KeyError, struct.error):
        raise W.Bad("frame %s does not decode under the v2.%d layout" % (fid, ver))
    return ("R", fid, None, bytes(payload))


def encs_of(fr):
    """all text-encoding bytes of a decoded frame, nested ones included"""
    k = fr[0]
    if k in ("T", "P"):
        return [fr[2]]
    if k in ("X", "C", "A"):
        return [fr[1]]
    if k == "H":
        return [e for x in fr[6] for e in encs_of(x)]
    if k == "O":
        return [e for x in fr[4] for e in encs_of(x)]
    return []


def ref_latin1(s, n):
    b = bytes(ord(c) if ord(c) < 256 else 63 for c in s)[:n]
    return b + b"\0" * (n - len(b))


def stamp_text(fields, tsep="T"):
    y, mo, d, h, mi, s = fields
    parts = [(y, "%04d", ""), (mo, "%02d", "-"), (d, "%02d", "-"), (h, "%02d", tsep), (mi, "%02d", ":"), (s, "%02d", ":")]
    out = ""
    for v, fmt, sp in parts:
        if v is None:
            break
        out += sp + fmt % v
    return out


def gen_fields(rng):
    prec = rng.choice([1, 2, 3, 3, 4, 5, 6, 6])
    f = [rng.choice([1, 7, 987, 1999, 2004, 9999]) if rng.random() < 0.5 else rng.randrange(1, 10000),
         rng.randrange(1, 13), rng.randrange(1, 32), rng.choice([0, 0, 1, 12, 23] + [rng.randrange(24)]),
         rng.choice([0, 0, 1, 30, 59] + [rng.randrange(60)]), rng.randrange(60)]
    return tuple(f[:prec] + [None] * (6 - prec))


NUMERIC_POOLS = (("TBPM", ["120", "128", "90", "200"]), ("TLEN", ["1000", "215000", "7"]), ("TPOS", ["1/2", "2/2", "1", "3"]), ("TDLY", ["0", "150", "20"]),
                 ("TCMP", ["1", "0"]), ("MVIN", ["1/3", "2/3", "2"]), ("GRP1", ["Group a", "b;c", "d/e"]))
TEXT_IDS_NO_T = ("MVIN", "MVNM", "GRP1")


def gen_clean(rng, depth=0):
    """a clean v2.4-style tag description (valid for saving and reloading) plus what the property says about it"""
    meta = {"texts": {}, "people": None}
    d = []
    enc = lambda: rng.randrange(4)
    p = lambda x: rng.random() < x

    def vals(e, lo=1):
        return tuple(rtext(rng, e, 1, 9).strip() or "v" for _ in range(rng.choice([1, 1, 2, 3])))
    if p(0.85):
        f = gen_fields(rng)
        more = (stamp_text(gen_fields(rng)),) if p(0.2) else ()
        d.append(("S", "TDRC", enc(), (stamp_text(f, rng.choice(["T", " "])),) + more))
        meta["tdrc"] = f
    if p(0.5):
        f = gen_fields(rng)
        d.append(("S", "TDOR", enc(), (stamp_text(f),)))
        meta["tdor"] = f
    pe = []
    for i in ("TIPL", "TMCL"):
        if p(0.5):
            pl = tuple((rtext(rng, 1).strip() or "r", rtext(rng, 1).strip() or "n") for _ in range(rng.randrange(1, 4)))
            d.append(("P", i, rng.choice([1, 3]), pl))
            pe.append((i, pl))
    if pe:
        meta["people"] = pe
    for i in ("TIT2", "TPE1", "TALB", "TCOM", "TSOP"):
        if p(0.6):
            e = enc()
            v = vals(e)
            if i == "TIT2" and p(0.5):
                v = (("Long title " + rtext(rng, e, 25, 40)).strip(),) + v[1:]
            d.append(("T", i, e, v))
            meta["texts"][i] = v
    if p(0.6):
        e = enc()
        g = tuple(rng.choice(["Rock", "Blues", "Jazz", "My Own Genre", "A Cappella", "Psybient"]) for _ in range(rng.choice([1, 1, 2])))
        d.append(("T", "TCON", e, g))
        meta["texts"]["TCON"] = g
    if p(0.6):
        tr = tuple(rng.choice(["5", "5/7", "12/12", "255", "256/300", "0"]) for _ in range(rng.choice([1, 1, 2, 3])))
        d.append(("T", "TRCK", enc(), tr))
        meta["trck"] = tr[0]
        meta["texts"]["TRCK"] = tr
    # the other numeric text-frame classes (NumericTextFrame / NumericPartTextFrame and the text frames without a 'T' id), multi-valued as well
    for i, pool in NUMERIC_POOLS:
        if p(0.3):
            v = tuple(rng.choice(pool) for _ in range(rng.choice([1, 2, 2, 3])))
            d.append(("T", i, enc(), v))
            meta["texts"][i] = v
    # an in-memory tag may also hold the v2.3 forms directly (no TDRC / TDOR to conflict with): they are numeric text frames, too
    if "tdrc" not in meta and p(0.5):
        v = tuple("%04d" % rng.choice([1, 987, 1999, 2004, 9999, rng.randrange(1, 10000)]) for _ in range(rng.choice([1, 2, 2, 3])))
        d.append(("T", "TYER", enc(), v))
        meta["tyer"] = v
    if "tdor" not in meta and p(0.3):
        v = tuple("%04d" % rng.randrange(1, 10000) for _ in range(rng.choice([1, 2])))
        d.append(("T", "TORY", enc(), v))
        meta["tory"] = v
    meta["txxx"] = []
    for k in range(rng.choice([0, 1, 2])):
        e = enc()
        x = ("X", e, "d%d" % k + rtext(rng, e, 0, 3).strip(), vals(e))
        d.append(x)
        meta["txxx"].append(x)
    meta["comm"] = []
    for k in range(rng.choice([0, 1, 1, 2])):
        e = enc()
        c = ("C", e, rng.choice(["eng", "deu"]), rng.choice(["", "ID3v1 Comment", "c%d" % k]), vals(e) if p(0.7) else (("A long comment " + rtext(rng, e, 20, 30)).strip(),))
        if any(x[2] == c[2] and x[3] == c[3] for x in meta["comm"]):
            continue
        d.append(c)
        meta["comm"].append(c)
    if depth == 0:
        # always one frame of >= 128 bytes: plain and syncsafe size fields differ from there on
        e = enc()
        d.append(("A", e, rng.choice(["image/png", "image/jpeg", "PNG", "JPG"]), 3, rtext(rng, e, 0, 3).strip(), bytes(rng.randrange(1, 256) for _ in range(rng.randrange(130, 420)))))
        for k in range(rng.choice([0, 1, 1, 2])):
            sub, smeta = gen_clean(rng, 1)
            d.append(("H", "ch%d" % k, k * 1000, k * 1000 + 999, 0xFFFFFFFF, 0xFFFFFFFF, sub))
            meta.setdefault("chap", []).append(("ch%d" % k, smeta))
        if p(0.3):
            sub, smeta = gen_clean(rng, 1)
            d.append(("O", "toc", 3, ("ch0", "ch1"), sub))
            meta.setdefault("ctoc", []).append(("toc", smeta))
        for i in ("RVA2", "PRIV", "UFID", "PCNT", "WOAR"):
            if p(0.1):
                d.append(("R", i))
    rng.shuffle(d)
    return tuple(d), meta


def ref_saved(frames, v2, sep):
    """reference of what a reader gets back from a save of the in-memory frames (canonical tuples)"""
    out = []
    for fr in frames:
        k = fr[0]
        e23 = lambda e: e if (v2 == 4 or e in (0, 1)) else 1
        jn = lambda v: tuple(v) if (v2 == 4 or sep is None) else (sep.join(v),)
        if k == "T":
            if "\0".join(fr[3]) == "":
                continue
            out.append(("T", fr[1], e23(fr[2]), jn(fr[3])))
        elif k == "S":
            if ",".join(stamp_text(d, " ") for d in fr[3]) == "":
                continue
            out.append(("S", fr[1], e23(fr[2]), fr[3]))
        elif k == "X":
            if "\0".join(fr[3]) == "":
                continue
            out.append(("X", e23(fr[1]), fr[2], jn(fr[3])))
        elif k == "C":
            if "\0".join(fr[4]) == "":
                continue
            out.append(("C", e23(fr[1]), fr[2], fr[3], jn(fr[4])))
        elif k == "P":
            out.append(("P", fr[1], e23(fr[2]), fr[3]))
        elif k == "A":
            out.append(("A", e23(fr[1])) + fr[2:])
        elif k == "H":
            out.append(fr[:6] + (ref_saved(fr[6], v2, sep),))
        elif k == "O":
            out.append(fr[:4] + (ref_saved(fr[4], v2, sep),))
        else:
            out.append(fr)
    return tuple(out)


OLD_V1 = b"TAG" + b"old title".ljust(30, b"\0") + b"old artist".ljust(30, b"\0") + b"old album".ljust(30, b"\0") + b"1990" + b"old comment".ljust(28, b"\0") + b"\0\x09\x11"
AUDIO = b"\xff\xfb\x90\x64" + bytes(range(1, 200)) * 2
EXISTING = {"empty": b"", "audio": AUDIO, "audio+v1": AUDIO + OLD_V1}


def v1_block(title="", artist="", album="", year="", comment="", track=0, genre=255):
    pad = lambda x, n: x.encode("latin-1").ljust(n, b"\0")
    b = b"TAG" + pad(title, 30) + pad(artist, 30) + pad(album, 30) + pad(year, 4) + pad(comment, 28) + b"\0" + bytes([track, genre])
    assert len(b) == 128
    return b


# ID3v1 blocks of every degree of blankness (what save(v1=2) of an empty tag, or another tagger, leaves behind)
V1_BLANKISH = {"blank": v1_block(), "year": v1_block(year="1987"), "comment": v1_block(comment="v1 comment"), "track": v1_block(track=9), "genre0": v1_block(genre=0)}
for _k, _b in V1_BLANKISH.items():
    EXISTING["audio+v1" + _k] = AUDIO + _b
EX_V1 = ["audio+v1" + _k for _k in V1_BLANKISH]


def _viol(ctx, what, cls, data):
    d = dict(data)
    d["class"] = cls
    d["runner"] = "c13.oracle"
    ctx.violation("oracle", what, d)


def check_level(ctx, viol, dec, meta, v2, sep, where=""):
    """the property's information claims on one level of independently decoded frames"""
    by = {}
    for fr in dec:
        key = fr[1] if fr[0] in ("T", "P", "R") else (fr[0], fr[2] if fr[0] == "X" else (fr[3], fr[2]) if fr[0] == "C" else fr[1])
        by.setdefault(key, []).append(fr)

    def text_of(fid):
        return by[fid][0][3] if fid in by and by[fid][0][0] == "T" else None
    if v2 == 3:
        for fid in ("TDRC", "TDOR", "TIPL", "TMCL"):
            if fid in by:
                viol("v2.3 tag contains the v2.4-only frame %s" % fid, "v24-frame-in-v23")
        if "tdrc" in meta:
            y, mo, d, h, mi, s = meta["tdrc"]
            if y and text_of("TYER") != ("%04d" % y,):
                viol("v2.3 tag does not carry the recording year in TYER" + where, "tyer")
            if mo and d and text_of("TDAT") != ("%02d%02d" % (d, mo),):
                viol("v2.3 tag does not carry the recording day and month as DDMM in TDAT" + where, "tdat")
            if h and mi and text_of("TIME") != ("%02d%02d" % (h, mi),):
                viol("v2.3 tag does not carry the recording hour and minute as HHMM in TIME" + where, "time")
        if "tdor" in meta and meta["tdor"][0] and text_of("TORY") != ("%04d" % meta["tdor"][0],):
            viol("v2.3 tag does not carry the original release year in TORY" + where, "tory")
        if meta.get("people"):
            want = tuple(x for _, pl in meta["people"] for x in pl)
            got = by.get("IPLS", [None])[0]
            if got is None or got[3] != want:
                viol("v2.3 IPLS is not the TIPL list followed by the TMCL list" + where, "ipls")
            if len(by.get("IPLS", [])) > 1:
                viol("v2.3 tag contains more than one IPLS frame" + where, "ipls-dup")
        if sep is not None:
            # ID3v2.3 has no multi-valued text: with a separator EVERY text frame class (plain, numeric, numeric-part, TXXX, COMM) holds one string
            for fr in dec:
                if (fr[0] in ("T", "X") and len(fr[3]) > 1) or (fr[0] == "C" and len(fr[4]) > 1):
                    viol("v2.3 text frame holds several NUL-separated values although a separator was given" + where, "v23-multivalue-not-joined")
                    break
    else:
        if "tyer" in meta:
            if text_of("TDRC") != meta["tyer"]:
                viol("the TYER years of the in-memory tag are not carried into TDRC of the v2.4 tag" + where, "tyer-to-tdrc")
            if "TYER" in by:
                viol("v2.4 tag contains the v2.3-only frame TYER" + where, "v23-frame-in-v24")
        if "tdrc" in meta:
            got = text_of("TDRC")
            if got is None or got[0] != stamp_text(meta["tdrc"]):
                viol("v2.4 tag does not carry the recording time in TDRC" + where, "tdrc")
        if "tdor" in meta:
            got = text_of("TDOR")
            if got is None or got[0] != stamp_text(meta["tdor"]):
                viol("v2.4 tag does not carry the original release time in TDOR" + where, "tdor")
        for fid, pl in meta.get("people") or []:
            got = by.get(fid, [None])[0]
            if got is None or got[3] != pl:
                viol("v2.4 tag does not carry the %s people list" % fid + where, "people24")
    jn = lambda v: tuple(v) if (v2 == 4 or sep is None) else (sep.join(v),)
    if v2 == 3:
        for fid, key in (("TYER", "tyer"), ("TORY", "tory")):
            if key in meta and text_of(fid) != jn(meta[key]):
                viol("multi-valued text is not carried (joined by the separator, or kept separate when none is given)" + where, "multivalue")
    for fid, v in meta["texts"].items():
        if v2 == 3 and fid == "TSOP":
            continue            # v2.4-only frame, dropped by update_to_v23
        if text_of(fid) != jn(v):
            viol("multi-valued text is not carried (joined by the separator, or kept separate when none is given)" + where, "multivalue")
    for x in meta["txxx"]:
        got = by.get(("X", x[2]), [None])[0]
        if got is None or got[3] != jn(x[3]):
            viol("multi-valued TXXX text is not carried" + where, "multivalue-txxx")
    for c in meta["comm"]:
        got = by.get(("C", (c[3], c[2])), [None])[0]
        if got is None or got[4] != jn(c[4]):
            viol("multi-valued COMM text is not carried" + where, "multivalue-comm")
    for kind, key in (("H", "chap"), ("O", "ctoc")):
        for eid, smeta in meta.get(key, []):
            got = [fr for fr in dec if fr[0] == kind and fr[1] == eid]
            if not got:
                viol("chapter frame lost" + where, "chapter-lost")
                continue
            check_level(ctx, viol, got[0][6] if kind == "H" else got[0][4], smeta, v2, sep, " (chapter sub-frames)")


def check_v1_block(ctx, viol, block, meta, mem, v2):
    I = M()[0]
    if len(block) != 128 or block[:3] != b"TAG":
        viol("no 128-byte ID3v1 block at the end of the file", "v1-missing")
        return
    G = genres_table()
    t = meta["texts"]
    for fid, a, name in (("TIT2", 3, "title"), ("TPE1", 33, "artist"), ("TALB", 63, "album")):
        want = ref_latin1(t[fid][0], 30) if fid in t else b"\0" * 30
        if v2 == 3 and fid in t:
            want = ref_latin1(mem[fid], 30)
        if block[a:a + 30] != want:
            viol("ID3v1 %s is not the Latin-1 ('?' replacement), 30-byte truncated, NUL padded image of the v2 frame" % name, "v1-" + name)
    y = (meta.get("tdrc") or (None,))[0]
    if y is None and "tyer" in meta:
        y = int(meta["tyer"][0])
    if block[93:97] != (("%04d" % y).encode() if y else b"\0\0\0\0"):
        viol("ID3v1 year does not reflect the v2 recording year", "v1-year")
    firsts = [ref_latin1(mem["C", c[3], c[2]], 28) + b"\0" for c in meta["comm"]]
    if (firsts and block[97:126] not in firsts) or (not firsts and block[97:126] != b"\0" * 29):
        viol("ID3v1 block does not reflect the v2 comment", "v1-comment-not-written")
    tr = 0
    if "trck" in meta:
        n = int(meta["trck"].split("/")[0])
        tr = n if n < 256 else 0
    if block[126] != tr:
        viol("ID3v1 track byte does not reflect TRCK", "v1-track")
    ge = 255
    if "TCON" in t and t["TCON"][0] in G:
        ge = G.index(t["TCON"][0])
    if block[127] != ge:
        viol("ID3v1 genre byte does not reflect TCON", "v1-genre")


def oracle_case(ctx, case_seed, v2, sep, v1, existing):
    """save the clean v2.4-style tag generated from case_seed as v2.<v2>; judge the RAW BYTES;
    returns the number of violations added"""
    I = M()[0]
    before = len(ctx.violations)
    desc, meta = gen_clean(random.Random(case_seed))
    data = {"case_seed": case_seed, "desc": desc_json(desc), "v2": v2, "sep": sep, "v1": v1, "existing": existing}
    viol = lambda what, cls: _viol(ctx, what, cls, data)
    t = build_tag(desc)
    if v2 == 3:
        t.update_to_v23()
    else:
        t.update_to_v24()
    mem_c = canon(t)
    mem_first = {}
    for fr in mem_c:
        if fr[0] == "T" and fr[3]:
            mem_first[fr[1]] = (fr[3][0] if (v2 == 4 or sep is None or True) else None)
        if fr[0] == "C" and fr[4]:
            mem_first["C", fr[3], fr[2]] = fr[4][0]
    f = io.BytesIO(EXISTING[existing])
    try:
        t.save(f, v1=v1, v2_version=v2, v23_sep=sep)
    except Exception as e:
        viol("saving a valid tag as v2.%d failed: %s" % (v2, type(e).__name__), "save-failed")
        return 1
    raw = f.getvalue()
    ctx.oracle_cases += 1
    ctx.count("oracle:save-v2.%d" % v2)
    ctx.case(("save", repr(desc), v2, sep, v1, existing))
    try:
        w = W.id3v2_walk(raw)
    except W.Bad as e:
        data["detail"] = str(e)[:200]
        viol("saved v2.%d tag is not walkable with %s frame sizes" % (v2, "plain 32-bit" if v2 == 3 else "syncsafe"), "sizes")
        return len(ctx.violations) - before
    if w["version"] != v2 or raw[4] != 0:
        viol("saved tag declares version 2.%d.%d, asked for 2.%d" % (w["version"], raw[4], v2), "version-byte")
    if w["flags"] != 0:
        viol("saved tag has header flags %#x" % w["flags"], "flags")
    if any(fl for _, fl, _ in w["frames"]):
        viol("saved frame has non-zero flags", "frame-flags")
    try:
        dec = tuple(dec_frame(i, v2, p) for i, fl, p in w["frames"])
    except W.Bad as e:
        data["detail"] = str(e)[:200]
        viol("saved v2.%d frame does not decode under the version's layout" % v2, "frame-decode")
        return len(ctx.violations) - before
    if v2 == 3 and any(e not in (0, 1) for fr in dec for e in encs_of(fr)):
        viol("v2.3 tag contains a text encoding other than Latin-1 / UTF-16", "encoding")
    check_level(ctx, viol, dec, meta, v2, sep)
    # reload gives the frames that were written (the property claims it for v2.3; reloading v2.4 is C12/C01's subject and goes
    # through the determine_bpi heuristic, which can misread a v2.4 tag whose CHAP sub-frames happen to be aligned with the
    # plain-int reading of a size field -- recorded by C12 as a by-design heuristic)
    try:
        if v2 == 4:
            raise StopIteration
        r = I.ID3(io.BytesIO(raw), v2_version=v2, load_v1=False)
        got = norm(canon(r))
        want = norm(ref_saved(mem_c, v2, sep))
        if ctx.use_model:
            mod = model_tag(ctx, "c13_saved", "3", "-" if sep is None else p_text(sep), p_tag(mem_c))
            ctx.corr_cases += 1
            ctx.count("corr:saved23-vs-reload")
            if isinstance(mod, str) or norm(mod) != got:
                _dis(ctx, "c13.saved23", "frames reloaded from a v2.3 save differ from the model's conv_saved23 (sep=%r)" % (sep,), dict(data))
        if got != want:
            a, b = set(got), set(want)
            viol("reloading the saved v2.%d tag does not give the frames that were written" % v2, "reload")
            ctx.notes.setdefault("reload_diff", repr((sorted(a - b, key=repr)[:2], sorted(b - a, key=repr)[:2]))[:600])
    except StopIteration:
        pass
    except Exception as e:
        viol("reloading the saved v2.%d tag failed: %s" % (v2, type(e).__name__), "reload-failed")
    # ID3v1
    size = w["size"]
    tail = raw[size:]
    had = existing.startswith("audio+v1")
    if len(tail) < len(EXISTING[existing][:len(AUDIO)]) or not tail.startswith(EXISTING[existing][:len(AUDIO)]):
        viol("the content behind the tag is not the audio that was there", "audio-changed")
    if v1 == 2 or (v1 == 1 and had):
        if len(tail) != len(AUDIO if existing != "empty" else b"") + 128:
            viol("no 128-byte ID3v1 block at the end of the file", "v1-missing")
        else:
            check_v1_block(ctx, viol, tail[-128:], meta, mem_first, v2)
    elif len(tail) >= 128 and tail[-128:-125] == b"TAG":
        viol("an ID3v1 block is present although v1=%d %s" % (v1, "with" if had else "without an existing block"), "v1-unwanted")
    return len(ctx.violations) - before


def _meta_json(m):
    return m


# ---- histories on ONE in-memory object: the caller keeps the tag / the frames around a conversion or a save and saves again
HIST_MODES = ("id3-twice", "copy-restore", "easy", "u24-held", "desc-held")


def leaf_frames(t, skip=()):
    """every frame object reachable from the tag that is not itself a container (CHAP/CTOC sub-frame tags are converted in place by design)"""
    out = []
    for f in t.values():
        if hasattr(f, "sub_frames"):
            out.extend(leaf_frames(f.sub_frames, skip))
        elif f.FrameID not in skip:
            out.append(f)
    return out


def desc_of_canon(frames):
    """canonical tuples -> a description build_tag accepts (time stamps back to text)"""
    out = []
    for fr in frames:
        if fr[0] == "S":
            fr = fr[:3] + (tuple(stamp_text(d) for d in fr[3]),)
        elif fr[0] == "H":
            fr = fr[:6] + (desc_of_canon(fr[6]),)
        elif fr[0] == "O":
            fr = fr[:4] + (desc_of_canon(fr[4]),)
        elif fr[0] == "R":
            fr = ("R", fr[1])
        out.append(fr)
    return tuple(out)


def meta_via_v24(meta):
    """what the property says about the tag once it went through update_to_v24 (EasyID3 and the copy/restore pattern work on v2.4 frames):
    the TYER years are a TDRC then, of which only the first value has a v2.3 form; a single TORY year is a TDOR (a multi-valued TORY has no
    TDOR form: update_to_v24 builds it from str(frame) -- code detail, no claim made)"""
    m = dict(meta)
    if "tyer" in m:
        m["tdrc"] = (int(m.pop("tyer")[0]), None, None, None, None, None)
    if "tory" in m:
        v = m.pop("tory")
        if len(v) == 1:
            m["tdor"] = (int(v[0]), None, None, None, None, None)
    for key in ("chap", "ctoc"):
        if key in m:
            m[key] = [(eid, meta_via_v24(sm)) for eid, sm in m[key]]
    return m


def _decode_save(viol, raw, v2, what):
    """independent walk + decode of a saved file; None (and a violation) if it is not valid for the version"""
    try:
        w = W.id3v2_walk(raw)
        dec = tuple(dec_frame(i, v2, p) for i, fl, p in w["frames"])
    except W.Bad as e:
        viol("%s is not walkable / decodable under the v2.%d layout" % (what, v2), "sizes")
        return None
    if w["version"] != v2:
        viol("%s declares version 2.%d, asked for 2.%d" % (what, w["version"], v2), "version-byte")
    if v2 == 3 and any(e not in (0, 1) for fr in dec for e in encs_of(fr)):
        viol("v2.3 tag contains a text encoding other than Latin-1 / UTF-16", "encoding")
    return dec


def oracle_history(ctx, case_seed, mode, sep, v1, existing):
    """a history of conversions / saves on the same in-memory object. The property quantifies over every save: a later save of the same
    object must write what the first one wrote, the frames the caller still holds are the v2.4 SOURCE and must stay what they were,
    and the information claims hold for the LAST save of the history just as for the first. Returns the number of violations added."""
    I = M()[0]
    before = len(ctx.violations)
    data = {"hist_seed": case_seed, "mode": mode, "sep": sep, "v1": v1, "existing": existing}

    def viol(what, cls):
        _viol(ctx, what, cls, data)
        data.pop("detail", None)
    rng = random.Random(case_seed)
    if mode == "desc-held":
        desc, meta = gen_desc(rng), None
    else:
        desc, meta = gen_clean(rng)
    data["desc"] = desc_json(desc)
    base = EXISTING[existing]

    def save(t, over, v2, **kw):
        f = io.BytesIO(over)
        t.save(f, v1=v1, v2_version=v2, v23_sep=sep, **kw)
        return f.getvalue()

    def held_check(t, convert, name, skip=()):
        held = leaf_frames(t, skip)
        snap = [canon_frame(f) for f in held]
        convert()
        now = [canon_frame(f) for f in held]
        if now != snap:
            k = [a != b for a, b in zip(snap, now)].index(True)
            data["detail"] = ("%r -> %r" % (snap[k], now[k]))[:300]
            viol("%s changed a frame object of the source tag that the caller still holds" % name, "held-frame-mutated")
            return False
        return True

    ctx.oracle_cases += 1
    ctx.count("oracle:history-" + mode)
    ctx.case(("hist", mode, repr(desc), sep, v1, existing))
    try:
        if mode == "desc-held":
            # any tag content (conflicting old and new forms included); TCON is normalised in place by both conversions (documented)
            for op in ("update_to_v23", "update_to_v24"):
                t = build_tag(desc)
                held_check(t, getattr(t, op), op, skip=("TCON",))
        elif mode == "u24-held":
            # the v2.3 form of the tag, held by the caller, converted to v2.4 and saved twice
            t = build_tag(desc)
            t.update_to_v23()
            t = build_tag(desc_of_canon(canon(t)))
            held_check(t, t.update_to_v24, "update_to_v24")
            m1 = canon(t)
            raw1 = save(t, base, 4)
            if canon(t) != m1:
                viol("saving as v2.4 changed the in-memory tag", "save-mutates")
            if save(t, base, 4) != raw1:
                viol("saving the same tag object twice as v2.4 writes different bytes", "second-save-differs")
            _decode_save(viol, raw1, 4, "the v2.4 save")
        elif mode == "id3-twice":
            for v2 in (3, 4):
                t = build_tag(desc)
                conv = t.update_to_v23 if v2 == 3 else t.update_to_v24
                held_check(t, conv, conv.__name__)
                m1 = canon(t)
                raw1 = save(t, base, v2)
                if canon(t) != m1:
                    viol("saving as v2.%d changed the in-memory tag" % v2, "save-mutates")
                if save(t, base, v2) != raw1:
                    viol("saving the same tag object twice as v2.%d writes different bytes" % v2, "second-save-differs")
                if save(t, raw1, v2) != raw1:
                    viol("saving the same tag object over its own v2.%d save changes the file" % v2, "resave-differs")
                conv()
                rawn = save(t, base, v2)
                if rawn != raw1:
                    viol("converting the same tag object again and saving as v2.%d writes different bytes" % v2, "second-save-differs")
                dec = _decode_save(viol, rawn, v2, "the last v2.%d save of the history" % v2)
                if dec is not None:
                    check_level(ctx, viol, dec, meta, v2, sep, " (last save of the history)")
                want_v1 = v1 == 2 or (v1 == 1 and existing.startswith("audio+v1"))
                for what, r in (("first", raw1), ("last", rawn)):
                    if (r[-128:-125] == b"TAG") != want_v1:
                        viol("after the %s save of the history with v1=%d an ID3v1 block is %s (the file %s one before)" % (
                            what, v1, "missing" if want_v1 else "present", "had" if existing.startswith("audio+v1") else "had not"), "v1-presence")
                        break
        elif mode == "copy-restore":
            # the pattern EasyID3.save(v2_version=3) uses on its v2.4 frames: shallow copy, convert, save, restore
            t = build_tag(desc)
            if not hasattr(t, "_copy") or not hasattr(t, "_restore"):
                return 0
            t.update_to_v24()
            meta = meta_via_v24(meta)
            c0 = canon(t)
            raws = []
            for n in (1, 2):
                backup = t._copy()
                try:
                    t.update_to_v23()
                    raws.append(save(t, base, 3))
                finally:
                    t._restore(backup)
                if canon(t) != c0:
                    a, b = set(norm(c0)), set(norm(canon(t)))
                    data["detail"] = repr((sorted(a - b, key=repr)[:1], sorted(b - a, key=repr)[:1]))[:400]
                    viol("the v2.4 frames kept around a v2.3 save (copy, update_to_v23, save, restore) are not what they were", "held-frame-mutated")
                    break
            if len(raws) == 2 and raws[0] != raws[1]:
                viol("the second v2.3 save of the same v2.4 tag writes different bytes than the first", "second-save-differs")
            dec = _decode_save(viol, raws[-1], 3, "the last v2.3 save of the history")
            if dec is not None:
                check_level(ctx, viol, dec, meta, 3, sep, " (last save of the history)")
            raw4 = save(t, raws[-1], 4)
            dec = _decode_save(viol, raw4, 4, "the v2.4 save after the v2.3 saves")
            if dec is not None:
                check_level(ctx, viol, dec, meta, 4, sep, " (v2.4 save after v2.3 saves of the same object)")
        elif mode == "easy":
            from mutagen.easyid3 import EasyID3
            t = build_tag(desc)
            t.update_to_v24()
            f = io.BytesIO(base)
            t.save(f, v1=0, v2_version=4)
            raw24 = f.getvalue()
            # only as a filter: the v2.4 file must load to the tag that was written (the v2.4 size heuristic is C12's subject)
            if norm(canon(I.ID3(io.BytesIO(raw24), load_v1=False))) != norm(ref_saved(canon(t), 4, None)):
                ctx.count("oracle:history-easy-skipped")
                return 0
            e = EasyID3(io.BytesIO(raw24))
            meta = meta_via_v24(meta)
            if not any(i == "TMCL" for i, _ in (meta.get("people") or [])) and rng.random() < 0.6:
                # the musician credits are added through the public EasyID3 keys
                pl = tuple(("role%d" % k, rtext(rng, 1).strip() or "n") for k in range(rng.randrange(1, 3)))
                for role, name in pl:
                    e["performer:" + role] = [name]
                meta["people"] = (meta.get("people") or []) + [("TMCL", pl)]
            shown = {k: list(e[k]) for k in sorted(e.keys())}
            raws = []
            for n in (1, 2):
                fo = io.BytesIO(raw24)
                e.save(fo, v1=v1, v2_version=3, v23_sep=sep)
                raws.append(fo.getvalue())
                if {k: list(e[k]) for k in sorted(e.keys())} != shown:
                    viol("EasyID3.save(v2_version=3) changed the values the EasyID3 object holds", "held-frame-mutated")
                    break
            if len(raws) == 2 and raws[0] != raws[1]:
                viol("the second EasyID3.save(v2_version=3) of the same object writes different bytes than the first", "second-save-differs")
            dec = _decode_save(viol, raws[-1], 3, "the last v2.3 save of the history")
            if dec is not None:
                check_level(ctx, viol, dec, meta, 3, sep, " (last save of the history)")
            fo = io.BytesIO(raws[-1])
            e.save(fo, v1=v1, v2_version=4, v23_sep=sep)
            dec = _decode_save(viol, fo.getvalue(), 4, "the v2.4 save after the v2.3 saves")
            if dec is not None:
                check_level(ctx, viol, dec, meta, 4, sep, " (v2.4 save after v2.3 saves of the same object)")
    except Exception as e:
        data["detail"] = repr(e)[:200]
        viol("a conversion / save history on a valid tag failed: %s" % type(e).__name__, "history-failed")
    return len(ctx.violations) - before


# ---- hand-built v2.2 / v2.3 tags and the sample files: load, save as v2.4 (and v2.3)
def syncsafe4(n):
    return bytes([(n >> 21) & 0x7F, (n >> 14) & 0x7F, (n >> 7) & 0x7F, n & 0x7F])


def build_v22(frames):
    body = b"".join(i.encode() + len(p).to_bytes(3, "big") + p for i, p in frames)
    return b"ID3\x02\x00\x00" + syncsafe4(len(body)) + body


def build_v23(frames):
    body = b"".join(i.encode() + len(p).to_bytes(4, "big") + b"\0\0" + p for i, p in frames)
    return b"ID3\x03\x00\x00" + syncsafe4(len(body)) + body


def etext(enc, s):
    return {0: lambda: s.encode("latin-1") + b"\0", 1: lambda: b"\xff\xfe" + s.encode("utf-16-le") + b"\0\0",
            2: lambda: s.encode("utf-16-be") + b"\0\0", 3: lambda: s.encode("utf-8") + b"\0"}[enc]()


def build_v24(frames):
    body = b"".join(i.encode() + syncsafe4(len(p)) + b"\0\0" + p for i, p in frames)
    return b"ID3\x04\x00\x00" + syncsafe4(len(body)) + body


def hand_case(rng):
    """one old-style tag description: the same information as v2.2 bytes, as v2.3 bytes and as v2.4 bytes"""
    e = rng.choice([0, 1])
    al = LATIN.replace("/", "").replace(";", "") if e == 0 else "abc \u4e2d\u20ac"
    tx = lambda lo=1, hi=9: ("".join(rng.choice(al) for _ in range(rng.randrange(lo, hi + 1))).strip() or "x")
    info = {"enc": e, "title": tx(), "artist": tx(), "album": tx(20, 45), "y": rng.randrange(1, 10000), "d": rng.randrange(1, 32), "mo": rng.randrange(1, 13),
            "h": rng.randrange(0, 24), "mi": rng.randrange(0, 60), "oy": rng.randrange(1, 10000),
            "people": [(tx(), tx()) for _ in range(rng.randrange(1, 4))], "genre": rng.choice([0, 1, 17, 8]), "track": "%d/%d" % (rng.randrange(1, 20), 20),
            "comment": tx(3, 12), "pic": bytes(rng.randrange(1, 256) for _ in range(rng.randrange(140, 300))), "has_time": rng.random() < 0.8, "has_date": rng.random() < 0.85}
    info["musicians"] = [(tx(), tx()) for _ in range(rng.randrange(0, 3))]      # v2.4 sources only (TMCL)
    info["has_year"] = rng.random() < 0.85                                      # without a year the v2 tag carries no recording date at all
    return info


def hand_date(info, src):
    """(has year, has date, has time) of the v2 source"""
    hy = info.get("has_year", True)
    hd = hy and info["has_date"]
    ht = hy and info["has_time"] and (hd or src != 4)
    return hy, hd, ht


def hand_frames(info, ver):
    e = info["enc"]
    T = lambda s: bytes([e]) + etext(e, s)
    ids = {2: dict(t="TT2", a="TP1", l="TAL", y="TYE", d="TDA", m="TIM", o="TOR", p="IPL", g="TCO", k="TRK", c="COM", pic="PIC"),
           3: dict(t="TIT2", a="TPE1", l="TALB", y="TYER", d="TDAT", m="TIME", o="TORY", p="IPLS", g="TCON", k="TRCK", c="COMM", pic="APIC"),
           4: dict(t="TIT2", a="TPE1", l="TALB", y="TDRC", o="TDOR", p="TIPL", g="TCON", k="TRCK", c="COMM", pic="APIC")}[ver]
    hy, hd, ht = hand_date(info, ver)
    fr = [(ids["t"], T(info["title"])), (ids["a"], T(info["artist"])), (ids["l"], T(info["album"]))]
    if ver == 4:
        if hy:
            fr.append((ids["y"], T("%04d" % info["y"] + ("-%02d-%02d" % (info["mo"], info["d"]) if hd else "") + ("T%02d:%02d" % (info["h"], info["mi"]) if ht else ""))))
    else:
        if hy:
            fr.append((ids["y"], T("%04d" % info["y"])))
        if hd:
            fr.append((ids["d"], T("%02d%02d" % (info["d"], info["mo"]))))
        if ht:
            fr.append((ids["m"], T("%02d%02d" % (info["h"], info["mi"]))))
    fr.append((ids["o"], T("%04d" % info["oy"])))
    fr.append((ids["p"], bytes([e]) + b"".join(etext(e, a) + etext(e, b) for a, b in info["people"])))
    if ver == 4 and info.get("musicians"):
        fr.append(("TMCL", bytes([e]) + b"".join(etext(e, a) + etext(e, b) for a, b in info["musicians"])))
    fr.append((ids["g"], T("(%d)" % info["genre"] if ver != 4 else "%d" % info["genre"])))
    fr.append((ids["k"], T(info["track"])))
    fr.append((ids["c"], bytes([e]) + b"eng" + etext(e, "") + etext(e, info["comment"])))
    if ver == 2:
        fr.append((ids["pic"], bytes([e]) + b"JPG" + b"\x03" + etext(e, "") + info["pic"]))
    else:
        fr.append((ids["pic"], bytes([e]) + b"image/jpeg\0" + b"\x03" + etext(e, "") + info["pic"]))
    return fr


V1SRC = [y + "-" + f for y in ("same", "diff", "none") for f in ("filled", "blank")]
V1SRC_BLANKISH = ["none-blank", "only-year", "only-comment", "only-track", "only-genre0"]      # "none-blank" = TAG + 124 NULs + genre 255
HAND_LOADS = ("explicit", "default", "v2ver")
V1_FILLED = {"title": "v1 title", "artist": "v1 artist", "album": "v1 album", "comment": "v1 comment", "track": 9, "genre": 12}


def hand_v1_block(info, v1src):
    """the ID3v1 block appended to the source file: year equal to / different from the v2 year / absent; other fields filled (all different
    from the v2 tag) or blank; or a block with a single field (year / comment / track / genre 0). -> (128 bytes, year text or None, comment or None)"""
    ykind, fkind = v1src.split("-")
    if ykind == "only":
        fl = {"year": "%04d" % (info["y"] % 9998 + 1)} if fkind == "year" else {"comment": V1_FILLED["comment"]} if fkind == "comment" else \
            {"track": 9} if fkind == "track" else {"genre": 0}
        return v1_block(**fl), fl.get("year"), fl.get("comment")
    year = {"same": "%04d" % info["y"], "diff": "%04d" % (info["y"] % 9998 + 1), "none": None}[ykind]
    fl = dict(V1_FILLED) if fkind == "filled" else {}
    return v1_block(year=year or "", **fl), year, fl.get("comment")


def oracle_hand(ctx, case_seed, src, dst, v1src=None, load="explicit", v1opt=2):
    """a hand-built v2.<src> tag (optionally followed by an ID3v1 block) is loaded -- load='explicit': ID3(f, v2_version=dst, load_v1=False);
    'default': ID3(f) with every default, then update_to_v23() for a v2.3 target; 'v2ver': ID3(f, v2_version=dst) -- and saved as v2.<dst>;
    the raw result is decoded independently. The v2 tag has precedence over the ID3v1 block for every field it carries."""
    I = M()[0]
    before = len(ctx.violations)
    info = hand_case(random.Random(case_seed))
    data = {"hand_seed": case_seed, "hand": desc_json(_info_json(info)), "src": src, "dst": dst, "v1src": v1src, "load": load, "v1opt": v1opt}
    viol = lambda what, cls: _viol(ctx, what, cls, data)
    raw0 = {2: build_v22, 3: build_v23, 4: build_v24}[src](hand_frames(info, src)) + AUDIO
    v1year, v1comment = None, None
    if v1src is not None:
        blk0, v1year, v1comment = hand_v1_block(info, v1src)
        raw0 += blk0
    withv1 = " (source file ends with an ID3v1 block, year %s the v2 year)" % v1src.split("-")[0] if v1src else ""
    try:
        if load == "explicit":
            t = I.ID3(io.BytesIO(raw0), v2_version=dst, load_v1=False)
            v1year, v1comment = None, None
        elif load == "v2ver":
            t = I.ID3(io.BytesIO(raw0), v2_version=dst)
        else:
            t = I.ID3(io.BytesIO(raw0))
            if dst == 3:
                t.update_to_v23()
        f = io.BytesIO(raw0)
        t.save(f, v1=v1opt, v2_version=dst, v23_sep="/")
    except Exception as e:
        viol("loading a v2.%d tag and saving it as v2.%d failed: %s" % (src, dst, type(e).__name__) + withv1, "hand-failed")
        return 1
    raw = f.getvalue()
    ctx.oracle_cases += 1
    ctx.count("oracle:v2.%d->v2.%d%s" % (src, dst, "+v1" if v1src else ""))
    ctx.case(("hand", case_seed, src, dst, v1src, load, v1opt))
    try:
        w = W.id3v2_walk(raw)
        dec = {}
        for i, fl, p in w["frames"]:
            dec.setdefault(i, []).append(dec_frame(i, dst, p))
    except W.Bad as e:
        viol("v2.%d tag saved from a v2.%d source is not walkable with %s sizes" % (dst, src, "plain 32-bit" if dst == 3 else "syncsafe"), "sizes")
        return len(ctx.violations) - before
    if w["version"] != dst or w["flags"] != 0:
        viol("saved tag declares version 2.%d flags %#x, asked for 2.%d" % (w["version"], w["flags"], dst), "version-byte")
    tx = lambda i: dec[i][0][3] if i in dec else None
    hy, hd, ht = hand_date(info, src)
    via24 = src == 4 or load == "default"          # the date went through a TDRC: a time needs a complete date and non-zero hour and minute (code detail)
    for i, k in (("TIT2", "title"), ("TPE1", "artist"), ("TALB", "album")):
        if tx(i) != (info[k],):
            viol("text of %s is not preserved when converting v2.%d to v2.%d" % (i, src, dst) + withv1, "hand-text")
    if tx("TRCK") != (info["track"],):
        viol("TRCK is not preserved when converting v2.%d to v2.%d" % (src, dst) + withv1, "hand-text")
    G = genres_table()
    if tx("TCON") != (G[info["genre"]],):
        viol("genre is not preserved when converting v2.%d to v2.%d" % (src, dst) + withv1, "hand-genre")
    comm = [c for c in dec.get("COMM", []) if c[3] == ""]
    if not comm or comm[0][4] != (info["comment"],):
        viol("comment is not preserved when converting v2.%d to v2.%d" % (src, dst) + withv1, "hand-comment")
    if "APIC" not in dec or dec["APIC"][0][2] != "image/jpeg" or dec["APIC"][0][5] != info["pic"]:
        viol("picture is not preserved when converting v2.%d to v2.%d" % (src, dst) + withv1, "hand-picture")
    people = tuple(info["people"])
    music = tuple(info.get("musicians") or ()) if src == 4 else ()
    if dst == 4:
        if hy:
            want = "%04d" % info["y"]
            if hd:
                want += "-%02d-%02d" % (info["mo"], info["d"])
                if ht:
                    want += "T%02d:%02d" % (info["h"], info["mi"]) + (":00" if src != 4 else "")
            if tx("TDRC") != (want,):
                viol(("TYER/TDAT/TIME of a v2.%d tag are not carried into TDRC" % src if src != 4 else "TDRC of a v2.4 tag is not preserved") + withv1, "hand-tdrc")
        elif tx("TDRC") != ((v1year,) if v1year else None):
            viol("the year of the ID3v1 block is not the TDRC of a tag whose v2.%d part has no year" % src, "hand-v1-year")
        if tx("TDOR") != ("%04d" % info["oy"],):
            viol(("TORY of a v2.%d tag is not carried into TDOR" % src if src != 4 else "TDOR of a v2.4 tag is not preserved") + withv1, "hand-tdor")
        if "TIPL" not in dec or dec["TIPL"][0][3] != people:
            viol(("IPLS of a v2.%d tag is not carried into TIPL" % src if src != 4 else "TIPL of a v2.4 tag is not preserved") + withv1, "hand-tipl")
        if music and ("TMCL" not in dec or dec["TMCL"][0][3] != music):
            viol("TMCL of a v2.4 tag is not preserved" + withv1, "hand-tmcl")
        for i in ("TYER", "TDAT", "TIME", "TORY", "IPLS"):
            if i in dec:
                viol("v2.4 tag contains the v2.3-only frame %s" % i, "v23-frame-in-v24")
    else:
        if hy:
            time_ok = ht and (not via24 or (hd and info["h"] and info["mi"]))
            if tx("TYER") != ("%04d" % info["y"],) or (hd and tx("TDAT") != ("%02d%02d" % (info["d"], info["mo"]),)) or \
                    (time_ok and tx("TIME") != ("%02d%02d" % (info["h"], info["mi"]),)):
                viol("the recording date of a v2.%d tag is not in TYER/TDAT/TIME of the v2.3 tag" % src + withv1, "hand-date23")
        elif tx("TYER") != ((v1year,) if v1year else None):
            viol("the year of the ID3v1 block is not the TYER of a tag whose v2.%d part has no year" % src, "hand-v1-year")
        if tx("TORY") != ("%04d" % info["oy"],):
            viol("the original year of a v2.%d tag is not in TORY of the v2.3 tag" % src + withv1, "hand-tory23")
        if "IPLS" not in dec or dec["IPLS"][0][3] != people + music:
            viol("the people lists of a v2.%d tag are not in IPLS of the v2.3 tag" % src + withv1, "hand-ipls23")
        for i in ("TDRC", "TDOR", "TIPL", "TMCL"):
            if i in dec:
                viol("v2.3 tag contains the v2.4-only frame %s" % i, "v24-frame-in-v23")
        if any(e not in (0, 1) for l in dec.values() for fr in l for e in encs_of(fr)):
            viol("v2.3 tag contains a text encoding other than Latin-1 / UTF-16", "encoding")
    # the ID3v1 block written alongside: the v2 fields (the year of the old block only when the v2 tag has none)
    # v1=2: always there; v1=1 (update): there iff the source file had one -- however blank; v1=0: gone. Judged on what follows the tag.
    tail = raw[w["size"]:]
    want_v1 = v1opt == 2 or (v1opt == 1 and v1src is not None)
    if not want_v1:
        if tail != AUDIO:
            viol("saved with v1=%d %s: the file does not end with the audio (%s)" % (
                v1opt, "over a file with an ID3v1 block" if v1src else "over a file without an ID3v1 block",
                "an ID3v1 block is present" if tail[-128:-125] == b"TAG" else "content changed"), "v1-unwanted")
        return len(ctx.violations) - before
    if len(tail) != len(AUDIO) + 128 or tail[:len(AUDIO)] != AUDIO or tail[-128:-125] != b"TAG":
        viol("saved with v1=%d: no 128-byte ID3v1 block follows the audio%s" % (v1opt, withv1 and " although the source file ended with one (%s)" % v1src), "v1-missing")
        return len(ctx.violations) - before
    blk = raw[-128:]
    year = "%04d" % info["y"] if hy else v1year
    comments = [ref_latin1(info["comment"], 28) + b"\0"] + ([ref_latin1(v1comment, 28) + b"\0"] if v1comment else [])
    if blk[:3] != b"TAG" or blk[3:33] != ref_latin1(info["title"], 30) or blk[33:63] != ref_latin1(info["artist"], 30) or blk[63:93] != ref_latin1(info["album"], 30):
        viol("ID3v1 title/artist/album do not reflect the converted tag" + withv1, "v1-hand-text")
    elif blk[93:97] != (year.encode() if year else b"\0\0\0\0") or blk[126] != int(info["track"].split("/")[0]) or blk[127] != info["genre"]:
        viol("ID3v1 year/track/genre do not reflect the converted tag" + withv1, "v1-hand-num")
    elif blk[97:126] not in comments:
        viol("ID3v1 block does not reflect the v2 comment" + withv1, "v1-comment-not-written")
    return len(ctx.violations) - before


def _info_json(info):
    d = dict(info)
    d["people"] = [list(x) for x in info["people"]]
    return d


def _info_unjson(j):
    d = dict(j)
    d["pic"] = bytes.fromhex(j["pic"]["hex"]) if isinstance(j["pic"], dict) else j["pic"]
    d["people"] = [tuple(x) for x in j["people"]]
    return d


V22_IDS = {"TT2": "TIT2", "TP1": "TPE1", "TAL": "TALB", "TRK": "TRCK", "TEN": "TENC", "TT1": "TIT1", "TT3": "TIT3", "TCM": "TCOM", "TP2": "TPE2"}
SAMPLES = ["id3v22-test.mp3", "too-short.mp3", "silence-44-s.mp3", "vbri.mp3", "bad-xing.mp3", "97-unknown-23-update.mp3"]


# ---- duplicate text frames of an old tag (the pre-2.4 way to store several values): every order of encodings
DUP_IDS = {"TPE1": "TP1", "TIT2": "TT2", "TCOM": "TCM", "TXXX": "TXX"}
DUP_INSIDE = "abcXYZ 012\u00e9\u00ff"
DUP_OUTSIDE = DUP_INSIDE + "\u4e2d\u20ac\u03a9"


def dup_enc_orders(src):
    """every order of the encodings the source version allows, for two and three duplicates (v2.4: UTF-16BE and UTF-8 too)"""
    al = (0, 1) if src in (2, 3) else (0, 1, 2, 3)
    return [(a, b) for a in al for b in al] + [(a, b, c) for a in al for b in al for c in al]


def dup_case(case_seed, encs):
    """the values of the duplicates: Latin-1 frames hold Latin-1 text, the others text inside or outside Latin-1; sometimes an earlier value again"""
    rng = random.Random(case_seed * 131 + sum((i + 1) * 7 ** e for i, e in enumerate(encs)))
    vals = []
    for e in encs:
        al = DUP_INSIDE if (e == 0 or rng.random() < 0.35) else DUP_OUTSIDE
        v = "".join(rng.choice(al) for _ in range(rng.randrange(1, 8))).strip() or "v"
        if e != 0 and al is DUP_OUTSIDE and all(ord(c) < 256 for c in v):
            v += "\u4e2d"
        if vals and rng.random() < 0.2:
            old = rng.choice(vals)
            if e != 0 or all(ord(c) < 256 for c in old):
                v = old
        vals.append(v)
    return vals, "".join(rng.choice("abcde") for _ in range(rng.randrange(0, 4))), rng.random() < 0.5


def oracle_dup(ctx, case_seed, fid, src, dst, encs, sep):
    """a hand-built v2.<src> tag holding the text frame <fid> len(encs) times (one value each, encodings in the given order) is loaded with the
    default translation and saved as v2.<dst>: the save succeeds and the written tag, decoded independently, carries all the values of the
    duplicates in order (a value that is there twice once) in ONE frame whose encoding byte is valid for the version and represents them"""
    I = M()[0]
    before = len(ctx.violations)
    encs = tuple(encs)
    vals, desc, via24 = dup_case(case_seed, encs)
    data = {"dup_seed": case_seed, "fid": fid, "src": src, "dst": dst, "encs": list(encs), "sep": sep, "values": vals}
    viol = lambda what, cls: _viol(ctx, what, cls, data)
    name = DUP_IDS[fid] if src == 2 else fid
    frames = [("TAL" if src == 2 else "TALB", b"\0" + etext(0, "bystander"))]
    for e, v in zip(encs, vals):
        frames.append((name, bytes([e]) + (etext(e, desc) if fid == "TXXX" else b"") + etext(e, v)))
    raw0 = {2: build_v22, 3: build_v23, 4: build_v24}[src](frames) + AUDIO
    data["source"] = raw0[:len(raw0) - len(AUDIO)].hex()
    how = "two" if len(encs) == 2 else "three"
    ctx.oracle_cases += 1
    ctx.count("oracle:dup-v2.%d->v2.%d" % (src, dst))
    ctx.case(("dup", case_seed, fid, src, dst, encs, sep))
    try:
        if dst == 3 and not via24:
            t = I.ID3(io.BytesIO(raw0), v2_version=3)
        else:
            t = I.ID3(io.BytesIO(raw0))
            if dst == 3:
                t.update_to_v23()
    except Exception as e:
        data["detail"] = repr(e)[:200]
        viol("loading a v2.%d tag with %s %s frames failed: %s" % (src, how, fid, type(e).__name__), "dup-load-failed")
        return 1
    try:
        f = io.BytesIO(raw0)
        t.save(f, v1=0, v2_version=dst, v23_sep=sep)
    except Exception as e:
        data["detail"] = repr(e)[:200]
        viol("a v2.%d tag with %s %s frames in different encodings cannot be saved as v2.%d: %s" % (src, how, fid, dst, type(e).__name__), "dup-save-failed")
        return 1
    try:
        w = W.id3v2_walk(f.getvalue())
        dec = [dec_frame(i, dst, p) for i, fl, p in w["frames"]]
    except W.Bad as e:
        data["detail"] = str(e)[:200]
        viol("the v2.%d tag saved from a v2.%d source with duplicate %s frames is not walkable / decodable" % (dst, src, fid), "sizes")
        return 1
    if w["version"] != dst:
        viol("saved tag declares version 2.%d, asked for 2.%d" % (w["version"], dst), "version-byte")
    got = [fr for fr in dec if (fr[0] == "X" and fr[2] == desc) or (fr[0] == "T" and fr[1] == fid)]
    uniq = []
    for v in vals:
        if v not in uniq:
            uniq.append(v)
    want = tuple(uniq) if (dst == 4 or sep is None) else (sep.join(uniq),)
    if len(got) != 1:
        viol("the duplicate %s frames of a v2.%d tag are written as %d frames in the v2.%d tag" % (fid, src, len(got), dst), "dup-frames")
    elif got[0][3] != want:
        data["detail"] = repr(got[0][3])[:200]
        viol("the values of the duplicate %s frames of a v2.%d tag do not all arrive, in order, in the v2.%d tag" % (fid, src, dst), "dup-values")
    elif dst == 3 and got[0][2 if fid != "TXXX" else 1] not in (0, 1):
        viol("v2.3 tag contains a text encoding other than Latin-1 / UTF-16", "encoding")
    if not any(fr[0] == "T" and fr[1] == "TALB" and fr[3] == ("bystander",) for fr in dec):
        viol("a frame next to the duplicate %s frames is not preserved" % fid, "dup-bystander")
    return len(ctx.violations) - before


def oracle_dups(ctx, n):
    rng = ctx.rng
    fids = sorted(DUP_IDS)
    for k in range(n):
        cs = rng.getrandbits(40)
        for a, src in enumerate((2, 3, 4)):
            orders = dup_enc_orders(src)
            if src == 4:
                orders = [orders[(k * 7 + 11 * j) % len(orders)] for j in range(8)]
            for j, encs in enumerate(orders):
                for b, dst in enumerate((4, 3)):
                    oracle_dup(ctx, cs, fids[(k + j + a) % len(fids)], src, dst, encs, (None, "/", ";")[(k + j + b) % 3])
            if len(ctx.violations) > 40:
                return


# ---- frames mutagen has no class for (kept as raw bytes of the SOURCE version) and pictures of every type
def with_padding(tag, n):
    """the same tag with n bytes of padding inside the declared size"""
    size = W.syncsafe(tag[6:10]) + n
    return tag[:6] + syncsafe4(size) + tag[10:] + b"\0" * n


UNKNOWN_SIZES = [1, 127, 128, 300, 16384]
UNKNOWN_IDS = {2: ["XYZ", "ZZ9"], 3: ["XABC", "ZZ99"], 4: ["XABC", "ZZ99"]}


def oracle_unknown(ctx, case_seed, src, dst, size, pad, exclude):
    """a hand-built v2.<src> tag with known text frames and frames of unknown ids (payload `size` bytes, and a small one), optionally TPE1 made
    unknown through known_frames, is loaded and saved as v2.<dst>: the written tag is valid for ITS version for an independent reader (frames tile
    the tag under that version's size format), every known frame's value survives, and an unknown frame that is carried over is in the target
    version's format (same id -> same payload, flags 0). Whether an unknown frame is carried over or dropped is the library's choice."""
    I = M()[0]
    before = len(ctx.violations)
    rng = random.Random(case_seed * 977 + size * 31 + src * 7 + dst)
    data = {"unk_seed": case_seed, "src": src, "dst": dst, "size": size, "pad": pad, "exclude": exclude}
    viol = lambda what, cls: _viol(ctx, what, cls, data)
    names = {2: ("TT2", "TAL", "TP1"), 3: ("TIT2", "TALB", "TPE1"), 4: ("TIT2", "TALB", "TPE1")}[src]
    title, album, artist = ["".join(rng.choice(LATIN.replace("/", "")) for _ in range(rng.randrange(1, 9))).strip() or "x" for _ in range(3)]
    ids = UNKNOWN_IDS[src]
    payloads = {ids[0]: bytes(rng.randrange(1, 256) for _ in range(size)), ids[1]: bytes(rng.randrange(1, 256) for _ in range(rng.choice([1, 5, 130])))}
    frames = [(names[0], b"\0" + etext(0, title)), (ids[0], payloads[ids[0]]), (names[1], b"\0" + etext(0, album)), (names[2], b"\0" + etext(0, artist))]
    if rng.random() < 0.6:
        frames.insert(rng.randrange(len(frames) + 1), (ids[1], payloads[ids[1]]))
    tag = {2: build_v22, 3: build_v23, 4: build_v24}[src](frames)
    if pad:
        tag = with_padding(tag, pad)
    raw0 = tag + AUDIO
    if size <= 300:
        data["source"] = tag.hex()
    exclude = bool(exclude and src != 2)
    ctx.oracle_cases += 1
    ctx.count("oracle:unknown-v2.%d->v2.%d" % (src, dst))
    ctx.case(("unknown", case_seed, src, dst, size, pad, exclude))
    try:
        kw = {}
        if exclude:
            kf = dict(I.Frames)
            del kf["TPE1"]
            kw["known_frames"] = kf
        if dst == 3 and rng.random() < 0.5:
            t = I.ID3(io.BytesIO(raw0), v2_version=3, **kw)
        else:
            t = I.ID3(io.BytesIO(raw0), **kw)
            if dst == 3:
                t.update_to_v23()
        f = io.BytesIO(raw0)
        t.save(f, v1=0, v2_version=dst)
    except Exception as e:
        data["detail"] = repr(e)[:200]
        viol("loading a v2.%d tag with unknown frames and saving it as v2.%d failed: %s" % (src, dst, type(e).__name__), "unknown-failed")
        return 1
    raw = f.getvalue()
    try:
        w = W.id3v2_walk(raw)
    except W.Bad as e:
        data["detail"] = str(e)[:200]
        viol("a v2.%d tag with an unknown frame of %d bytes saved as v2.%d is not a valid v2.%d tag: its frames do not tile the tag under %s sizes" % (
            src, size, dst, dst, "plain 32-bit" if dst == 3 else "syncsafe"), "sizes")
        return 1
    if w["version"] != dst or w["flags"] != 0:
        viol("saved tag declares version 2.%d flags %#x, asked for 2.%d" % (w["version"], w["flags"], dst), "version-byte")
    if raw[w["size"]:] != AUDIO:
        viol("the audio behind the tag is not what it was", "audio-changed")
    seen = {}
    for i, fl, p in w["frames"]:
        seen.setdefault(i, []).append((fl, bytes(p)))
    want = {"TIT2": title, "TALB": album}
    if not exclude:
        want["TPE1"] = artist
    for i, v in want.items():
        got = seen.get(i, [])
        try:
            ok = len(got) == 1 and dec_frame(i, dst, got[0][1])[3] == (v,)
        except W.Bad:
            ok = False
        if not ok:
            viol("the known frame %s next to an unknown frame does not survive v2.%d -> v2.%d" % (i, src, dst), "unknown-known-lost")
    carried = dict(payloads)
    if exclude:
        carried["TPE1"] = b"\0" + etext(0, artist)
    for i, pl in carried.items():
        for fl, p in seen.get(i, []):
            if p != pl or fl != 0:
                data["detail"] = "frame %s: %d bytes written, %d in the source, flags %#x" % (i, len(p), len(pl), fl)
                viol("an unknown frame of a v2.%d tag carried over into the v2.%d tag is not in the v2.%d format (size field / flags of the source version)" % (
                    src, dst, dst), "unknown-wrong-format")
    if set(seen) - set(want) - set(carried):
        viol("the saved tag contains frames the source did not have", "unknown-extra")
    return len(ctx.violations) - before


PIC_FORMATS = ["PNG", "JPG", "GIF"]


def oracle_pic(ctx, case_seed, src, dst, ptype, fmt):
    """a v2.2 PIC (three-letter image format) / a v2.3 APIC whose mime is the v2.2 format, of picture type <ptype>, converted to v2.<dst>:
    the APIC decoded independently carries the source's picture type, description and data, mime image/png / image/jpeg for PNG / JPG"""
    I = M()[0]
    before = len(ctx.violations)
    rng = random.Random(case_seed * 613 + ptype * 17 + src)
    data = {"pic_seed": case_seed, "src": src, "dst": dst, "ptype": ptype, "fmt": fmt}
    viol = lambda what, cls: _viol(ctx, what, cls, data)
    e = rng.choice([0, 1])
    al = "abc XYZ\u00e9" if e == 0 else "abc \u4e2d\u20ac"
    pics = []
    for j in range(rng.choice([1, 2])):
        desc = ("d%d" % j + "".join(rng.choice(al) for _ in range(rng.randrange(0, 6)))).strip() if (j or rng.random() < 0.8) else ""
        pics.append(((ptype + 7 * j) % 21, PIC_FORMATS[(PIC_FORMATS.index(fmt) + j) % 3], desc, bytes(rng.randrange(1, 256) for _ in range(rng.choice([5, 127, 128, 300])))))
    title = "pic title"
    frames = [("TT2" if src == 2 else "TIT2", b"\0" + etext(0, title))]
    for pt, fm, desc, img in pics:
        mime = fm.encode() if src == 2 else fm.encode() + b"\0"
        frames.append(("PIC" if src == 2 else "APIC", bytes([e]) + mime + bytes([pt]) + etext(e, desc) + img))
    tag = (build_v22 if src == 2 else build_v23)(frames)
    raw0 = tag + AUDIO
    data["source"] = tag.hex() if len(tag) < 400 else tag[:400].hex() + "..."
    ctx.oracle_cases += 1
    ctx.count("oracle:pic-v2.%d->v2.%d" % (src, dst))
    ctx.case(("pic", case_seed, src, dst, ptype, fmt))
    try:
        if dst == 3 and rng.random() < 0.5:
            t = I.ID3(io.BytesIO(raw0), v2_version=3)
        else:
            t = I.ID3(io.BytesIO(raw0))
            if dst == 3:
                t.update_to_v23()
        f = io.BytesIO(raw0)
        t.save(f, v1=0, v2_version=dst)
        w = W.id3v2_walk(f.getvalue())
        dec = [dec_frame(i, dst, p) for i, fl, p in w["frames"]]
    except W.Bad as ex:
        data["detail"] = str(ex)[:200]
        viol("the v2.%d tag saved from a v2.%d source with pictures is not walkable / decodable" % (dst, src), "sizes")
        return 1
    except Exception as ex:
        data["detail"] = repr(ex)[:200]
        viol("loading a v2.%d tag with pictures and saving it as v2.%d failed: %s" % (src, dst, type(ex).__name__), "pic-failed")
        return 1
    apics = [fr for fr in dec if fr[0] == "A"]
    if len(apics) != len(pics):
        viol("a v2.%d tag with %d pictures has %d APIC frames after the conversion to v2.%d" % (src, len(pics), len(apics), dst), "pic-count")
    for pt, fm, desc, img in pics:
        got = [a for a in apics if a[4] == desc]
        if len(got) != 1 or got[0][5] != img:
            viol("description / data of a v2.%d picture do not survive the conversion to v2.%d" % (src, dst), "pic-data")
            continue
        if got[0][3] != pt:
            data["detail"] = "picture type %d written, %d in the source (format %s)" % (got[0][3], pt, fm)
            viol("the picture type of a v2.%d picture with the image format %s is not preserved in the v2.%d tag" % (src, fm if fm in ("PNG", "JPG") else "other", dst), "pic-type")
        wantm = {"PNG": ("image/png",), "JPG": ("image/jpeg",)}.get(fm, (fm, "image/" + fm.lower()))
        if got[0][2] not in wantm:
            viol("the v2.2 image format %s does not become the mime type %s" % (fm, wantm[0]), "pic-mime")
    if not any(fr[0] == "T" and fr[1] == "TIT2" and fr[3] == (title,) for fr in dec):
        viol("a text frame next to the pictures is not preserved", "pic-bystander")
    return len(ctx.violations) - before


def oracle_unknown_pics(ctx, n):
    rng = ctx.rng
    for k in range(n):
        cs = rng.getrandbits(40)
        for j, (src, dst) in enumerate(((4, 3), (4, 4), (3, 4), (3, 3), (2, 4), (2, 3))):
            for a, size in enumerate(UNKNOWN_SIZES):
                for b, pad in enumerate((0, (10, 700, 1)[(k + a) % 3])):
                    oracle_unknown(ctx, cs, src, dst, size, pad, (k + j + a + b) % 2)
        for ptype in range(21):
            for src in (2, 3):
                for dst in (4, 3):
                    oracle_pic(ctx, cs, src, dst, ptype, PIC_FORMATS[(k + ptype + src + dst) % 3])
        if len(ctx.violations) > 40:
            return


def oracle_sample(ctx, name):
    """a sample file with a v2.2 / v2.3 tag: save as v2.4; text frames and the year keep their values, sizes are syncsafe"""
    I = M()[0]
    from common import REPO
    path = os.path.join(REPO, "tests", "data", name)
    if not os.path.exists(path):
        return 0
    before = len(ctx.violations)
    raw0 = open(path, "rb").read()
    viol = lambda what, cls: _viol(ctx, what, cls, {"sample": name})
    try:
        w0 = W.id3v2_walk(raw0)
    except W.Bad:
        return 0
    src = w0["version"]
    old = {}
    for i, fl, p in w0["frames"]:
        if fl:
            continue
        i4 = V22_IDS.get(i, i) if src == 2 else i
        if i4[0] == "T" and i4 not in ("TXXX", "TYER", "TYE", "TCON", "TCO", "TDAT", "TIME", "TORY") and len(i4) == 4 and len(p) > 1:
            try:
                vals = [v for v in W._text_list(p[0], p[1:]) if v]
            except Exception:
                continue
            if vals:
                old.setdefault(i4, []).extend(vals)
        if i in ("TYE", "TYER") and len(p) > 1:
            try:
                old["year"] = W._text_list(p[0], p[1:])[0]
            except Exception:
                pass
    try:
        t = I.ID3(io.BytesIO(raw0), load_v1=False)
        f = io.BytesIO(raw0)
        t.save(f, v1=0, v2_version=4)
        w = W.id3v2_walk(f.getvalue())
    except W.Bad as e:
        viol("sample %s saved as v2.4 is not walkable with syncsafe sizes" % name, "sizes")
        return 1
    except Exception as e:
        viol("sample %s could not be saved as v2.4: %s" % (name, type(e).__name__), "sample-failed")
        return 1
    ctx.oracle_cases += 1
    ctx.count("oracle:sample-v2.%d->v2.4" % src)
    ctx.case(("sample", name))
    new = {}
    for i, fl, p in w["frames"]:
        if i[0] == "T" and i != "TXXX":
            new.setdefault(i, []).extend(W._text_list(p[0], p[1:]))
    if w["version"] != 4:
        viol("sample saved as v2.4 declares version %d" % w["version"], "version-byte")
    for i, vals in old.items():
        if i == "year":
            if re.fullmatch(r"[0-9]{4}", vals) and (new.get("TDRC") or [""])[0][:4] != vals:
                viol("the year of a v2.%d sample is not carried into TDRC" % src, "sample-year")
        elif [v for v in new.get(i, [])] != vals and sorted(set(new.get(i, []))) != sorted(set(vals)):
            viol("text frame of a v2.%d sample is not preserved in the v2.4 tag" % src, "sample-text")
    return len(ctx.violations) - before


def direct_oracle(ctx, n_tags, n_hand):
    rng = ctx.rng
    combos = [(v2, sep, v1, ex) for v2 in (3, 4) for sep in SEPS for v1 in (0, 1, 2) for ex in ["empty", "audio", "audio+v1"] + EX_V1]
    for k in range(n_tags):
        cs = rng.getrandbits(48)
        # every version x separator once per tag, ID3v1 option / existing content rotated; plus two random combinations
        todo = [(v2, sep, (k + j) % 3, ("empty", "audio", "audio+v1")[(k + 2 * j) % 3]) for j, (v2, sep) in enumerate((a, b) for a in (3, 4) for b in SEPS)
                if v2 == 3 or sep == "/"]
        todo += [rng.choice(combos) for _ in range(2)]
        # an existing ID3v1 block of every degree of blankness: update (v1=1) must rewrite it, 0 must remove it, 2 must write it -- both targets
        todo += [((3, 4)[k % 2], "/", 1, EX_V1[k % len(EX_V1)]), ((4, 3)[k % 2], SEPS[k % len(SEPS)], 1, EX_V1[(k // 2 + 1) % len(EX_V1)]),
                 ((3, 4)[(k // 2) % 2], "/", (0, 2)[k % 2], EX_V1[(k + 2) % len(EX_V1)])]
        for v2, sep, v1, ex in todo:
            if oracle_case(ctx, cs, v2, sep, v1, ex) and len(ctx.violations) > 40:
                return
        # histories on the same object: every mode once per tag, separator / ID3v1 option / existing content rotated
        for j, mode in enumerate(HIST_MODES):
            if oracle_history(ctx, cs, mode, SEPS[(k + j) % len(SEPS)], (0, 2, 1)[(k + j) % 3], (["audio", "empty", "audio+v1"] + EX_V1)[(k + 3 * j) % (3 + len(EX_V1))]) and len(ctx.violations) > 40:
                return
    for k in range(n_hand):
        cs = rng.getrandbits(48)
        for a, src in enumerate((2, 3, 4)):
            for b, dst in enumerate((4, 3)):
                oracle_hand(ctx, cs, src, dst)
                oracle_hand(ctx, cs, src, dst, None, "default")
                # the same source followed by an ID3v1 block: every year relation x filled/blank with the default load, two of them with v2_version=dst
                for v1src in V1SRC:
                    oracle_hand(ctx, cs, src, dst, v1src, "default")
                for j in range(2):
                    oracle_hand(ctx, cs, src, dst, V1SRC[(k + a + 2 * b + 3 * j) % len(V1SRC)], "v2ver")
                # the ID3v1 option: blocks of every degree of blankness must survive an update (v1=1) and reflect the v2 fields; 0 removes, 2 writes
                for j, v1src in enumerate(V1SRC_BLANKISH):
                    oracle_hand(ctx, cs, src, dst, v1src, "default", 1)
                    oracle_hand(ctx, cs, src, dst, v1src, ("default", "v2ver")[(k + j) % 2], (0, 2)[(k + j + a) % 2])
                oracle_hand(ctx, cs, src, dst, None, "default", (1, 0)[k % 2])
                oracle_hand(ctx, cs, src, dst, V1SRC[(k + a) % len(V1SRC)], "default", (0, 1)[(k + b) % 2])
                if len(ctx.violations) > 40:
                    return
    oracle_dups(ctx, max(4, n_hand // 2))
    oracle_unknown_pics(ctx, max(2, n_hand // 8))
    for name in SAMPLES:
        oracle_sample(ctx, name)
    # regression case of the fixed finding: the comment of a plain tag must reach the ID3v1 block
    I = M()[0]
    t = I.ID3(); t.add(I.TIT2(encoding=3, text=["Title"])); t.add(I.COMM(encoding=3, lang="eng", desc="", text=["hello comment"]))
    f = io.BytesIO(); t.save(f, v1=2)
    ctx.oracle_cases += 1
    if f.getvalue()[-128:][97:110] != b"hello comment":
        _viol(ctx, "ID3v1 block does not reflect the v2 comment", "v1-comment-not-written", {"fixed_case": "TIT2+COMM(desc='')"})
    # regression case of the second fixed finding: text frames without values must not make the ID3v1 writer fail
    for fid in ("TIT2", "TPE1", "TALB", "TRCK"):
        t = I.ID3(); t.add(getattr(I, fid)(encoding=3, text=[])); t.add(I.TCON(encoding=3, text=["Rock"]))
        f = io.BytesIO()
        ctx.oracle_cases += 1
        try:
            t.save(f, v1=2)
            blk = f.getvalue()[-128:]
            ok = blk[:3] == b"TAG" and blk[3:93] == b"\0" * 90 and blk[126] == 0 and blk[127] == 17
        except Exception as e:
            ok = False
        if not ok:
            _viol(ctx, "saving with an ID3v1 block fails or is wrong for a text frame without values", "v1-empty-text", {"fixed_case": fid + "(text=[])"})


# ------------------------------------------------------------------------------------------------ (V) vm_compute shard
def coq_text(s):
    return "[" + ";".join(str(ord(c)) for c in s) + "]"


def coq_list(f, l):
    return "[" + ";".join(f(x) for x in l) + "]"


def coq_opt(o):
    return "None" if o is None else "(Some (%d))" % o


def coq_frame(fr):
    k = fr[0]
    if k == "T":
        return "(FText %s %d %s)" % (coq_text(fr[1]), fr[2], coq_list(coq_text, fr[3]))
    if k == "S":
        return "(FStamp %s %d %s)" % (coq_text(fr[1]), fr[2], coq_list(lambda d: "(mkStamp %s)" % " ".join(coq_opt(x) for x in d), fr[3]))
    if k == "X":
        return "(FTxxx %d %s %s)" % (fr[1], coq_text(fr[2]), coq_list(coq_text, fr[3]))
    if k == "C":
        return "(FComm %d %s %s %s)" % (fr[1], coq_text(fr[2]), coq_text(fr[3]), coq_list(coq_text, fr[4]))
    if k == "P":
        return "(FPeople %s %d %s)" % (coq_text(fr[1]), fr[2], coq_list(lambda ab: "(%s,%s)" % (coq_text(ab[0]), coq_text(ab[1])), fr[3]))
    if k == "A":
        return "(FApic %d %s %d %s %s)" % (fr[1], coq_text(fr[2]), fr[3], coq_text(fr[4]), coq_list(str, fr[5]))
    if k == "H":
        return "(FChap %s %d %d %d %d %s)" % (coq_text(fr[1]), fr[2], fr[3], fr[4], fr[5], coq_list(coq_frame, fr[6]))
    if k == "O":
        return "(FCtoc %s %d %s %s)" % (coq_text(fr[1]), fr[2], coq_list(coq_text, fr[3]), coq_list(coq_frame, fr[4]))
    return "(FOther %s %s %s)" % (coq_text(fr[1]), coq_text(fr[2]), coq_list(str, fr[3]))


def ser_text(s):
    return [len(s)] + [ord(c) for c in s]


def ser_opt(o):
    return [0] if o is None else [1, o]


def ser_frame(fr):
    k = fr[0]
    sl = lambda f, l: [len(l)] + [y for x in l for y in f(x)]
    if k == "T":
        return [1] + ser_text(fr[1]) + [fr[2]] + sl(ser_text, fr[3])
    if k == "S":
        return [2] + ser_text(fr[1]) + [fr[2]] + sl(lambda d: [y for x in d for y in ser_opt(x)], fr[3])
    if k == "X":
        return [3, fr[1]] + ser_text(fr[2]) + sl(ser_text, fr[3])
    if k == "C":
        return [4, fr[1]] + ser_text(fr[2]) + ser_text(fr[3]) + sl(ser_text, fr[4])
    if k == "P":
        return [5] + ser_text(fr[1]) + [fr[2]] + sl(lambda ab: ser_text(ab[0]) + ser_text(ab[1]), fr[3])
    if k == "A":
        return [6, fr[1]] + ser_text(fr[2]) + [fr[3]] + ser_text(fr[4]) + [len(fr[5])] + list(fr[5])
    if k == "H":
        return [7] + ser_text(fr[1]) + [fr[2], fr[3], fr[4], fr[5], len(fr[6])] + [y for x in fr[6] for y in ser_frame(x)]
    if k == "O":
        return [8] + ser_text(fr[1]) + [fr[2]] + sl(ser_text, fr[3]) + [len(fr[4])] + [y for x in fr[4] for y in ser_frame(x)]
    return [9] + ser_text(fr[1]) + ser_text(fr[2]) + [len(fr[3])] + list(fr[3])


def ser_tag(frames):
    return [len(frames)] + [y for x in frames for y in ser_frame(x)]


def vm_crosscheck(ctx):
    """the extracted binary must agree with the kernel's own evaluator on the same cases"""
    rng = random.Random(ctx.rng.getrandbits(48))
    G = genres_table()[:20]
    Gp = p_list(p_text, G)
    Gc = coq_list(coq_text, G)
    cases, expect = [], []
    for k in range(24):
        desc = gen_desc(rng)
        c0 = canon(build_tag(desc))
        if len(p_tag(c0)) > 2500:
            continue
        tc = coq_list(coq_frame, c0)
        for op, fn in (("c13_u23", "conv_update_to_v23"), ("c13_u24", "conv_update_to_v24")):
            r = model_tag(ctx, op, Gp, p_tag(c0))
            if isinstance(r, str):
                continue
            cases.append("conv_ser_tag (%s %s %s)" % (fn, Gc, tc))
            expect.append(ser_tag(r))
        r = model_tag(ctx, "c13_saved", "3", p_text(" / "), p_tag(c0))
        if not isinstance(r, str):
            cases.append("conv_ser_tag (conv_saved23 (Some %s) %s)" % (coq_text(" / "), tc))
            expect.append(ser_tag(r))
        r = ctx.model.call("c13_mk1", Gp, p_tag(c0))
        cases.append("match conv_make_id3v1 %s %s with Ok b => 1 :: b | Raise _ => [0] end" % (Gc, tc))
        expect.append(([1] + list(unhx(r[3:]))) if r.startswith("ok ") else [0])
    pre = "From Coq Require Import ZArith List. Import ListNotations. Require Import Base.Py Model.Id3Util Model.Id3Conv. Open Scope Z_scope."
    res, log = vm_shard("c13", pre, cases)
    if res is None or len(res) != len(cases):
        _dis(ctx, "c13.vm_shard", "vm_compute shard failed to run: %s" % (log,), {})
        return
    for want, r in zip(expect, res):
        ctx.vm_cases += 1
        m = re.match(r"\[(.*)\]$", r.replace("%Z", "").strip())
        got = [int(x) for x in m.group(1).split(";") if x.strip()] if m else None
        if got != want:
            _dis(ctx, "c13.vm_shard", "extracted binary and vm_compute differ: vm=%r binary=%r" % (str(got)[:200], str(want)[:200]), {})
            return


# ------------------------------------------------------------------------------------------------ entry points
def correspondence(ctx, n):
    for _ in range(n):
        corr_tag(ctx, gen_desc(ctx.rng))
    corr_small(ctx, max(40, n // 4))
    for _ in range(n):
        corr_parse(ctx, gen_v1_block(ctx.rng))


def run(ctx):
    if ctx.thorough:
        correspondence(ctx, 2500)
        direct_oracle(ctx, 700, 150)
    else:
        correspondence(ctx, 350)
        direct_oracle(ctx, 90, 25)
    vm_crosscheck(ctx)


def search(ctx, broken):
    """a proof or the correspondence broke: look for a concrete input on which the PROPERTY fails (implementation only)"""
    before = len(ctx.violations)
    direct_oracle(ctx, 400, 100)
    ctx.notes["search"] = "direct oracle over 400 further tags x versions x separators x ID3v1 options, 100 hand-built v2.2/v2.3 tags and the samples found %d failing inputs" % (len(ctx.violations) - before)


def replay(ctx, payload):
    d = payload.get("data", {})
    if payload.get("kind") != "failing-input":
        ctx.use_model = False
        direct_oracle(ctx, 90, 25)
        return bool(ctx.violations)
    if "case_seed" in d:
        return oracle_case(ctx, d["case_seed"], d["v2"], d["sep"], d["v1"], d["existing"]) > 0
    if "hist_seed" in d:
        return oracle_history(ctx, d["hist_seed"], d["mode"], d["sep"], d["v1"], d["existing"]) > 0
    if "unk_seed" in d:
        return oracle_unknown(ctx, d["unk_seed"], d["src"], d["dst"], d["size"], d["pad"], d["exclude"]) > 0
    if "pic_seed" in d:
        return oracle_pic(ctx, d["pic_seed"], d["src"], d["dst"], d["ptype"], d["fmt"]) > 0
    if "dup_seed" in d:
        return oracle_dup(ctx, d["dup_seed"], d["fid"], d["src"], d["dst"], d["encs"], d["sep"]) > 0
    if "hand_seed" in d:
        return oracle_hand(ctx, d["hand_seed"], d["src"], d["dst"], d.get("v1src"), d.get("load", "explicit"), d.get("v1opt", 2)) > 0
    if "sample" in d:
        return oracle_sample(ctx, d["sample"]) > 0
    direct_oracle(ctx, 0, 0)
    return bool(ctx.violations)


def coverage_extra(ctx):
    return {"exhaustive": False,
            "model_partial": "date-time granularity (first value, no seconds, complete date needed for the time), idempotence under the stated TCON precondition"}
