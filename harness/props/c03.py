"""C03 -- Files stay structurally valid through any edit history (whole-file property; shared engine)"""
from props import _wholefile as W

PROP = "C03"
PROP_FILES = W.prop_files(PROP)
_m = W.make(PROP)
run, search, replay, coverage_extra = _m.run, _m.search, _m.replay, _m.coverage_extra
RULE = W.RULE
TRUSTED = ["hand-written family models coq/model/Fam_*.v (modelled, tied by byte-exact correspondence)",
           "independent walkers/validators/decoders harness/fam/walkers.py (direct oracle)"]
MANIFEST = {
    "text": 'full per family with a model (F_wf preserved by every step, lifted to all finite histories by induction); partial overall: remaining families by the direct oracle (independent validators incl. Ogg CRC/sequence, atom/chunk/object size accounting, FLAC last-block flag, APEv2 header=footer, DSF total size)',
    "note": W.TB_NOTE,
    "technique": "Coq proofs over per-family byte-exact reference models (splice skeleton over py2v-generated resize_bytes) + extracted-model correspondence + independent-walker oracle on random edit histories",
}
if not PROP_FILES:
    MANIFEST = {"not_applicable": "no family theorem file coq/props/C03_*.v is built yet in this commit (direct oracle exists; claimed once a theorem exists)"}
