"""C07 -- Saving unchanged tags is lossless and idempotent (whole-file property; shared engine)"""
from props import _wholefile as W

PROP = "C07"
PROP_FILES = W.prop_files(PROP)
_m = W.make(PROP)
run, search, replay, coverage_extra = _m.run, _m.search, _m.replay, _m.coverage_extra
RULE = W.RULE
TRUSTED = ["hand-written family models coq/model/Fam_*.v (modelled, tied by byte-exact correspondence)",
           "independent walkers/validators/decoders harness/fam/walkers.py (direct oracle)"]
MANIFEST = {
    "text": 'full per family with a model (lossless + idempotent save theorems using the proved default-padding idempotence; order independence where the format sorts); partial overall: remaining families by the direct oracle (triple save byte comparison, raw unknown data retention, ID3/APEv2 insertion-order permutations)',
    "note": W.TB_NOTE,
    "technique": "Coq proofs over per-family byte-exact reference models (splice skeleton over py2v-generated resize_bytes) + extracted-model correspondence + independent-walker oracle on random edit histories",
}
if not PROP_FILES:
    MANIFEST = {"not_applicable": "no family theorem file coq/props/C07_*.v is built yet in this commit (direct oracle exists; claimed once a theorem exists)"}
