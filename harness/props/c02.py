"""C02 -- Saving or deleting never alters audio or foreign data (whole-file property; shared engine)"""
from props import _wholefile as W

PROP = "C02"
PROP_FILES = W.prop_files(PROP)
_m = W.make(PROP)
run, search, replay, coverage_extra = _m.run, _m.search, _m.replay, _m.coverage_extra
RULE = W.RULE
TRUSTED = ["hand-written family models coq/model/Fam_*.v (modelled, tied by byte-exact correspondence)",
           "independent walkers/validators/decoders harness/fam/walkers.py (direct oracle)"]
MANIFEST = {
    "text": 'full per family with a model (theorem: foreign elements and audio byte-identical and in order after F_save/F_delete, via the splice skeleton proved over the regenerated resize_bytes); partial overall until every family has a model: remaining families by the direct oracle (independent segmentation before/after every operation)',
    "note": W.TB_NOTE,
    "technique": "Coq proofs over per-family byte-exact reference models (splice skeleton over py2v-generated resize_bytes) + extracted-model correspondence + independent-walker oracle on random edit histories",
}
if not PROP_FILES:
    MANIFEST = {"not_applicable": "no family theorem file coq/props/C02_*.v is built yet in this commit (direct oracle exists; claimed once a theorem exists)"}
