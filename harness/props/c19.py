"""C19 -- Running out of space while growing leaves the file as it was.
Theorems: props/C19.v over the regenerated Gen_util on a capacity-limited file object.
Correspondence: generated model vs mutagen._util on a capacity-limited BytesIO, exhaustive small domain.
Direct oracle: format-level saves on a capacity-limited stream for every remaining-capacity value."""
import io, copy, errno
import mutagen
from common import zs, hx, unhx
from fam import kinds as KM, shared
from fam.kinds import KINDS
from fam.fileobjs import Cap
from fam.engine import safe_walk, foreign_preserved
from props.c11 import patched_buf

PROP = "C19"
PROP_FILES = ["props/C19.v"]
TRUSTED = [
    "Gen_util.v is regenerated from mutagen/_util.py on every run; the capacity-limited file object (Base.FileModel c_cap/c_partial) is modelled and tied by exhaustive correspondence with a Python stream raising OSError(ENOSPC)",
    "format-level saves are NOT modelled as monadic programs: that each listed format runs the proved skeleton (enlarge, then overwrite) is established by the direct oracle over every capacity value, not by a theorem",
]
RULE_EXTRA = ("each attempt uses a freshly loaded object (not every loaded object can be deep-copied: FLAC cue sheets); FLAC files with an ID3v2 prefix are also "
              "saved with deleteid3=True. ")
RULE = ("correspondence: resize_file/insert_bytes/resize_bytes on files of length <= L for every argument tuple that grows the file, every capacity "
        "in [len, len+growth) and partial-write counts {0,1,3}, BUF in a small set; bytes, exception (errno) and position compared. "
        "direct oracle: every kind x sample x tag growth (a few bytes, ~3 KB, ~70 KB with a patched small copy buffer): one save per remaining-capacity "
        "value 0..growth-1 (all values when growth <= 400, else the first 60, a stride, and the last 20) x partial-write variants; listed formats "
        "must leave the file byte-identical and raise MutagenError, the others must keep the audio/foreign data. non-trivial = the save needed to grow the file; "
        "distinct by (kind, sample, growth, capacity, partial). " + RULE_EXTRA)
MANIFEST = {
    "text": "model full, runtime partial: theorems (all capacities inside the growth window, all partial-write counts, all buffer sizes) for the regenerated "
            "resize_file/insert_bytes and for the resize-then-overwrite skeleton every contiguous-region save uses; that each listed format follows the skeleton "
            "and the 'audio intact' clause for the remaining formats are decided by the direct oracle at every capacity value",
    "note": "Not covered: a second ENOSPC inside truncate's own flush on a real buffered file, copy-on-write file systems, delayed allocation -- runtime "
            "behaviour the model cannot exhibit. The capacity-limited stream of the oracle raises at write() time like an unbuffered device.",
    "technique": "Coq proof over py2v-generated Gallina on a capacity-limited file monad + exhaustive correspondence + per-capacity fault enumeration on format saves",
}

LISTED_KINDS = {"MP3", "TrueAudio", "ID3", "FLAC", "MP4", "ASF"}
CHUNK_KINDS = {"AIFF", "WAVE", "DSDIFF"}
OGG_KINDS = {"OggVorbis", "OggOpus", "OggSpeex", "OggTheora", "OggFLAC"}


def run_model(ctx, fn, data, args, buf, cap, partial):
    r = ctx.model.call("util", fn, "0", zs(cap), zs(partial), "-", "-", zs(buf), "0", hx(data), *[zs(a) for a in args])
    if r.startswith("error"):
        return r, None, None
    parts = r.split(" ")
    return " ".join(parts[:-2]), int(parts[-2].split("=", 1)[1], 16), unhx(parts[-1].split("=", 1)[1])


def run_impl(U, fn, data, args, cap, partial):
    f = Cap(bytes(data), cap, partial)
    try:
        getattr(U, fn)(f, *args)
        res = "ok"
    except ValueError:
        res = "raise ValueError"
    except OSError as e:
        res = "raise OSError:%s" % (e.errno or 0)
    pos = f.tell()
    return res, pos, f.getvalue()


def correspondence(ctx, maxlen, bufs):
    import mutagen._util as U
    for buf in bufs:
        with patched_buf(U, buf):
            for n in range(0, maxlen + 1):
                data = bytes(range(1, n + 1))
                cases = [("resize_file", (d,)) for d in range(1, 6)]
                cases += [("insert_bytes", (s, o)) for s in range(1, 5) for o in range(0, n + 1)]
                cases += [("resize_bytes", (old, new, off)) for off in range(0, n + 1) for old in range(0, n - off + 1) for new in range(old + 1, old + 4)]
                for fn, args in cases:
                    growth = args[0] if fn != "resize_bytes" else args[1] - args[0]
                    for cap in range(n, n + growth + 1):
                        for partial in (0, 1, 3):
                            ri = run_impl(U, fn, data, args, cap, partial)
                            rm = run_model(ctx, fn, data, args, buf, cap, partial)
                            ctx.corr_cases += 1
                            ctx.count("corr:" + fn)
                            ctx.case((fn, n, args, buf, cap, partial))
                            if ri != rm and len(ctx.disagreements) < 5:
                                ctx.disagree("c19.util", "%s%r buf=%d cap=%d partial=%d on %d bytes: impl=%s model=%s" % (
                                    fn, args, buf, cap, partial, n, (ri[0], ri[1], ri[2].hex()), (rm[0], rm[1], rm[2].hex() if rm[2] is not None else None)),
                                    {"fn": fn, "n": n, "args": list(args), "buf": buf, "cap": cap, "partial": partial})
                            # direct oracle on the primitive: ENOSPC inside the window leaves the file as it was
                            if cap < n + growth:
                                if not ri[0].startswith("raise OSError:%d" % errno.ENOSPC) or ri[2] != data:
                                    ctx.violation("oracle", "C19 %s: file changed or wrong error after ENOSPC during growth" % fn,
                                                  {"runner": "c19.util", "fn": fn, "n": n, "args": list(args), "buf": buf, "cap": cap, "partial": partial,
                                                   "observed": ri[0], "same": ri[2] == data})


def capacities(n, growth):
    if growth <= 400:
        return list(range(n, n + growth))
    s = set(range(n, n + 60)) | set(range(n + growth - 20, n + growth)) | set(range(n, n + growth, max(1, growth // 80)))
    return sorted(s)


def is_listed(kind, wbefore, before, after_ok):
    """does the property promise 'byte-identical' for this save? (else: audio intact)"""
    if kind.name in LISTED_KINDS:
        return True
    if kind.name in CHUNK_KINDS:
        return wbefore["tags"] is not None or wbefore["extra"].get("nid3", 0) > 0
    if kind.name in OGG_KINDS and after_ok is not None:
        # comments confined to one page before and after
        try:
            from fam import walkers as W
            def comment_pages(d):
                pages = W.ogg_pages(d)
                w = W.ogg(d, kind.codec)
                ser = w["extra"]["tagged"]
                # pages of the tagged serial until the second packet is complete
                n = 0; done = 0; cnt = 0
                for pg in pages:
                    if pg["serial"] != ser:
                        continue
                    fin = sum(1 for l in pg["lac"] if l < 255)
                    if done >= 1 or (done + fin) > 1 or (done == 0 and fin >= 1 and len([l for l in pg["lac"]]) > fin):
                        cnt += 1 if (done + fin) >= 1 else 0
                    done += fin
                    if done >= 2:
                        break
                return cnt
            return comment_pages(before) <= 1 and comment_pages(after_ok) <= 1
        except Exception:
            return False
    return False


def audio_intact(kind, wb, after, before=None):
    """the audio payload / foreign elements are still there, byte-identical and in order (the tag region
    itself may be half-written after a failed append)"""
    if kind.family == "ogg":
        wa, err = safe_walk(kind, after)
        if wa is not None:
            return foreign_preserved(kind, wb, wa) is None
        # the comment pages are half-written: at least every page of the other serials must survive, byte for byte and in
        # order (page by page: the pages of one foreign stream need not be adjacent in the file)
        from fam import walkers as W
        p = 0
        if before is not None:
            try:
                tagged = wb["extra"]["tagged"]
                for pg in W.ogg_pages(before):
                    if pg["serial"] == tagged:
                        continue
                    i = after.find(pg["raw"], p)
                    if i < 0:
                        return False
                    p = i + len(pg["raw"])
                return True
            except Exception:
                p = 0
        for lab, data in wb["foreign"]:
            if lab.endswith("-pages") and data:
                i = after.find(data, p)
                if i < 0:
                    return False
                p = i + len(data)
        return True
    p = 0
    for lab, data in wb["foreign"]:
        if not data:
            continue
        i = after.find(data, p)
        if i < 0:
            return False
        p = i + len(data)
    return True


def format_oracle(ctx, sizes, partials, max_caps, kinds=None, bufsize=None):
    import mutagen._util as U
    import random
    for kname, kind in KINDS.items():
        if kinds and kname not in kinds:
            continue
        for sample, data in shared.usable_samples(kind):
            if len(data) > 120000:
                continue
            wb, _ = safe_walk(kind, data)
            variants = [{}]
            if kname == "FLAC" and data[:3] == b"ID3":
                variants.append({"deleteid3": True})      # the ID3v2 prefix is dropped by the same save
            for size, kw in [(sz, kw) for sz in sizes for kw in variants]:
                rng = random.Random(ctx.seed * 7 + len(sample) + size)
                def make(size=size, kw=kw):
                    # (a fresh object per attempt: not every loaded object can be deep-copied, e.g. FLAC cue sheets)
                    o = kind.open(io.BytesIO(data))
                    kind.ensure_tags(o)
                    add_value(kind, o, size + (len(data) if kw else 0))
                    return o
                try:
                    b = io.BytesIO(data)
                    make().save(b, **kw)
                except Exception:
                    ctx.count("format:skipped-unsaveable")
                    continue
                after_ok = b.getvalue()
                growth = len(after_ok) - len(data)
                if growth <= 0:
                    ctx.case(None)
                    continue
                listed = is_listed(kind, wb, data, after_ok)
                caps = capacities(len(data), growth)
                if len(caps) > max_caps:
                    step = len(caps) / float(max_caps)
                    caps = sorted(set([caps[int(i * step)] for i in range(max_caps)] + caps[:10] + caps[-5:]))
                for cap in caps:
                    for partial in partials:
                        c = Cap(data, cap, partial)
                        o2 = make()
                        try:
                            o2.save(c, **kw)
                            res = "ok"
                        except mutagen.MutagenError:
                            res = "MutagenError"
                        except Exception as e:
                            res = "EXC:" + type(e).__name__
                        out = c.getvalue()
                        ctx.oracle_cases += 1
                        ctx.count("format:" + kname + (":listed" if listed else ":remaining"))
                        ctx.case((kname, sample, size, cap - len(data), partial, bool(kw)),
                                 {"kind": kname, "sample": sample, "growth": growth, "remaining_capacity": cap - len(data), "partial": partial,
                                  "result": res, "unchanged": out == data} if ctx.oracle_cases % 997 == 1 else None)
                        d = {"runner": "c19.format", "kind": kname, "sample": sample, "size": size, "remaining_capacity": cap - len(data),
                             "growth": growth, "partial": partial, "observed": res, "save_kwargs": repr(kw)}
                        if c.enospc == 0:
                            continue      # the save did not hit the limit (e.g. it needed less space on this path)
                        if res != "MutagenError":
                            ctx.violation("oracle", "C19 %s: save on a full device %s instead of raising MutagenError" % (kname, "returned normally" if res == "ok" else "raised " + res[4:]), d)
                        elif listed and out != data:
                            ctx.violation("oracle", "C19 %s: file modified although the enlargement failed (listed format)" % kname, d)
                        elif not listed and wb is not None and not audio_intact(kind, wb, out, data):
                            ctx.violation("oracle", "C19 %s: audio/foreign data damaged after a failed enlargement" % kname, d)


def add_value(kind, o, size):
    t = kind.tags_of(o)
    v = "v" * size
    st = kind.style
    if st == "vc":
        t["title"] = [v]
    elif st == "id3":
        from mutagen.id3 import TIT2
        t.add(TIT2(encoding=3, text=[v]))
    elif st == "ape":
        t["Title"] = v
    elif st == "mp4":
        t["\xa9nam"] = [v]
    elif st == "asf":
        t["WM/Foo"] = [v[:60000]]


def run(ctx):
    import mutagen._util as U
    if ctx.thorough:
        correspondence(ctx, 6, [1, 2, 3, 5])
        with patched_buf(U, 1024):
            format_oracle(ctx, [30, 3000, 70000], [0, 5, 10 ** 9], 400)
        format_oracle(ctx, [200, 3 * 1024 * 1024 + 17], [0, 10 ** 9], 40, kinds={"MP3", "FLAC", "MP4", "ASF", "OggVorbis", "AIFF"})
    else:
        correspondence(ctx, 4, [1, 3])
        with patched_buf(U, 1024):
            format_oracle(ctx, [30, 9000], [0, 10 ** 9], 60)


def search(ctx, broken):
    import mutagen._util as U
    before = len(ctx.violations)
    with patched_buf(U, 1024):
        format_oracle(ctx, [30, 300, 3000, 70000], [0, 1, 10 ** 9], 300)
    ctx.notes["search"] = "per-capacity enumeration over all kinds/samples found %d failing saves" % (len(ctx.violations) - before)


def replay(ctx, payload):
    import mutagen._util as U
    d = payload.get("data", {})
    if d.get("runner") == "c19.format":
        with patched_buf(U, 1024):
            format_oracle(ctx, [d["size"]], [d["partial"]], 10 ** 6, kinds={d["kind"]})
        return any(v["data"].get("sample") == d["sample"] and v["data"].get("remaining_capacity") == d["remaining_capacity"] for v in ctx.violations)
    run(ctx)
    return bool(ctx.violations or ctx.disagreements)
