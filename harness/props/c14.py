"""C14 -- syncsafe integers (BitPaddedInt / to_str / has_valid_padding) and unsynchronisation
(unsynch.encode / unsynch.decode): proofs over the hand model Model.Id3Util; exhaustive small-domain
correspondence of the extracted model with mutagen.id3._util; direct oracle on the real functions taken
from the property statement (independent reference codecs); hand-built unsynchronised ID3v2.3/2.4 tags."""
import io, os, re, sys, json, struct, itertools, subprocess
from common import zs, zp, hx, unhx, coq_bytes, vm_shard
import common

PROP = "C14"
PROP_FILES = ["props/C14.v"]
TRUSTED = [
    "modelled rather than verified: Model.Id3Util is a hand transcription of mutagen/id3/_util.py (BitPaddedInt.__new__, "
    "to_str, has_valid_padding, unsynch.encode/decode); it is tied to /repo on every run by the exhaustive correspondence below "
    "(value/bytes and exception class), not by regeneration",
    "Python int/bytes semantics assumed by the model: >> & << on non-negative ints = Z.shiftr/Z.land/Z.shiftl, "
    "bytearray.split/join, bytearray item assignment raising IndexError/ValueError",
    "non-termination is modelled as EOutOfFuel; the theorems exclude it for every input they cover",
    "tag level (ID3Header / read_frames / Frame._fromData honouring the unsynchronisation flags) is tested, not proved",
]
MANIFEST = {
    "text": "full for the codecs: machine-checked theorems, for every integer, width, bits in 1..8, both byte orders and every byte string "
            "(no size bound): to_str of a fitting value has the requested width, all padding bits clear and decodes back with BitPaddedInt; "
            "the growing form has length max(minwidth, digits); too wide and negative values give ValueError, never truncation or a loop; "
            "BitPaddedInt(int) re-reads the int's bytes; unsynch.decode(unsynch.encode(s)) = s, encode output has no 0xFF followed by >= 0xE0 "
            "and never ends in 0xFF, decode rejects exactly the unsafe strings. The model is tied to the implementation by an exhaustive "
            "correspondence (integers below 2^16 x bits x widths x byte order, all strings over a sync-relevant alphabet to length 7); "
            "the use of the codecs when reading tags with the unsynchronisation flag is checked by a direct oracle on hand-built tags",
    "note": "Modelled, not verified: the hand model of id3/_util.py (tied by correspondence, not regenerated). The tag-level part "
            "(header flag in v2.3, per-frame / global flag in v2.4) is a runtime oracle over hand-built tags, not a theorem. "
            "The model cannot exhibit memory exhaustion; a hang of the implementation is detected by a watchdog subprocess.",
    "technique": "Coq proof (digit arithmetic by induction with explicit provably sufficient fuel; split/join list lemmas) over a hand "
                 "Gallina model + exhaustive correspondence via extracted OCaml model + direct oracle with independent reference codecs",
    "design_ref": "DESIGN.md section 5, C14",
}
RULE = ("correspondence: every (value, bits 1..8, byte order, (width,minwidth) in {0..5}x4, (-1,4), (-1,0)) with value below 2^14 (quick) / "
        "2^16 (thorough) plus a lattice around every bits-carry up to 2^35 and random values up to 2^80, for to_str, BitPaddedInt(int), "
        "BitPaddedInt(bytes), has_valid_padding(int|bytes); every byte string over {00,01,7F,80,DF,E0,FE,FF} up to length 5 (quick) / 7 "
        "(thorough) plus random long strings for unsynch.encode/decode; value or bytes and exception class compared with the extracted model. "
        "direct oracle: the same inputs against the property statement with independent reference codecs; negative values in a watchdog "
        "subprocess; hand-built v2.3/v2.4 tags with unsynchronisation flags vs the plain tag and the expected payload. "
        "non-trivial = value > 0 / non-empty string / rejected input; distinct by (function, parameters, input)")

ALPHABET = (0x00, 0x01, 0x7F, 0x80, 0xDF, 0xE0, 0xFE, 0xFF)
WIDTHS = [(0, 4), (1, 4), (2, 4), (3, 4), (4, 4), (5, 4), (-1, 4), (-1, 0)]


def _impl():
    import mutagen.id3._util as U
    return U


# ---------------------------------------------------------------------------------------------
# independent reference code (never mutagen's own functions)

def ref_decode(bs, bits, be):
    """value of a digit string, `bits` significant bits per byte"""
    mask = (1 << bits) - 1
    n, sh = 0, 0
    for b in (reversed(bs) if be else bs):
        n += (b & mask) << sh
        sh += bits
    return n


def ref_bpi_int(v, bits):
    mask = (1 << bits) - 1
    n, sh = 0, 0
    while v:
        n += (v & 0xFF & mask) << sh
        v >>= 8
        sh += bits
    return n


def expected_len(v, bits, width, mw):
    """length of the encoding, or None when the value must be rejected"""
    if width >= 0:
        return width if v < (1 << (bits * width)) else None
    return max(mw, -(-v.bit_length() // bits))


UNSAFE = re.compile(rb"\xff(?:[\xe0-\xff]|\Z)", re.S)


def ref_unsafe(s):
    """a false sync (FF followed by >= E0) or a trailing FF"""
    return UNSAFE.search(s) is not None


def ref_destuff(s):
    return s.replace(b"\xff\x00", b"\xff")


def ref_unsynch_encode(s):
    """textbook byte-by-byte stuffing (slow, obviously right)"""
    out = bytearray()
    for i, b in enumerate(s):
        out.append(b)
        if b == 0xFF and (i + 1 == len(s) or s[i + 1] >= 0xE0 or s[i + 1] == 0x00):
            out.append(0x00)
    return bytes(out)


def ref_destuff_slow(s):
    out = bytearray()
    i = 0
    while i < len(s):
        out.append(s[i])
        if s[i] == 0xFF and i + 1 < len(s) and s[i + 1] == 0x00:
            i += 1
        i += 1
    return bytes(out)


def ref_unsafe_slow(s):
    for i, b in enumerate(s):
        if b == 0xFF and (i + 1 == len(s) or s[i + 1] >= 0xE0):
            return True
    return False


def reference_selftest():
    """the fast references agree with the slow byte-by-byte ones on every alphabet string up to length 4"""
    for n in range(0, 5):
        for t in itertools.product(ALPHABET, repeat=n):
            s = bytes(t)
            assert ref_unsafe(s) == ref_unsafe_slow(s), s
            assert ref_destuff(s) == ref_destuff_slow(s), s
            e = ref_unsynch_encode(s)
            assert not ref_unsafe(e) and ref_destuff(e) == s, s


def chunks(seq, n):
    buf = []
    for x in seq:
        buf.append(x)
        if len(buf) == n:
            yield buf
            buf = []
    if buf:
        yield buf


class Viol:
    """record at most a few violations per description (the check de-duplicates by `what`)"""
    def __init__(self, ctx):
        self.ctx, self.n = ctx, {}

    def __call__(self, what, data):
        k = self.n.get(what, 0)
        self.n[what] = k + 1
        if k < 2:
            self.ctx.violation("oracle", what, data)

    def total(self):
        return sum(self.n.values())


def _viol(ctx):
    if not hasattr(ctx, "_c14_viol"):
        ctx._c14_viol = Viol(ctx)
    return ctx._c14_viol


def _disagree(ctx, runner, what, data):
    if len(ctx.disagreements) < 6:
        ctx.disagree(runner, what, data)
    ctx.count("disagreements-total")


def lattice_values():
    s = {0, 1, 2, 127, 128, 254, 255, 256, 2048, 4080, 65307, 65535, 65536, 65537, (1 << 24) - 1, 1 << 24,
         (1 << 28) - 1, 1 << 28, (1 << 28) + 1, (1 << 32) - 1, 1 << 32, (1 << 32) + 1, (1 << 35) - 1, 1 << 35}
    for b in range(1, 9):
        k = 1
        while b * k <= 35:
            for d in (-2, -1, 0, 1):
                s.add((1 << (b * k)) + d)
            k += 1
    for k in range(1, 20):
        s.add(k * 255)
    return sorted(x for x in s if x >= 0)


def random_values(rng, n):
    out = []
    for _ in range(n):
        out.append(rng.getrandbits(rng.choice((17, 20, 28, 32, 35, 40, 56, 64, 80))))
    return out


# ---------------------------------------------------------------------------------------------
# to_str

def oracle_to_str(V, U, v, bits, be, width, mw, r):
    """r: bytes or '!ExcName' as returned by the implementation; property statement for 1 <= bits <= 8, v >= 0"""
    BPI = U.BitPaddedInt
    d = {"fn": "to_str", "value": v, "bits": bits, "bigendian": be, "width": width, "minwidth": mw,
         "observed": r if isinstance(r, str) else r.hex()}
    exp = expected_len(v, bits, width, mw)
    if exp is None:
        if r != "!ValueError":
            V("to_str: a value that does not fit the width is not rejected with ValueError", d)
            return False
        return True
    if isinstance(r, str):
        V("to_str: a value that fits is rejected", d)
        return False
    ok = True
    if len(r) != exp:
        V("to_str: wrong length of the encoded string", d); ok = False
    if r and max(r) >= (1 << bits):
        V("to_str: padding bits set in an encoded byte", d); ok = False
    elif BPI.has_valid_padding(r, bits) is not True:
        V("has_valid_padding(bytes) is false on an encoding with clear padding bits", d); ok = False
    if ref_decode(r, bits, be) != v:
        V("to_str: encoded bytes do not decode to the value (reference decoder)", d); ok = False
    try:
        back = BPI(r, bits, be)
    except Exception as e:
        back = "!" + type(e).__name__
    if back != v:
        V("BitPaddedInt(to_str(v)) differs from v", dict(d, decoded=str(back))); ok = False
    if be:
        try:
            back = BPI(int.from_bytes(r, "big"), bits)
        except Exception as e:
            back = "!" + type(e).__name__
        if back != v:
            V("BitPaddedInt(int) of a to_str-encoded size field differs from the value", dict(d, decoded=str(back))); ok = False
    return ok


def run_to_str(ctx, U, values, bits_list, widths, use_model=True, oracle=True, tag="range"):
    V = _viol(ctx)
    to_str = U.BitPaddedInt.to_str
    for bits in bits_list:
        for be in (True, False):
            for width, mw in widths:
                if bits == 0 and width == -1:
                    continue   # while value: value >>= 0 never ends for value > 0 (outside the property: bits >= 1)
                for chunk in chunks(values, 2048):
                    impl = []
                    for v in chunk:
                        try:
                            r = to_str(v, bits, be, width, mw)
                        except Exception as e:
                            r = "!" + type(e).__name__
                        impl.append(r)
                        if oracle:
                            oracle_to_str(V, U, v, bits, be, width, mw, r)
                            ctx.oracle_cases += 1
                        ctx.case("ts%d%d%d.%d.%x" % (bits, be, width, mw, v) if v else None,
                                 {"fn": "to_str", "value": v, "bits": bits, "bigendian": be, "width": width, "minwidth": mw,
                                  "impl": r if isinstance(r, str) else r.hex()} if ctx.evaluations % 100003 == 0 else None)
                    ctx.count("to_str:%s:bits%d" % (tag, bits), len(chunk))
                    if use_model:
                        rep = ctx.model.call("c14_to_str", zs(bits), "1" if be else "0", zs(width), zs(mw), *[zs(v) for v in chunk]).split(" ")
                        ctx.corr_cases += len(chunk)
                        if len(rep) != len(chunk):
                            _disagree(ctx, "c14.to_str", "model reply malformed: %s" % " ".join(rep)[:200], {"fn": "to_str"})
                            continue
                        for v, r, m in zip(chunk, impl, rep):
                            ri = r if isinstance(r, str) else "x" + r.hex()
                            if ri != m:
                                _disagree(ctx, "c14.to_str", "to_str(%d, bits=%d, bigendian=%s, width=%d, minwidth=%d): impl=%s model=%s" % (v, bits, be, width, mw, ri, m),
                                          {"fn": "to_str", "value": v, "bits": bits, "bigendian": be, "width": width, "minwidth": mw})


# ---------------------------------------------------------------------------------------------
# BitPaddedInt(int), BitPaddedInt(bytes), has_valid_padding

def run_bpi_int(ctx, U, values, bits_list, use_model=True, oracle=True):
    V = _viol(ctx)
    BPI = U.BitPaddedInt
    for bits in bits_list:
        for chunk in chunks(values, 4096):
            impl, hv = [], []
            for v in chunk:
                try:
                    r = "%x" % BPI(v, bits)
                except Exception as e:
                    r = "!" + type(e).__name__
                impl.append(r)
                if bits <= 8:
                    try:
                        h = "1" if BPI.has_valid_padding(v, bits) else "0"
                    except Exception as e:
                        h = "!" + type(e).__name__
                else:
                    h = None
                hv.append(h)
                if oracle and 0 <= bits <= 8:
                    d = {"fn": "bpi_int", "value": v, "bits": bits, "observed": r}
                    if r != "%x" % ref_bpi_int(v, bits):
                        V("BitPaddedInt(int) differs from re-reading the int's bytes as bits-bit groups", d)
                    nb = (v.bit_length() + 7) // 8
                    want = "1" if all(((v >> (8 * i)) & 0xFF) < (1 << bits) for i in range(nb)) else "0"
                    if h != want:
                        V("has_valid_padding(int) wrong", dict(d, observed=h))
                    ctx.oracle_cases += 1
                ctx.case("bi%d.%x" % (bits, v) if v else None)
            ctx.count("bpi_int:bits%d" % bits, len(chunk))
            if use_model:
                rep = ctx.model.call("c14_bpi_int", zs(bits), *[zs(v) for v in chunk]).split(" ")
                ctx.corr_cases += len(chunk)
                for v, r, m in zip(chunk, impl, rep):
                    if r != m:
                        _disagree(ctx, "c14.bpi_int", "BitPaddedInt(%d, bits=%d): impl=%s model=%s" % (v, bits, r, m), {"fn": "bpi_int", "value": v, "bits": bits})
                if bits <= 8:
                    rep = ctx.model.call("c14_hvp_int", zs(bits), *[zs(v) for v in chunk]).split(" ")
                    ctx.corr_cases += len(chunk)
                    for v, r, m in zip(chunk, hv, rep):
                        if r != m:
                            _disagree(ctx, "c14.hvp_int", "has_valid_padding(%d, bits=%d): impl=%s model=%s" % (v, bits, r, m), {"fn": "hvp_int", "value": v, "bits": bits})


def run_bpi_bytes(ctx, U, strings, bits_list, use_model=True, oracle=True):
    V = _viol(ctx)
    BPI = U.BitPaddedInt
    for bits in bits_list:
        for chunk in chunks(strings, 4096):
            hv = []
            for s in chunk:
                try:
                    h = "1" if BPI.has_valid_padding(s, bits) else "0"
                except Exception as e:
                    h = "!" + type(e).__name__
                hv.append(h)
                if oracle and bits <= 8:
                    want = "1" if all(b < (1 << bits) for b in s) else "0"
                    if h != want:
                        V("has_valid_padding(bytes) is not 'every byte below 2**bits'", {"fn": "hvp_bytes", "data": s.hex(), "bits": bits, "observed": h})
                    ctx.oracle_cases += 1
            if use_model:
                rep = ctx.model.call("c14_hvp_bytes", zs(bits), *[hx(s) for s in chunk]).split(" ")
                ctx.corr_cases += len(chunk)
                for s, r, m in zip(chunk, hv, rep):
                    if r != m:
                        _disagree(ctx, "c14.hvp_bytes", "has_valid_padding(%s, bits=%d): impl=%s model=%s" % (s.hex(), bits, r, m), {"fn": "hvp_bytes", "data": s.hex(), "bits": bits})
            for be in (True, False):
                impl = []
                for s in chunk:
                    try:
                        r = "%x" % BPI(s, bits, be)
                    except Exception as e:
                        r = "!" + type(e).__name__
                    impl.append(r)
                    if oracle:
                        if r != "%x" % ref_decode(s, bits, be):
                            V("BitPaddedInt(bytes) differs from the reference digit sum", {"fn": "bpi_bytes", "data": s.hex(), "bits": bits, "bigendian": be, "observed": r})
                        ctx.oracle_cases += 1
                    ctx.case("bb%d%d.%s" % (bits, be, s.hex()) if s else None)
                ctx.count("bpi_bytes:bits%d" % bits, len(chunk))
                if use_model:
                    rep = ctx.model.call("c14_bpi_bytes", zs(bits), "1" if be else "0", *[hx(s) for s in chunk]).split(" ")
                    ctx.corr_cases += len(chunk)
                    for s, r, m in zip(chunk, impl, rep):
                        if r != m:
                            _disagree(ctx, "c14.bpi_bytes", "BitPaddedInt(%s, bits=%d, bigendian=%s): impl=%s model=%s" % (s.hex(), bits, be, r, m),
                                      {"fn": "bpi_bytes", "data": s.hex(), "bits": bits, "bigendian": be})


# ---------------------------------------------------------------------------------------------
# negative values: in a watchdog subprocess (the historical failure mode is an endless loop)

CHILD = r"""
import sys, json, signal, resource
resource.setrlimit(resource.RLIMIT_AS, (2 << 30, 2 << 30))
from mutagen.id3._util import BitPaddedInt
class Hang(BaseException): pass
def on_alarm(*a): raise Hang()
signal.signal(signal.SIGALRM, on_alarm)
cases = json.loads(sys.stdin.read())
hangs = 0
for i, c in enumerate(cases):
    if hangs >= 3:
        break
    print("BEGIN %d" % i, flush=True)
    signal.alarm(4)
    try:
        if c[0] == "to_str":
            r = "x" + BitPaddedInt.to_str(c[1], c[2], c[3], c[4], c[5]).hex()
        else:
            r = "%x" % BitPaddedInt(c[1], c[2])
    except (Hang, MemoryError):
        r = "HANG"
        hangs += 1
    except Exception as e:
        r = "!" + type(e).__name__
    signal.alarm(0)
    print("END %d %s" % (i, r), flush=True)
"""


def negative_cases(thorough):
    vals = [-1, -2, -127, -128, -255, -256, -65536, -(1 << 28), -(1 << 35)]
    bitsl = (1, 7, 8) if not thorough else (1, 2, 3, 4, 5, 6, 7, 8)
    cases = []
    for v in vals:
        for bits in bitsl:
            cases.append(["bpi_int", v, bits])
            for be in (True, False):
                for width, mw in ((-1, 4), (-1, 0), (0, 4), (1, 4), (4, 4), (5, 4)):
                    cases.append(["to_str", v, bits, be, width, mw])
    return cases


def run_negative(ctx, use_model=True, thorough=False):
    V = _viol(ctx)
    cases = negative_cases(thorough)
    env = dict(os.environ, PYTHONPATH=common.REPO)
    p = subprocess.Popen([sys.executable, "-c", CHILD], stdin=subprocess.PIPE, stdout=subprocess.PIPE, stderr=subprocess.PIPE, env=env)
    try:
        out, err = p.communicate(json.dumps(cases).encode(), timeout=60 + 5 * 40)
        out = out.decode()
    except subprocess.TimeoutExpired:
        p.kill()
        out, err = p.communicate()
        out = out.decode()
    results = {}
    last_begin = None
    for line in out.splitlines():
        parts = line.split(" ")
        if parts[0] == "BEGIN":
            last_begin = int(parts[1])
        elif parts[0] == "END":
            results[int(parts[1])] = parts[2]
    hangs = 0
    for i, c in enumerate(cases):
        r = results.get(i)
        if r is None:
            if i == last_begin and p.returncode != 0:
                r = "HANG"   # the child was killed (timeout / memory) inside this case
            else:
                continue   # not reached: the child stops after three hangs
        ctx.oracle_cases += 1
        ctx.case("neg" + json.dumps(c))
        ctx.count("negative:" + c[0])
        if c[0] == "to_str":
            d = {"fn": "to_str", "value": c[1], "bits": c[2], "bigendian": c[3], "width": c[4], "minwidth": c[5], "observed": r}
            if r == "HANG":
                hangs += 1
                V("to_str: negative value loops instead of raising ValueError", d)
            elif r != "!ValueError":
                V("to_str: negative value not rejected with ValueError", d)
        else:
            d = {"fn": "bpi_int", "value": c[1], "bits": c[2], "observed": r}
            if r == "HANG":
                hangs += 1
                V("BitPaddedInt(int): negative value loops instead of raising ValueError", d)
            elif r != "!ValueError":
                V("BitPaddedInt(int): negative value not rejected with ValueError", d)
        if use_model and r != "HANG":
            if c[0] == "to_str":
                m = ctx.model.call("c14_to_str", zs(c[2]), "1" if c[3] else "0", zs(c[4]), zs(c[5]), zs(c[1]))
            else:
                m = ctx.model.call("c14_bpi_int", zs(c[2]), zs(c[1]))
            ctx.corr_cases += 1
            if m != r:
                _disagree(ctx, "c14.negative", "%r: impl=%s model=%s" % (c, r, m), {"fn": c[0], "case": c})
        if hangs >= 3:
            break
    if not results and not hangs:
        _disagree(ctx, "c14.negative", "watchdog subprocess produced no result: %s" % err.decode()[-300:], {})


def check_negative_one(c):
    """replay helper: one case through the watchdog; returns the observed result string"""
    env = dict(os.environ, PYTHONPATH=common.REPO)
    p = subprocess.Popen([sys.executable, "-c", CHILD], stdin=subprocess.PIPE, stdout=subprocess.PIPE, stderr=subprocess.PIPE, env=env)
    try:
        out, _ = p.communicate(json.dumps([c]).encode(), timeout=30)
    except subprocess.TimeoutExpired:
        p.kill()
        return "HANG"
    m = re.search(r"END 0 (\S+)", out.decode())
    return m.group(1) if m else "HANG"


# ---------------------------------------------------------------------------------------------
# unsynch

def oracle_unsynch(V, U, s, e, d):
    """s: input; e: encode(s) (bytes or '!Exc'); d: decode(s) (bytes or '!Exc')"""
    ok = True
    if isinstance(e, str):
        V("unsynch.encode raised", {"fn": "unsynch_encode", "data": s.hex(), "observed": e}); ok = False
    else:
        dd = {"fn": "unsynch_encode", "data": s.hex(), "observed": e.hex()}
        if ref_unsafe(e):
            V("unsynch.encode output contains a false sync (FF followed by >= E0) or ends in FF", dd); ok = False
        if ref_destuff(e) != s:
            V("unsynch.encode output does not destuff to the input (reference decoder)", dd); ok = False
        try:
            back = U.unsynch.decode(e)
        except Exception as ex:
            back = "!" + type(ex).__name__
        if back != s:
            V("unsynch.decode(unsynch.encode(s)) differs from s", dict(dd, decoded=back if isinstance(back, str) else back.hex())); ok = False
    dd = {"fn": "unsynch_decode", "data": s.hex(), "observed": d if isinstance(d, str) else d.hex()}
    if ref_unsafe(s):
        if d != "!ValueError":
            V("unsynch.decode accepts data with a false sync or a trailing FF", dd); ok = False
    elif isinstance(d, str):
        V("unsynch.decode rejects safe data", dd); ok = False
    elif d != ref_destuff(s):
        V("unsynch.decode of safe data differs from reference destuffing", dd); ok = False
    return ok


def run_unsynch(ctx, U, strings, use_model=True, tag="alphabet"):
    V = _viol(ctx)
    enc, dec = U.unsynch.encode, U.unsynch.decode
    for chunk in chunks(strings, 4096):
        ie, idc = [], []
        for s in chunk:
            try:
                e = enc(s)
            except Exception as ex:
                e = "!" + type(ex).__name__
            try:
                d = dec(s)
            except Exception as ex:
                d = "!" + type(ex).__name__
            ie.append(e)
            idc.append(d)
            oracle_unsynch(V, U, s, e, d)
            ctx.oracle_cases += 2
            ctx.case(b"u" + s if s else None,
                     {"fn": "unsynch", "data": s.hex()[:64], "encode": (e if isinstance(e, str) else e.hex())[:80],
                      "decode": (d if isinstance(d, str) else d.hex())[:80]} if ctx.evaluations % 9973 == 0 else None)
        ctx.count("unsynch:%s" % tag, len(chunk))
        if use_model:
            args = [hx(s) for s in chunk]
            me = ctx.model.call("c14_unsynch_encode", *args).split(" ")
            md = ctx.model.call("c14_unsynch_decode", *args).split(" ")
            ctx.corr_cases += 2 * len(chunk)
            if len(me) != len(chunk) or len(md) != len(chunk):
                _disagree(ctx, "c14.unsynch", "model reply malformed: %s" % (" ".join(me)[:100]), {"fn": "unsynch"})
                continue
            for s, e, d, a, b in zip(chunk, ie, idc, me, md):
                es = e if isinstance(e, str) else "x" + e.hex()
                ds = d if isinstance(d, str) else "x" + d.hex()
                if es != a:
                    _disagree(ctx, "c14.unsynch_encode", "unsynch.encode(%s): impl=%s model=%s" % (s.hex(), es, a), {"fn": "unsynch_encode", "data": s.hex()})
                if ds != b:
                    _disagree(ctx, "c14.unsynch_decode", "unsynch.decode(%s): impl=%s model=%s" % (s.hex(), ds, b), {"fn": "unsynch_decode", "data": s.hex()})


def alphabet_strings(maxlen, minlen=0):
    for n in range(minlen, maxlen + 1):
        for t in itertools.product(ALPHABET, repeat=n):
            yield bytes(t)


def random_strings(rng, n, maxlen):
    pool = bytes(ALPHABET) * 4 + bytes(range(256))
    out = []
    for _ in range(n):
        ln = rng.choice((rng.randrange(0, 40), rng.randrange(0, maxlen)))
        out.append(bytes(rng.choice(pool) for _ in range(ln)))
    return out


# ---------------------------------------------------------------------------------------------
# tag level: hand-built tags with unsynchronisation flags

def syncsafe4(n):
    assert 0 <= n < (1 << 28)
    return bytes([(n >> 21) & 0x7F, (n >> 14) & 0x7F, (n >> 7) & 0x7F, n & 0x7F])


TITLE = "ÿþtitleÿ"


def frame_payloads(payload):
    """(frame id, frame body) for three frames carrying `payload` and FF-rich text"""
    return [
        (b"PRIV", b"own\x00" + payload),
        (b"TIT2", b"\x01\xff\xfe" + TITLE.encode("utf-16-le")),
        (b"UFID", b"http://x\x00" + payload),
    ]


def build_v23(payload, unsync, padding=0):
    body = b"".join(fid + struct.pack(">IH", len(b), 0) + b for fid, b in frame_payloads(payload)) + b"\x00" * padding
    if unsync:
        body = ref_unsynch_encode(body)
    return b"ID3\x03\x00" + bytes([0x80 if unsync else 0]) + syncsafe4(len(body)) + body


def build_v24(payload, frame_unsync, datalen, global_flag, padding=0):
    out = b""
    for fid, b in frame_payloads(payload):
        flags, data = 0, b
        if frame_unsync or global_flag:
            data = ref_unsynch_encode(data)
        if frame_unsync:
            flags |= 0x0002
        if datalen:
            flags |= 0x0001
            data = syncsafe4(len(b)) + data
        out += fid + syncsafe4(len(data)) + struct.pack(">H", flags) + data
    out += b"\x00" * padding
    return b"ID3\x04\x00" + bytes([0x80 if global_flag else 0]) + syncsafe4(len(out)) + out


TAG_VARIANTS = [
    ("v2.3 header unsynchronisation flag", lambda p: build_v23(p, False), lambda p: build_v23(p, True)),
    ("v2.3 header unsynchronisation flag, padded", lambda p: build_v23(p, False, 7), lambda p: build_v23(p, True, 7)),
    ("v2.4 per-frame unsynchronisation flag", lambda p: build_v24(p, False, False, False), lambda p: build_v24(p, True, False, False)),
    ("v2.4 per-frame unsynchronisation flag with data length indicator", lambda p: build_v24(p, False, False, False), lambda p: build_v24(p, True, True, False)),
    ("v2.4 header and per-frame unsynchronisation flags", lambda p: build_v24(p, False, False, False), lambda p: build_v24(p, True, False, True)),
    ("v2.4 header unsynchronisation flag only", lambda p: build_v24(p, False, False, False), lambda p: build_v24(p, False, False, True)),
]


def load_tag(data):
    from mutagen.id3 import ID3
    try:
        return ID3(io.BytesIO(data))
    except Exception as e:
        return "!" + type(e).__name__


def tag_view(t):
    """canonical view of the loaded frames"""
    if isinstance(t, str):
        return t
    view = {}
    for k in sorted(t.keys()):
        f = t[k]
        view[k] = repr(f)
    view["#unknown"] = [bytes(u).hex() for u in t.unknown_frames]
    return view


def oracle_tag(V, payload, idx):
    name, plain_b, uns_b = TAG_VARIANTS[idx]
    d = {"fn": "tag", "variant": idx, "variant_name": name, "payload": payload.hex()}
    del name   # the variant is in the data; messages stay few and stable
    plain, uns = load_tag(plain_b(payload)), load_tag(uns_b(payload))
    ok = True
    for label, t, raw in (("plain", plain, plain_b(payload)), ("unsynchronised", uns, uns_b(payload))):
        if isinstance(t, str):
            V("tag: hand-built tag does not load", dict(d, which=label, observed=t)); ok = False
            continue
        priv, ufid, tit2 = t.getall("PRIV"), t.getall("UFID"), t.getall("TIT2")
        if len(priv) != 1 or priv[0].owner != "own" or priv[0].data != payload:
            V("tag: binary frame data read from the tag differs from the original frame bytes",
              dict(d, which=label, frame="PRIV", observed=priv[0].data.hex() if priv else None)); ok = False
        if len(ufid) != 1 or ufid[0].data != payload or ufid[0].owner != "http://x":
            V("tag: binary frame data read from the tag differs from the original frame bytes",
              dict(d, which=label, frame="UFID", observed=ufid[0].data.hex() if ufid else None)); ok = False
        if len(tit2) != 1 or list(tit2[0].text) != [TITLE]:
            V("tag: text frame read from the tag differs from the original",
              dict(d, which=label, frame="TIT2", observed=repr(tit2[0].text) if tit2 else None)); ok = False
        if t.size != len(raw):
            V("tag: header size (BitPaddedInt) differs from the tag length", dict(d, which=label, observed=t.size)); ok = False
    if not isinstance(plain, str) and not isinstance(uns, str) and tag_view(plain) != tag_view(uns):
        V("tag: frames read with the unsynchronisation flag differ from the plain tag", d); ok = False
    return ok


def run_tags(ctx, payloads):
    V = _viol(ctx)
    for p in payloads:
        for idx in range(len(TAG_VARIANTS)):
            oracle_tag(V, p, idx)
            ctx.oracle_cases += 1
            ctx.count("tag:" + TAG_VARIANTS[idx][0])
            ctx.case(b"t%d" % idx + p)
    # a header whose size bytes are not syncsafe must be rejected
    import mutagen
    for bad in (b"\x00\x00\x00\x80", b"\x80\x00\x00\x00", b"\x00\xff\x00\x00"):
        raw = b"ID3\x04\x00\x00" + bad + b"\x00" * 64
        try:
            from mutagen.id3 import ID3
            ID3(io.BytesIO(raw))
            r = "loaded"
        except mutagen.MutagenError:
            r = "rejected"
        except Exception as e:
            r = "!" + type(e).__name__
        ctx.oracle_cases += 1
        ctx.case(b"hdr" + bad)
        if r != "rejected":
            V("tag: header size with padding bit set is not rejected", {"fn": "header", "size": bad.hex(), "observed": r})


def tag_payloads(rng, maxlen, nrandom):
    out = list(alphabet_strings(maxlen))
    for n in (126, 127, 128, 129, 255, 256, 300):
        out.append(b"\xff" * n)
        out.append((b"\xff\xe0\x00\xff\x00")[:5] * (n // 5) + b"\xff")
        out.append(bytes(rng.choice(ALPHABET) for _ in range(n)))
    for _ in range(nrandom):
        out.append(bytes(rng.choice(ALPHABET) for _ in range(rng.randrange(0, 200))))
    return out


# ---------------------------------------------------------------------------------------------
# vm_compute cross-check shard

def vm_crosscheck(ctx):
    rng = ctx.rng
    cases, expect = [], []
    res_l = "match %s with Ok l => (0, l) | Raise EValue => (1, []) | Raise _ => (2, []) end"
    res_z = "match %s with Ok z => (0, [z]) | Raise EValue => (1, []) | Raise _ => (2, []) end"

    def model_l(r):
        if r.startswith("x"):
            return (0, list(unhx(r)))
        return (1 if r == "!ValueError" else 2, [])

    def model_z(r):
        if r.startswith("!"):
            return (1 if r == "!ValueError" else 2, [])
        return (0, [zp(r)])

    lat = lattice_values()
    for _ in range(20):
        v = rng.choice(lat + [-1, -5]); bits = rng.randrange(1, 9); be = rng.random() < 0.5
        width, mw = rng.choice(WIDTHS)
        cases.append(res_l % ("to_str (%d) %d %s (%d) %d" % (v, bits, "true" if be else "false", width, mw)))
        expect.append(model_l(ctx.model.call("c14_to_str", zs(bits), "1" if be else "0", zs(width), zs(mw), zs(v))))
    for _ in range(8):
        v = rng.choice(lat + [-1]); bits = rng.randrange(1, 9)
        cases.append(res_z % ("bpi_of_int %d (%d)" % (bits, v)))
        expect.append(model_z(ctx.model.call("c14_bpi_int", zs(bits), zs(v))))
    for _ in range(8):
        s = bytes(rng.choice(ALPHABET) for _ in range(rng.randrange(0, 6))); bits = rng.randrange(1, 9); be = rng.random() < 0.5
        cases.append(res_z % ("bpi_of_bytes %d %s %s" % (bits, "true" if be else "false", coq_bytes(s))))
        expect.append(model_z(ctx.model.call("c14_bpi_bytes", zs(bits), "1" if be else "0", hx(s))))
    for _ in range(10):
        s = bytes(rng.choice(ALPHABET) for _ in range(rng.randrange(0, 9)))
        cases.append("(0, unsynch_encode %s)" % coq_bytes(s))
        expect.append(model_l(ctx.model.call("c14_unsynch_encode", hx(s))))
        cases.append(res_l % ("unsynch_decode %s" % coq_bytes(s)))
        expect.append(model_l(ctx.model.call("c14_unsynch_decode", hx(s))))
    pre = "From Coq Require Import ZArith List. Import ListNotations. Require Import Base.Py Model.Id3Util. Open Scope Z_scope."
    res, log = vm_shard("c14", pre, cases)
    if res is None or len(res) != len(cases):
        _disagree(ctx, "c14.vm_shard", "vm_compute shard failed to run: %s" % (log,), {})
        return
    for c, e, r in zip(cases, expect, res):
        m = re.match(r"\((\d+), \[(.*)\]\)$", r.replace("%Z", ""))
        ctx.vm_cases += 1
        if not m:
            _disagree(ctx, "c14.vm_shard", "cannot parse %r" % r, {})
            return
        got = (int(m.group(1)), [int(x) for x in m.group(2).split(";") if x.strip()])
        if got != e:
            _disagree(ctx, "c14.vm_shard", "extracted binary and vm_compute differ on %s: binary=%r vm=%r" % (c, e, got), {})
            return


# ---------------------------------------------------------------------------------------------

def run(ctx):
    reference_selftest()
    U = _impl()
    rng = ctx.rng
    lat = lattice_values()
    big = random_values(rng, 300 if ctx.thorough else 60)
    bits18 = list(range(1, 9))
    nrange = 1 << (16 if ctx.thorough else 14)
    # (a)+(b) integers: exhaustive range, lattice, random large values
    run_to_str(ctx, U, range(nrange), bits18, WIDTHS, tag="range")
    run_to_str(ctx, U, lat + big, bits18, WIDTHS + [(-1, 6), (7, 4), (10, 4)], tag="lattice")
    # fidelity outside the property's range of bits (correspondence only)
    run_to_str(ctx, U, list(range(0, 600)) + lat[::5], [0, 9, 12], [(0, 4), (2, 4), (4, 4), (-1, 4), (-2, 4)], oracle=False, tag="bits-outside")
    run_to_str(ctx, U, [0, 1, 127, 300], [7], [(-2, 4), (-3, 0)], oracle=False, tag="negative-width")
    run_bpi_int(ctx, U, range(nrange), [0] + bits18)
    run_bpi_int(ctx, U, lat + big, [0] + bits18 + [9, 12])
    run_bpi_bytes(ctx, U, list(alphabet_strings(5 if ctx.thorough else 4)) + random_strings(rng, 200, 12), [0] + bits18 + [9])
    run_negative(ctx, thorough=ctx.thorough)
    # unsynch
    run_unsynch(ctx, U, alphabet_strings(7 if ctx.thorough else 5))
    run_unsynch(ctx, U, random_strings(rng, 2000 if ctx.thorough else 300, 3000), tag="random-long")
    # (c) tags
    run_tags(ctx, tag_payloads(rng, 4 if ctx.thorough else 3, 400 if ctx.thorough else 60))
    # (d)
    vm_crosscheck(ctx)


def search(ctx, broken):
    """a proof or the correspondence broke: search the implementation alone, with larger budgets"""
    before = _viol(ctx).total()
    U = _impl()
    rng = ctx.rng
    lat = lattice_values()
    bits18 = list(range(1, 9))
    run_negative(ctx, use_model=False, thorough=True)
    run_to_str(ctx, U, lat + random_values(rng, 500), bits18, WIDTHS + [(-1, 6), (7, 4), (10, 4)], use_model=False, tag="search-lattice")
    run_unsynch(ctx, U, alphabet_strings(6), use_model=False, tag="search")
    run_unsynch(ctx, U, random_strings(rng, 3000, 3000), use_model=False, tag="search-random")
    run_bpi_int(ctx, U, list(range(1 << 14)) + lat, [0] + bits18, use_model=False)
    run_bpi_bytes(ctx, U, list(alphabet_strings(5)), [0] + bits18, use_model=False)
    if _viol(ctx).total() == before:
        run_to_str(ctx, U, range(1 << 16), bits18, WIDTHS, use_model=False, tag="search-range")
        run_tags(ctx, tag_payloads(rng, 4, 600))
    ctx.notes["search"] = ("implementation-only search (to_str over v < 2^16 + lattice x bits 1..8 x widths x byte order, negatives under watchdog, "
                           "unsynch over all alphabet strings to length 6 + 3000 random, tags) found %d failing inputs" % (_viol(ctx).total() - before))


def replay(ctx, payload):
    d = payload.get("data", {})
    fn = d.get("fn") if isinstance(d, dict) else None
    if payload.get("kind") != "failing-input" or fn is None:
        run(ctx)
        return bool(ctx.violations or ctx.disagreements)
    U = _impl()
    V = _viol(ctx)
    if fn == "to_str":
        v, bits, be, width, mw = d["value"], d["bits"], d["bigendian"], d["width"], d["minwidth"]
        if v < 0:
            r = check_negative_one(["to_str", v, bits, be, width, mw])
            return r != "!ValueError"
        try:
            r = U.BitPaddedInt.to_str(v, bits, be, width, mw)
        except Exception as e:
            r = "!" + type(e).__name__
        return not oracle_to_str(V, U, v, bits, be, width, mw, r)
    if fn == "bpi_int":
        v, bits = d["value"], d["bits"]
        if v < 0:
            return check_negative_one(["bpi_int", v, bits]) != "!ValueError"
        run_bpi_int(ctx, U, [v], [bits], use_model=False)
        return V.total() > 0
    if fn in ("bpi_bytes", "hvp_bytes"):
        run_bpi_bytes(ctx, U, [bytes.fromhex(d["data"])], [d["bits"]], use_model=False)
        return V.total() > 0
    if fn in ("unsynch_encode", "unsynch_decode"):
        run_unsynch(ctx, U, [bytes.fromhex(d["data"])], use_model=False)
        return V.total() > 0
    if fn == "tag":
        return not oracle_tag(V, bytes.fromhex(d["payload"]), d["variant"])
    if fn == "header":
        run_tags(ctx, [])
        return V.total() > 0
    run(ctx)
    return bool(ctx.violations or ctx.disagreements)


def coverage_extra(ctx):
    return {"exhaustive": True,
            "exhaustive_note": "the integer range x bits x widths x byte order space and the alphabet strings up to the stated length are "
                               "enumerated completely; lattice/random values and tags are samples; the theorems cover all sizes"}
